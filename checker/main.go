package main

import (
	"flag"
	"fmt"
	"os"
	"path/filepath"
	"sort"
	"strconv"
	"strings"
	"time"

	"golang.org/x/tools/go/ssa"

	"wsverif/core"
	"wsverif/rules"
)

func main() {
	repo := flag.String("repo", "/repo", "repository root (current working tree is analysed)")
	verif := flag.String("verif", "/verif", "verification root (known_findings.json, evidence/)")
	prop := flag.String("prop", "", "property id (C01..C20) or 'all'")
	tier := flag.String("tier", "quick", "quick | thorough")
	noEvidence := flag.Bool("no-evidence", false, "do not write evidence files (used by selftest on scratch trees)")
	dump := flag.String("dump", "", "dump paths of a function (debug)")
	inline := flag.String("inline", "", "comma separated callee names to inline (debug dump)")
	unroll := flag.Int("unroll", 0, "loop unroll (debug dump)")
	pair := flag.Bool("pair", false, "pairs of consecutive loop iterations (debug dump)")
	max := flag.Int("max", 50, "max paths to print (debug dump)")
	list := flag.Bool("list", false, "list registered properties")
	genShapes := flag.Bool("gen-shapes", false, "maintenance: print rules/known_shapes.go for the tree at -repo")
	modOf := flag.String("mod", "", "debug: print the effect summary of a function")
	startAt := flag.String("start", "", "debug dump: start the region after the first call whose callee name contains this string")
	flag.Parse()
	if *list {
		for _, id := range rules.Props() {
			fmt.Println(id)
		}
		return
	}
	if *genShapes {
		p, err := core.Load(*repo, core.VDefault)
		if err != nil {
			fmt.Fprintln(os.Stderr, err)
			os.Exit(2)
		}
		fmt.Print(rules.GenShapes(p))
		return
	}
	if *modOf != "" {
		p, err := core.Load(*repo, core.VDefault)
		if err != nil {
			fmt.Fprintln(os.Stderr, err)
			os.Exit(2)
		}
		m := p.Mod(p.Func(*modOf))
		fmt.Println("deref:", m.Deref, "index:", m.Index, "external:", m.External, "freeStores:", m.FreeStores)
		for f := range m.Writes {
			fmt.Println("  writes", f.Name())
		}
		for cc := range m.Callees {
			cm := p.Mod(cc)
			if cm.Deref {
				fmt.Println("  callee with deref:", core.FuncName(cc))
			}
		}
		return
	}
	if *dump != "" {
		debugDump(*repo, *dump, *inline, *unroll, *max, *startAt, *pair)
		return
	}
	if *prop == "" {
		fmt.Fprintln(os.Stderr, "usage: wsverif -prop Cnn [-tier quick|thorough] [-repo /repo]")
		os.Exit(2)
	}
	seed := 0
	if s := os.Getenv("VERIF_SEED"); s != "" {
		seed, _ = strconv.Atoi(s)
	}
	props := []string{*prop}
	if *prop == "all" {
		props = rules.Props()
	}
	variants := []core.Variant{core.VDefault}
	if *tier == "thorough" {
		variants = append(variants, core.V386, core.VAppengine, core.VWindows)
	}
	known, err := core.LoadKnown(filepath.Join(*verif, "known_findings.json"))
	if err != nil {
		fmt.Fprintln(os.Stderr, "known_findings.json:", err)
		os.Exit(2)
	}
	start := time.Now()
	results := map[string][]*core.Result{}
	loadFail := ""
	for _, v := range variants {
		p, err := core.Load(*repo, v)
		if err != nil {
			loadFail = fmt.Sprintf("[%s] %v", v.Name, err)
			break
		}
		if v.Name == core.VWindows.Name {
			// no OS-specific sources are expected; the file set must equal the default one
		}
		for _, id := range props {
			results[id] = append(results[id], rules.Run(id, p, *tier))
		}
	}
	exit := 0
	for _, id := range props {
		rs := results[id]
		if loadFail != "" {
			fmt.Printf("%s: load failed: %s\n", id, loadFail)
			rp := filepath.Join(*verif, "evidence", id+".violation.txt")
			if !*noEvidence {
				os.MkdirAll(filepath.Dir(rp), 0o755)
				os.WriteFile(rp, []byte("load/type-check failure: "+loadFail+"\n"), 0o644)
			}
			fmt.Printf("VIOLATION property=%s replay=%s\n", id, rp)
			exit = 1
			continue
		}
		var printed []string
		for _, r := range rs {
			printed = append(printed, core.ApplyKnown(r.Obs, id, known)...)
		}
		printed = uniq(printed)
		var viol []core.Ob
		evdir := filepath.Join(*verif, "evidence")
		if *noEvidence {
			evdir = filepath.Join(os.TempDir(), "wsverif-noevidence-"+strconv.Itoa(os.Getpid()))
		}
		viol, err = writeEvidence(evdir, id, *tier, seed, rs, printed, nil, time.Since(start).Seconds())
		if *noEvidence {
			os.RemoveAll(evdir)
		}
		if err != nil {
			fmt.Fprintln(os.Stderr, "evidence:", err)
			exit = 1
		}
		nOb, nFn, nPaths := 0, map[string]bool{}, 0
		for _, r := range rs {
			nOb += len(r.Obs)
			nPaths += r.PathsSeen
			for f := range r.Analysed {
				nFn[f] = true
			}
		}
		for _, l := range printed {
			fmt.Println(l)
		}
		fmt.Printf("%s: %d obligations over %d functions, %d paths enumerated, %d variant(s): %d violated\n", id, nOb, len(nFn), nPaths, len(rs), len(viol))
		if len(viol) > 0 {
			sort.Slice(viol, func(i, j int) bool { return viol[i].Diag() < viol[j].Diag() })
			for _, o := range viol {
				fmt.Println("  " + o.Diag())
			}
			fmt.Printf("VIOLATION property=%s replay=%s\n", id, filepath.Join(*verif, "evidence", id+".violation.txt"))
			exit = 1
		}
	}
	os.Exit(exit)
}

func uniq(in []string) []string {
	seen := map[string]bool{}
	var out []string
	for _, s := range in {
		if !seen[s] {
			seen[s] = true
			out = append(out, s)
		}
	}
	return out
}

func debugDump(repo, name, inline string, unroll, max int, startAt string, pair bool) {
	p, err := core.Load(repo, core.VDefault)
	if err != nil {
		fmt.Fprintln(os.Stderr, err)
		os.Exit(2)
	}
	fn := p.Func(name)
	inl := map[string]bool{}
	for _, s := range strings.Split(inline, ",") {
		inl[s] = true
	}
	x := core.NewExplorer(p)
	n := 0
	var start ssa.Instruction
	if startAt != "" {
		for _, b := range fn.Blocks {
			for _, in := range b.Instrs {
				if c, ok := in.(*ssa.Call); ok && start == nil {
					if f := c.Call.StaticCallee(); f != nil && strings.Contains(f.String(), startAt) {
						start = in
					}
				}
			}
		}
	}
	total, err := x.Paths(fn, core.Opts{Unroll: unroll, PairIter: pair, NonNilOnNilErr: true, Start: start,
		Inline: func(c *ssa.Function, d int) bool { return inl[core.FuncName(c)] || inl["*"] }}, func(path *core.Path) {
		n++
		if n <= max {
			fmt.Printf("path %d:\n", n)
			p.DumpPath(os.Stdout, path)
		}
	})
	fmt.Println("paths:", total, "err:", err)
}
