package rules

import (
	"fmt"
	"go/constant"
	"go/types"

	"golang.org/x/tools/go/ssa"

	"wsverif/core"
)

func init() {
	register("C04", "Decides guard coverage of the frame-header validator over the complete header alphabet and protocol state, the close-body checks, the negative-length refusal, stickiness of read errors and the 1002 close, on every path of advanceFrame and its two callers.", c04)
}

// hdrVerdict is the RFC 6455 / property-C04 oracle for the first two header
// bytes in a protocol state: "" = must not be refused at the header stage for
// a framing reason, otherwise the violated rule.  ok=false means "don't care".
func hdrVerdict(s *hdrState) (class string, decided bool) {
	fin, rsv1, rsv2, rsv3 := s.b0&0x80 != 0, s.b0&0x40 != 0, s.b0&0x20 != 0, s.b0&0x10 != 0
	op := s.b0 & 0xf
	mask, len7 := s.b1&0x80 != 0, s.b1&0x7f
	switch {
	case rsv2:
		return "RSV2-set", true
	case rsv3:
		return "RSV3-set", true
	case rsv1 && !s.hasDecomp:
		return "RSV1-without-negotiated-compression", true
	case (op >= 3 && op <= 7) || op >= 11:
		return "reserved-opcode", true
	case op >= 8 && !fin:
		return "fragmented-control-frame", true
	case op >= 8 && len7 > 125:
		return "control-frame-longer-than-125", true
	case (op == 1 || op == 2) && !s.readFinal:
		return "data-frame-inside-unfinished-message", true
	case op == 0 && s.readFinal:
		return "continuation-without-message", true
	case mask != s.isServer:
		return "wrong-masking-for-role", true
	}
	if rsv1 && (op == 0 || op >= 8) {
		return "", false // RSV1 on continuation/control with compression negotiated: outside C04's list
	}
	return "", true
}

var hdrClasses = []string{"RSV2-set", "RSV3-set", "RSV1-without-negotiated-compression", "reserved-opcode", "fragmented-control-frame",
	"control-frame-longer-than-125", "data-frame-inside-unfinished-message", "continuation-without-message", "wrong-masking-for-role"}

// headerTable runs the exhaustive header x state comparison and returns, per
// class, the first counterexample (or "").
func (r *reader) headerTable(rule string) (reject map[string]string, acceptBad string, nStates, nPaths int) {
	c := r.c
	paths := r.headerStage(rule)
	nPaths = len(paths)
	reject = map[string]string{}
	x := core.NewExplorer(c.P)
	var stage []*hdrPath
	for _, hp := range paths {
		if hp.kind != "pre" {
			stage = append(stage, hp)
		}
	}
	for b0 := 0; b0 < 256; b0++ {
		for st := 0; st < 8; st++ {
			s := &hdrState{b0: b0, readFinal: st&1 != 0, isServer: st&2 != 0, hasDecomp: st&4 != 0}
			var cand []*hdrPath
			for _, hp := range stage {
				if r.compatible(x, hp, s, 0) {
					cand = append(cand, hp)
				}
			}
			for b1 := 0; b1 < 256; b1++ {
				s.b1 = b1
				nStates++
				class, decided := hdrVerdict(s)
				if !decided {
					continue
				}
				n := 0
				for _, hp := range cand {
					if !r.compatible(x, hp, s, 1) {
						continue
					}
					n++
					desc := fmt.Sprintf("header bytes %#02x %#02x, message in progress=%v, server=%v, compression negotiated=%v", s.b0, s.b1, !s.readFinal, s.isServer, s.hasDecomp)
					if class != "" && hp.kind != "proto" && hp.kind != "io" {
						if reject[class] == "" {
							reject[class] = desc + ": a path " + hp.desc + " instead of returning handleProtocolError"
						}
					}
					if class == "" && hp.kind == "proto" && acceptBad == "" {
						acceptBad = desc + ": conformant header is refused with a protocol error"
					}
				}
				if n == 0 && class != "" && reject[class] == "" {
					reject[class] = fmt.Sprintf("header bytes %#02x %#02x: no path of the validator matches (analysis could not interpret the validator)", s.b0, s.b1)
				}
			}
		}
	}
	return
}

func c04(c *Ctx) {
	r := c.R
	rd := newReader(c)
	r.Rule("C04.header-guards", "for every value of the first two header bytes (65536) in every protocol state (message in progress x role x compression negotiated): if RFC 6455 forbids the frame, every path of advanceFrame compatible with that header and state returns handleProtocolError before any further transport read, unmasking, handler call, length accounting or frame delivery (decision table extracted by evaluating the validator's branch terms over the finite alphabet)")
	r.Rule("C04.close-body", "handleClose is reached with a received status code only under isValidReceivedCloseCode(code) and utf8.ValidString(reason); the accepted-code table (map initialiser + range) is compared with the property's list for all 65536 codes")
	r.Rule("C04.top-bit", "every value stored to Conn.readRemaining is provably non-negative or checked by [n < 0] -> error before the store; the error is returned before any payload read")
	r.Rule("C04.sticky", "advanceFrame is called only from NextReader and messageReader.Read under [readErr == nil]; its non-nil error is stored to readErr before the caller returns or loops; a non-nil readErr from an earlier call is never overwritten; NextReader's error result is readErr")
	r.Rule("C04.close-1002", "handleProtocolError sends WriteControl(CloseMessage, FormatCloseMessage(1002, ...) truncated to 125) and returns a non-nil error")
	r.Assume("header bytes returned by (*Conn).read are not modified between the bit tests (no store through the peeked slice in the header stage)")

	// ---- header guards
	rej, _, nStates, nPaths := rd.headerTable("C04.header-guards")
	for _, cl := range hdrClasses {
		ok, why := rej[cl] == "", fmt.Sprintf("all headers of this class are refused on every compatible path (%d header x state points, %d validator paths)", nStates, nPaths)
		if !ok {
			why = rej[cl]
		}
		r.Check("C04.header-guards", shortFn(rd.advance), "reject:"+cl, rd.advance.Pos(), ok, why)
	}
	r.Floor("C04.header-guards", 9)
	if nPaths < 20 {
		r.Fail("C04.header-guards", shortFn(rd.advance), "validator-paths", rd.advance.Pos(), fmt.Sprintf("only %d header-stage paths found (expected >= 20)", nPaths))
	}

	rd.closeBody("C04.close-body")
	rd.closeCodeTable("C04.close-body", true, false)
	rd.remainingSign("C04.top-bit")
	rd.sticky("C04.sticky")
	rd.close1002("C04.close-1002")
	flateWrapperRule(c, "C04.error-reaches-reader") // ... and keeps reporting it: the inflater is given up only at EOF
	r.Rule("C04.no-false-violation", "a frame RFC 6455 allows is not treated as a violation (it would be refused, its 1002 close sent and everything after it lost): no protocol-error return of advanceFrame is compatible with a conformant non-close header (same rule as C03.accept-table)")
	rd.lateRefusals("C04.no-false-violation")
	r.Rule("C04.close-1002-sendable", "an earlier control write that merely timed out waiting for the connection does not poison it, so the 1002 close frame of a later violation can still be sent (same rule as C11.timeout-paths)")
	c.borrow(c11, map[string]string{"C11.timeout-paths": "C04.close-1002-sendable"})
	r.Rule("C04.control-bodies-readable", "a control frame body of any legal size can be read, so that its validation (close code, UTF-8) and the 1002 reply happen instead of a buffer error (same rule as C08.read-buffer)")
	c08readBufferAs(c, rd, "C04.control-bodies-readable")
	// the value whose top bit is tested is the full 64-bit length the peer sent
	rd.parserRules("C04.top-bit", "", "", "")
	r.Rule("C04.error-reaches-reader", "the error of the violating frame reaches whoever is reading the current message: every Read method layered over the message reader (decompression source, JoinMessages, ...) passes inner errors other than io.EOF on instead of ending the message cleanly (same rule as C05.reader-wrappers)")
	if c.readerWrappers("C04.error-reaches-reader") < 4 {
		r.Fail("C04.error-reaches-reader", "package", "floor", c.fn("(*joinReader).Read").Pos(), "fewer than the 4 known reader wrappers were analysed")
	}
}

// closeBody: paths of advanceFrame reaching the close handler.
func (rd *reader) closeBody(rule string) {
	c, r := rd.c, rd.c.R
	valid := c.fn("isValidReceivedCloseCode")
	noStatus := c.P.ConstInt("CloseNoStatusReceived")
	ok, why := true, "every handleClose call with a received code carries isValidReceivedCloseCode(code) and utf8.ValidString(reason), code and reason taken from this frame's payload"
	n := 0
	opts := core.Opts{Unroll: 0, Inline: rd.inl(),
		Pure: func(f *ssa.Function) bool { return f == valid }}
	c.explore(rule, rd.advance, opts, func(p *core.Path) {
		for i := range p.Events {
			ev := &p.Events[i]
			if rd.handlerCall(ev) != rd.handleClose || len(ev.Args) != 2 {
				continue
			}
			n++
			code, text := ev.Args[0], ev.Args[1]
			if v, isC := code.Int64(); isC {
				if v != noStatus {
					ok, why = false, fmt.Sprintf("handleClose called with constant code %d", v)
				}
				if s, isS := text.StrVal(); !isS || s != "" {
					ok, why = false, "handleClose called with the no-status code but a non-empty reason"
				}
				continue
			}
			g1 := hasLit(p, ev.NLits, true, func(t *core.Term) bool {
				return t.Kind == core.KApp && t.Ref == interface{}(valid) && len(t.Args) == 1 && t.Args[0] == code
			})
			g2 := hasLit(p, ev.NLits, true, func(t *core.Term) bool {
				if t.Kind != core.KCall || len(t.Args) != 1 || t.Args[0] != text {
					return false
				}
				f, isF := t.Ref.(*ssa.Function)
				return isF && extName(f) == "unicode/utf8.ValidString"
			})
			if !g1 {
				ok, why = false, "handleClose reachable with a received status code that was not validated by isValidReceivedCloseCode (call at "+c.P.Pos(ev.Instr.Pos())+")"
			}
			if !g2 {
				ok, why = false, "handleClose reachable with a close reason that was not validated by utf8.ValidString (call at "+c.P.Pos(ev.Instr.Pos())+")"
			}
			// provenance: code = int(Uint16(payload)), text = string(payload[2:]) of this frame's payload
			payload := rd.controlPayload(p, i)
			cs := strip(code)
			if payload != nil && bigEndianOf(p.X, code, payload, 2) {
				// decoded by hand from the two leading bytes of this payload
			} else if payload == nil || cs.Kind != core.KCall || len(cs.Args) < 1 || cs.Args[len(cs.Args)-1] != payload {
				ok, why = false, "status code passed to handleClose is not decoded from this frame's payload"
			}
			ts := strip(text)
			if payload == nil || ts.Kind != core.KSlice || ts.Args[0] != payload {
				ok, why = false, "reason passed to handleClose is not a slice of this frame's payload"
			} else if lo, isC := ts.Args[1].Int64(); !isC || lo != 2 {
				ok, why = false, "reason passed to handleClose does not start at payload[2]"
			}
		}
	})
	if n == 0 {
		ok, why = false, "no call through Conn.handleClose found in advanceFrame"
	}
	r.Check(rule, shortFn(rd.advance), "close-handler-guards", rd.advance.Pos(), ok, why)
}

// controlPayload: the slice returned by the last c.read before event i (the control payload).
func (rd *reader) controlPayload(p *core.Path, i int) *core.Term {
	var res *core.Term
	for k := 0; k < i; k++ {
		if ev := &p.Events[k]; callsStatic(ev, rd.read) {
			res = p.X.ExtractOf(ev.Result, 0, nil)
		}
	}
	return res
}

// closeCodeTable evaluates isValidReceivedCloseCode for all 16-bit codes.
func (rd *reader) closeCodeTable(rule string, checkReject, checkAccept bool) {
	c, r := rd.c, rd.c.R
	valid := c.fn("isValidReceivedCloseCode")
	// map literal initialisers in the package initialiser
	tables := map[*ssa.Global]map[int64]bool{}
	if init := c.P.SPkg.Func("init"); init != nil {
		for _, b := range init.Blocks {
			for _, in := range b.Instrs {
				mu, isMU := in.(*ssa.MapUpdate)
				if !isMU {
					continue
				}
				k, ok1 := mu.Key.(*ssa.Const)
				v, ok2 := mu.Value.(*ssa.Const)
				// a set written as map[K]struct{}: presence is the only information
				set := false
				if ok2 && v.Value == nil {
					if st, isSt := v.Type().Underlying().(*types.Struct); isSt && st.NumFields() == 0 {
						set = true
					}
				}
				if !ok1 || !ok2 || k.Value == nil || (!set && (v.Value == nil || v.Value.Kind() != constant.Bool)) {
					continue
				}
				var g *ssa.Global
				for _, ref := range *mu.Map.Referrers() {
					if st, isSt := ref.(*ssa.Store); isSt && st.Val == mu.Map {
						g, _ = st.Addr.(*ssa.Global)
					}
				}
				if g == nil {
					continue
				}
				if tables[g] == nil {
					tables[g] = map[int64]bool{}
				}
				kv, _ := constant.Int64Val(k.Value)
				tables[g][kv] = set || constant.BoolVal(v.Value)
			}
		}
	}
	// globals holding those maps must not be written elsewhere
	for g := range tables {
		for _, fn := range c.P.FuncList {
			if c.P.Mod(fn).GWrites[g] && fn.Name() != "init" {
				r.Fail(rule, shortFn(fn), "writes-"+g.Name(), fn.Pos(), "close-code table "+g.Name()+" is modified after initialisation")
			}
		}
	}
	type pth struct {
		lits []core.Lit
		res  *core.Term
	}
	var paths []pth
	var x *core.Explorer
	c.explore(rule, valid, core.Opts{}, func(p *core.Path) {
		x = p.X
		if p.End == core.EndReturn && len(p.Results) == 1 {
			paths = append(paths, pth{append([]core.Lit(nil), p.Lits...), p.Results[0]})
		}
	})
	param := valid.Params[0]
	eval := func(code int64) (bool, bool) {
		leaf := func(t *core.Term) (constant.Value, bool) {
			if t.Kind == core.KParam && t.Ref == param {
				return constant.MakeInt64(code), true
			}
			// v, ok := table[code]: component 0 is the value (false when absent), component 1 is presence
			if t.Kind == core.KExtract && t.Args[0].Kind == core.KLookup && t.Args[0].Args[0].Kind == core.KLoad && t.Args[0].Args[0].Args[0].Kind == core.KGlobal {
				lk := t.Args[0]
				g := lk.Args[0].Args[0].Ref.(*ssa.Global)
				if tab, ok := tables[g]; ok {
					if k, okk := x.Eval(lk.Args[1], func(u *core.Term) (constant.Value, bool) {
						if u.Kind == core.KParam && u.Ref == param {
							return constant.MakeInt64(code), true
						}
						return nil, false
					}); okk {
						kv, _ := constant.Int64Val(k)
						val, present := tab[kv]
						if t.N == 1 {
							return constant.MakeBool(present), true
						}
						return constant.MakeBool(val), true
					}
				}
			}
			if t.Kind == core.KLookup && t.Args[0].Kind == core.KLoad && t.Args[0].Args[0].Kind == core.KGlobal {
				g := t.Args[0].Args[0].Ref.(*ssa.Global)
				if tab, ok := tables[g]; ok {
					if k, okk := x.Eval(t.Args[1], func(u *core.Term) (constant.Value, bool) {
						if u.Kind == core.KParam && u.Ref == param {
							return constant.MakeInt64(code), true
						}
						return nil, false
					}); okk {
						kv, _ := constant.Int64Val(k)
						return constant.MakeBool(tab[kv]), true
					}
				}
			}
			return nil, false
		}
		for _, p := range paths {
			feasible := true
			for _, l := range p.lits {
				v, ok := x.Eval(l.T, leaf)
				if !ok {
					return false, false
				}
				if constant.BoolVal(v) != l.Pos {
					feasible = false
					break
				}
			}
			if !feasible {
				continue
			}
			v, ok := x.Eval(p.res, leaf)
			if !ok {
				return false, false
			}
			return constant.BoolVal(v), true
		}
		return false, false
	}
	mustAccept := func(code int64) bool {
		return (code >= 1000 && code <= 1003) || (code >= 1007 && code <= 1011) || (code >= 3000 && code <= 4999)
	}
	mustReject := func(code int64) bool {
		return code < 1000 || code == 1004 || code == 1005 || code == 1006 || (code >= 1015 && code <= 2999) || code >= 5000
	}
	badAcc, badRej, undecided := int64(-1), int64(-1), int64(-1)
	for code := int64(0); code < 65536; code++ {
		v, ok := eval(code)
		if !ok {
			if undecided < 0 {
				undecided = code
			}
			continue
		}
		if v && mustReject(code) && badAcc < 0 {
			badAcc = code
		}
		if !v && mustAccept(code) && badRej < 0 {
			badRej = code
		}
	}
	if undecided >= 0 {
		r.Fail(rule, shortFn(valid), "close-code-table", valid.Pos(), fmt.Sprintf("cannot evaluate the accepted-code predicate for code %d (shape not understood)", undecided))
		return
	}
	if checkReject {
		r.Check(rule, shortFn(valid), "close-code-table-rejects-invalid", valid.Pos(), badAcc < 0,
			map[bool]string{true: "codes 0-999, 1004, 1005, 1006, 1015-2999 and >= 5000 are all refused (65536 codes evaluated)", false: fmt.Sprintf("invalid close code %d is accepted", badAcc)}[badAcc < 0])
	}
	if checkAccept {
		r.Check(rule, shortFn(valid), "close-code-table-accepts-valid", valid.Pos(), badRej < 0,
			map[bool]string{true: "codes 1000-1003, 1007-1011 and 3000-4999 are all accepted (65536 codes evaluated)", false: fmt.Sprintf("valid close code %d is refused", badRej)}[badRej < 0])
	}
}

// remainingSign: Conn.readRemaining never becomes negative.
func (rd *reader) remainingSign(rule string) {
	c, r := rd.c, rd.c.R
	fns := map[*ssa.Function]bool{}
	for _, s := range c.P.FieldStoreSites(rd.readRemaining) {
		fns[s.Parent()] = true
	}
	n := 0
	for _, fn := range c.P.FuncList {
		if !fns[fn] {
			continue
		}
		ok, why := true, "stored value is checked by [n < 0] on the storing path or is provably non-negative"
		c.explore(rule, fn, core.Opts{}, func(p *core.Path) {
			for i := range p.Events {
				ev := &p.Events[i]
				if ev.Kind != core.EvStore || !isFieldAddr(ev.Addr, rd.readRemaining) {
					continue
				}
				n++
				v := ev.Val
				if lo, has := p.X.Lower(v); has && lo >= 0 {
					continue
				}
				if hasLit(p, ev.NLits, false, func(t *core.Term) bool {
					if t.Kind != core.KLt || t.Args[0] != v {
						return false
					}
					z, isC := t.Args[1].Int64()
					return isC && z == 0
				}) {
					continue
				}
				ok, why = false, "value stored to Conn.readRemaining at "+c.P.Pos(ev.Instr.Pos())+" may be negative (no [n < 0] refusal on the path)"
			}
		})
		r.Check(rule, shortFn(fn), "store-readRemaining-nonnegative", fn.Pos(), ok, why)
	}
	// callers of setReadRemaining: result checked unless the argument is provably non-negative
	for _, g := range []*ssa.Function{rd.advance, rd.mrRead} {
		ok, why := true, "every setReadRemaining call has a provably non-negative argument or its error result is returned before any further read"
		inl := rd.inl()
		c.explore(rule, g, core.Opts{Unroll: 0, Inline: func(f *ssa.Function, d int) bool { return f != rd.setRem && inl(f, d) }}, func(p *core.Path) {
			for i := range p.Events {
				ev := &p.Events[i]
				if !callsStatic(ev, rd.setRem) {
					continue
				}
				n++
				arg := ev.Args[1]
				if lo, has := p.X.Lower(arg); has && lo >= 0 {
					continue
				}
				if rem, isSub := nonNegDifference(p, arg, rd); isSub && rem {
					continue
				}
				res := ev.Result
				tested := hasLit(p, len(p.Lits), true, func(t *core.Term) bool { return isEqNil(t, func(y *core.Term) bool { return y == res }) }) ||
					hasLit(p, len(p.Lits), false, func(t *core.Term) bool { return isEqNil(t, func(y *core.Term) bool { return y == res }) })
				if !tested {
					ok, why = false, "result of setReadRemaining("+arg.String()+") at "+c.P.Pos(ev.Instr.Pos())+" is ignored although the argument may be negative"
					continue
				}
				if hasLit(p, len(p.Lits), false, func(t *core.Term) bool { return isEqNil(t, func(y *core.Term) bool { return y == res }) }) {
					// error branch: must return it with no later transport read
					for k := i + 1; k < len(p.Events); k++ {
						if rd.usesBr(&p.Events[k]) || callsStatic(&p.Events[k], rd.read) {
							ok, why = false, "a transport read follows the refused length at "+c.P.Pos(ev.Instr.Pos())
						}
					}
					if p.End == core.EndReturn && len(p.Results) == 2 && p.Results[1] != res {
						ok, why = false, "the length refusal at "+c.P.Pos(ev.Instr.Pos())+" is not returned"
					}
				}
			}
		})
		r.Check(rule, shortFn(g), "setReadRemaining-argument-sign", g.Pos(), ok, why)
	}
	r.Floor(rule, 3)
}

// nonNegDifference recognises rem = readRemaining - int64(n) with n the count
// returned by a read into a buffer truncated to readRemaining.
func nonNegDifference(p *core.Path, arg *core.Term, rd *reader) (nonNeg, isSub bool) {
	if arg.Kind != core.KBin || arg.Op.String() != "-" {
		return false, false
	}
	a, b := arg.Args[0], arg.Args[1]
	if _, ok := fieldLoad(a, rd.readRemaining); !ok {
		return false, true
	}
	n := strip(b)
	if n.Kind != core.KExtract || n.N != 0 || n.Args[0].Kind != core.KCall || len(n.Args[0].Args) < 1 {
		return false, true
	}
	// the buffer read into: either len(buf) <= readRemaining is known, or buf = b[:readRemaining]
	call := n.Args[0]
	buf := call.Args[len(call.Args)-1]
	if buf.Kind == core.KSlice && buf.Args[2] == a {
		return true, true
	}
	// path literal !(readRemaining < int64(len(buf)))
	if hasLit(p, len(p.Lits), false, func(t *core.Term) bool {
		return t.Kind == core.KLt && t.Args[0] == a && strip(t.Args[1]).Kind == core.KLen && strip(t.Args[1]).Args[0] == buf
	}) {
		return true, true
	}
	return false, true
}

var _ = types.Typ
