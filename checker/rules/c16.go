package rules

import (
	"fmt"
	"go/types"

	"golang.org/x/tools/go/ssa"

	"wsverif/core"
)

func init() {
	register("C16", "Decides the connection-ownership typestate of both handshakes: after every call that yields a network connection, every path that fails closes it (directly, through the TLS or buffered wrapper that owns it, or by the deferred closure) and no successful path does; no deadline armed by the library is left on a successful path; the handshake deadline is attached to the first-hop connection before any proxy or TLS exchange.", c16)
}

// connLike: type implements net.Conn (or is it).
func (c *Ctx) connLike(t types.Type) bool {
	nc := c.P.ExtMethod("net", "Conn", "Write") // ensures net is imported
	_ = nc
	pkg := c.P.ExtFunc("net", "Dial").Pkg()
	iface := pkg.Scope().Lookup("Conn").Type().Underlying().(*types.Interface)
	return types.Implements(t, iface)
}

// acquireSites: calls in fn whose result is (conn-like, ..., error).
func (c *Ctx) acquireSites(fn *ssa.Function) []*ssa.Call {
	var out []*ssa.Call
	for _, b := range fn.Blocks {
		for _, in := range b.Instrs {
			call, ok := in.(*ssa.Call)
			if !ok {
				continue
			}
			tup, ok := call.Type().(*types.Tuple)
			if !ok || tup.Len() < 2 || !isErr(tup.At(tup.Len()-1).Type()) || !c.connLike(tup.At(0).Type()) {
				continue
			}
			// a call whose results are returned unchanged in one step hands ownership to the caller: not an acquisition
			if passesThrough(call) {
				continue
			}
			out = append(out, call)
		}
	}
	return out
}

func c16(c *Ctx) {
	r := c.R
	r.Rule("C16.conn-pairing", "after each call returning (net.Conn, ..., error) with a nil error: every path to a return with a non-nil error has called Close on the connection or on a wrapper that owns it (tls.Client(c, ..), &brNetConn{Conn: c}), including through the deferred closure whose guard cell still holds it; every path returning success has not closed it and returns it (or a Conn built on it)")
	r.Rule("C16.deadline-cleared", "DialContext: the success return is preceded by SetDeadline(time.Time{}) with nil result and no later deadline call; Upgrade: on success no deadline armed by Upgrade itself remains (read and write side tracked separately)")
	r.Rule("C16.deadline-applied", "netDialWithDeadline sets the deadline on the dialed connection before returning it; netDialFn wraps the first-hop dialer with it before the proxy dialer is built; DialContext derives the context with HandshakeTimeout before choosing the dialer and uses the derived context for dialing and TLS")
	r.Rule("C16.malformed-refused", "a malformed reply or request is refused (nil connection, error, transport closed) only if the token-list test recognises it as malformed: tokenListContainsValue matches whole tokens with ASCII case folding after optional SP/HTAB on every header line (same rule as C14.token-list)")
	newUpgA(c).tokenListOWS("C16.malformed-refused")
	r.Rule("C16.pre-hijack", "Upgrade replies through returnError and never hijacks on a failed validation (shared with C12.chain)")
	r.Assume("a function returning (conn, err) with err == nil returns a non-nil conn (Go convention; used for net dial functions, Hijack, tls.Client)")
	r.Assume("(*tls.Conn).Close closes the wrapped connection; brNetConn embeds the connection and inherits its Close")
	r.Assume("golang.org/x/net/proxy (SOCKS) closes the connections it dials on failure")
	deadlineDiscipline(c, "C16.deadline-cleared")

	fns := []string{"(*Dialer).DialContext", shortFn(c.returnedFunc("netDialWithDeadline")), shortFn(c.returnedFunc("netDialWithTLSHandshake")), "(*httpProxyDialer).DialContext", "(*Upgrader).Upgrade"}
	nSites := 0
	for _, name := range fns {
		fn := c.fn(name)
		for _, site := range c.acquireSites(fn) {
			nSites++
			c.pairing(fn, site)
		}
	}
	// any other function acquiring a connection must be covered too
	for _, fn := range c.P.FuncList {
		known := false
		for _, n := range fns {
			if shortFn(fn) == n {
				known = true
			}
		}
		if known {
			continue
		}
		for _, site := range c.acquireSites(fn) {
			nSites++
			c.pairing(fn, site)
		}
	}
	r.Floor("C16.conn-pairing", 5)

	c16deadlines(c)
	c16applied(c)
	c16prehijack(c, "C16.pre-hijack")
}

// pairing checks the ownership typestate after one acquisition site.
func (c *Ctx) pairing(fn *ssa.Function, site *ssa.Call) {
	r := c.R
	name := shortFn(fn)
	tup := site.Type().(*types.Tuple)
	errIdx := tup.Len() - 1
	ok, why := true, "closed on every failing path, open and returned on every successful path"
	nFail, nOK := 0, 0
	nRes := fn.Signature.Results().Len()
	opts := core.Opts{Start: site, Unroll: 0, NonNilOnNilErr: true, MaxPaths: 400000}
	c.explore("C16.conn-pairing", fn, opts, func(p *core.Path) {
		if p.End != core.EndReturn || len(p.Results) != nRes {
			return
		}
		x := p.X
		// the acquired connection and its error (evaluated on demand in region mode)
		var conn, aerr *core.Term
		for _, l := range p.Lits {
			l.T.Walk(func(t *core.Term) bool {
				if t.Kind == core.KExtract && t.Args[0].Kind == core.KOpaque && t.Args[0].Ref == ssa.Value(site) {
					if t.N == errIdx {
						aerr = t
					}
				}
				return true
			})
		}
		tupT := x.OpaqueOf(site)
		conn = x.ExtractOf(tupT, 0, tup.At(0).Type())
		aerr = x.ExtractOf(tupT, errIdx, tup.At(errIdx).Type())
		failedDial := hasLit(p, len(p.Lits), false, func(t *core.Term) bool { return isEqNil(t, func(y *core.Term) bool { return y == aerr }) })
		if failedDial {
			return
		}
		// ownership closure
		owned := map[*core.Term]bool{conn: true}
		closed := false
		var closeAt string
		for i := range p.Events {
			ev := &p.Events[i]
			switch ev.Kind {
			case core.EvCall:
				if ev.Static != nil && extName(ev.Static) == "crypto/tls.Client" && len(ev.Args) > 0 && owned[strip(ev.Args[0])] {
					owned[ev.Result] = true
				}
				isClose := (ev.Static == nil && ev.Method != nil && ev.Method.Name() == "Close" && owned[strip(ev.Recv)]) ||
					(ev.Static != nil && ev.Method != nil && ev.Method.Name() == "Close" && len(ev.Args) > 0 && owned[strip(ev.Args[0])])
				if isClose {
					closed = true
					closeAt = c.P.Pos(ev.Instr.Pos())
				}
			case core.EvStore:
				if owned[strip(ev.Val)] && ev.Addr.Kind == core.KFieldAddr && ev.Addr.Args[0].Kind == core.KAlloc && ev.Addr.Var.Embedded() {
					owned[ev.Addr.Args[0]] = true
				}
			}
		}
		e := p.Results[nRes-1]
		success := e.IsNil()
		if success {
			nOK++
			if closed {
				ok, why = false, "the connection is closed (at "+closeAt+") on the path that returns it successfully at "+c.P.Pos(p.Ret.Pos())
			}
			// the returned value must be built on the connection
			r0 := strip(p.Results[0])
			derived := owned[r0]
			if !derived && r0.Kind == core.KCall {
				for _, a := range r0.Args {
					if owned[strip(a)] {
						derived = true
					}
				}
			}
			if !derived {
				ok, why = false, "the success return at "+c.P.Pos(p.Ret.Pos())+" does not return the acquired connection (or a Conn built on it): "+r0.String()
			}
			return
		}
		nFail++
		if !closed {
			ok, why = false, "the path returning an error at "+c.P.Pos(p.Ret.Pos())+" leaves the connection obtained at "+c.P.Pos(site.Pos())+" open (leak)"
		}
		if !p.Results[0].IsNil() {
			ok, why = false, "a non-nil connection is returned together with an error at "+c.P.Pos(p.Ret.Pos())
		}
	})
	if nOK == 0 {
		ok, why = false, "no successful path found after the acquisition"
	}
	r.Check("C16.conn-pairing", name, "connection-from-"+siteLabel(site), site.Pos(), ok, fmt.Sprintf("%s (%d failing, %d successful paths)", why, nFail, nOK))
}

func siteLabel(site *ssa.Call) string {
	cc := site.Common()
	if cc.IsInvoke() {
		return cc.Method.Name()
	}
	if f := cc.StaticCallee(); f != nil {
		return f.Name()
	}
	switch v := cc.Value.(type) {
	case *ssa.UnOp:
		if fa, ok := v.X.(*ssa.FieldAddr); ok {
			return fieldOf(fa).Name()
		}
	case *ssa.Parameter:
		return v.Name()
	case *ssa.FreeVar:
		return v.Name()
	case *ssa.Extract:
		return "dial-function"
	}
	return "call"
}

// passesThrough: every use of the call's result is an Extract that flows
// only into one Return of the same function.
func passesThrough(call *ssa.Call) bool {
	refs := *call.Referrers()
	if len(refs) == 0 {
		return false
	}
	for _, r := range refs {
		switch v := r.(type) {
		case *ssa.Return:
		case *ssa.Extract:
			for _, r2 := range *v.Referrers() {
				if _, ok := r2.(*ssa.Return); !ok {
					if _, isDbg := r2.(*ssa.DebugRef); !isDbg {
						return false
					}
				}
			}
		case *ssa.DebugRef:
		default:
			return false
		}
	}
	return true
}
