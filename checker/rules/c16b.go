package rules

import (
	"go/types"

	"golang.org/x/tools/go/ssa"

	"wsverif/core"
)

// deadline state of one direction
const (
	dlExt   = iota // set (or not) by someone else before the library got the connection
	dlZero         // cleared by the library
	dlArmed        // armed by the library
)

func deadlineCall(ev *core.Event) (name string, zero bool, ok bool) {
	if ev.Kind != core.EvCall || ev.Method == nil || len(ev.Args) == 0 {
		return "", false, false
	}
	switch ev.Method.Name() {
	case "SetDeadline", "SetReadDeadline", "SetWriteDeadline":
		a := ev.Args[len(ev.Args)-1]
		return ev.Method.Name(), a.Kind == core.KConst && a.Val == nil, true
	}
	return "", false, false
}

func c16deadlines(c *Ctx) {
	r := c.R
	type job struct {
		fn      string
		initial int
	}
	for _, j := range []job{{"(*Dialer).DialContext", dlArmed}, {"(*Upgrader).Upgrade", dlExt}} {
		fn := c.fn(j.fn)
		sites := c.acquireSites(fn)
		if len(sites) != 1 {
			r.Fail("C16.deadline-cleared", j.fn, "acquisition-site", fn.Pos(), "expected exactly one connection acquisition")
			continue
		}
		ok, why := true, "no deadline armed by the library remains on any successful return"
		nOK := 0
		nRes := fn.Signature.Results().Len()
		c.explore("C16.deadline-cleared", fn, core.Opts{Start: sites[0], Unroll: 0, NonNilOnNilErr: true, MaxPaths: 400000}, func(p *core.Path) {
			if p.End != core.EndReturn || len(p.Results) != nRes || !p.Results[nRes-1].IsNil() {
				return
			}
			nOK++
			rd, wr := j.initial, j.initial
			for i := range p.Events {
				ev := &p.Events[i]
				name, zero, is := deadlineCall(ev)
				if !is {
					continue
				}
				st := dlArmed
				if zero {
					st = dlZero
				}
				// the call's error must be known nil on a successful path
				e := errOf(p.X, ev.Result)
				if e == nil || !hasLit(p, len(p.Lits), true, func(t *core.Term) bool { return isEqNil(t, func(y *core.Term) bool { return y == e }) }) {
					ok, why = false, "the error of "+name+" at "+c.P.Pos(ev.Instr.Pos())+" is not checked on a successful path"
				}
				switch name {
				case "SetDeadline":
					rd, wr = st, st
				case "SetReadDeadline":
					rd = st
				case "SetWriteDeadline":
					wr = st
				}
			}
			if rd == dlArmed || wr == dlArmed {
				side := "read"
				if wr == dlArmed {
					side = "write"
				}
				if rd == dlArmed && wr == dlArmed {
					side = "read and write"
				}
				ok, why = false, "the successful return at "+c.P.Pos(p.Ret.Pos())+" leaves a handshake deadline armed on the "+side+" side of the connection"
			}
		})
		r.Check("C16.deadline-cleared", j.fn, "no-deadline-left-on-success", fn.Pos(), ok && nOK > 0, why)
	}
}

func c16applied(c *Ctx) {
	r := c.R
	// (c) netDialWithDeadline closure
	{
		fn := c.returnedFunc("netDialWithDeadline")
		ok, why := true, "SetDeadline(deadline) with nil result precedes returning the dialed connection"
		n := 0
		c.explore("C16.deadline-applied", fn, core.Opts{NonNilOnNilErr: true}, func(p *core.Path) {
			if p.End != core.EndReturn || len(p.Results) != 2 || !p.Results[1].IsNil() {
				return
			}
			n++
			set := false
			for i := range p.Events {
				ev := &p.Events[i]
				if name, _, is := deadlineCall(ev); is && name == "SetDeadline" && strip(ev.Recv) == strip(p.Results[0]) {
					if a := ev.Args[0]; isCapturedState(fn, a) {
						e := errOf(p.X, ev.Result)
						if hasLit(p, len(p.Lits), true, func(t *core.Term) bool { return isEqNil(t, func(y *core.Term) bool { return y == e }) }) {
							set = true
						}
					}
				}
			}
			if !set {
				ok, why = false, "the dialed connection is returned without the context deadline having been applied to it"
			}
		})
		r.Check("C16.deadline-applied", shortFn(fn), "deadline-set-before-return", fn.Pos(), ok && n > 0, why)
	}
	// (b) netDialFn wrap order
	{
		fn := c.fn("(*Dialer).netDialFn")
		withDL, fromURL, proxyFrom := c.fn("netDialWithDeadline"), c.fn("(*Dialer).netDialFromURL"), c.fn("proxyFromURL")
		ok, why := true, "when the context has a deadline the first-hop dialer is wrapped by netDialWithDeadline before it is handed to the proxy dialer (and before it is returned)"
		nProxy, nDirect := 0, 0
		c.explore("C16.deadline-applied", fn, core.Opts{}, func(p *core.Path) {
			if p.End != core.EndReturn {
				return
			}
			var dlOK *core.Term // the 'ok' of ctx.Deadline()
			var dlVal *core.Term
			for i := range p.Events {
				ev := &p.Events[i]
				if ev.Kind == core.EvCall && ev.Method != nil && ev.Method.Name() == "Deadline" && ev.Static == nil {
					dlVal = p.X.ExtractOf(ev.Result, 0, nil)
					dlOK = p.X.ExtractOf(ev.Result, 1, nil)
				}
			}
			has := dlOK != nil && hasLit(p, len(p.Lits), true, func(t *core.Term) bool { return t == dlOK })
			hasNot := dlOK != nil && hasLit(p, len(p.Lits), false, func(t *core.Term) bool { return t == dlOK })
			if !has && !hasNot {
				ok, why = false, "netDialFn does not consult ctx.Deadline()"
				return
			}
			check := func(d *core.Term, what string) {
				if has {
					if !(d.Kind == core.KCall && d.Ref == interface{}(withDL) && len(d.Args) == 2 && d.Args[1] == dlVal && d.Args[0].Kind == core.KCall && d.Args[0].Ref == interface{}(fromURL)) {
						ok, why = false, "with a context deadline, "+what+" is "+d.String()+" instead of netDialWithDeadline(first-hop dialer, deadline): the CONNECT / TLS exchange would run without the deadline"
					}
				} else if !(d.Kind == core.KCall && d.Ref == interface{}(fromURL)) {
					ok, why = false, "without a context deadline "+what+" is not the first-hop dialer"
				}
			}
			viaProxy := false
			for i := range p.Events {
				ev := &p.Events[i]
				if callsStatic(ev, proxyFrom) {
					viaProxy = true
					nProxy++
					check(ev.Args[1], "the dialer given to proxyFromURL")
				}
			}
			if !viaProxy && len(p.Results) == 2 {
				nDirect++
				check(p.Results[0], "the returned dialer")
			}
		})
		r.Check("C16.deadline-applied", shortFn(fn), "deadline-wrapper-innermost", fn.Pos(), ok && nProxy > 0 && nDirect > 0, why)
	}
	// (a) DialContext derives the context before choosing the dialer and uses it everywhere
	{
		fn := c.fn("(*Dialer).DialContext")
		ht := c.P.Field("Dialer", "HandshakeTimeout")
		netDialFn, doHS := c.fn("(*Dialer).netDialFn"), c.fn("doHandshake")
		var start *ssa.BasicBlock
		for _, b := range fn.Blocks {
			if iff, ok := b.Instrs[len(b.Instrs)-1].(*ssa.If); ok {
				if mentionsFieldSSA(iff.Cond, ht, 4) {
					start = b
				}
			}
		}
		if start == nil {
			r.Fail("C16.deadline-applied", shortFn(fn), "handshake-timeout-test", fn.Pos(), "no branch on Dialer.HandshakeTimeout found")
		} else {
			ok, why := true, "HandshakeTimeout != 0 => ctx = context.WithTimeout(ctx, HandshakeTimeout) before netDialFn; the same context reaches netDialFn, the dial call and the TLS handshake"
			n := 0
			var dialCtx ssa.Value
			c.explore("C16.deadline-applied", fn, core.Opts{StartBlock: start, Unroll: 0, Stop: func(x *core.Explorer, ev *core.Event) bool {
				return ev.Kind == core.EvCall && ev.FnVal != nil && ev.FnVal.Kind == core.KExtract && ev.FnVal.Args[0].Kind == core.KCall && ev.FnVal.Args[0].Ref == interface{}(netDialFn)
			}}, func(p *core.Path) {
				if p.End != core.EndStop {
					return
				}
				n++
				dial := &p.Events[len(p.Events)-1]
				dialCtx = dial.Instr.(*ssa.Call).Call.Args[0]
				// the dial call may sit in a helper extracted from DialContext: map its parameter back to the
				// argument DialContext passes
				for hops := 0; hops < 3; hops++ {
					prm, isPrm := dialCtx.(*ssa.Parameter)
					if !isPrm || prm.Parent() == fn {
						break
					}
					idx := -1
					for k, q := range prm.Parent().Params {
						if q == prm {
							idx = k
						}
					}
					var arg ssa.Value
					for _, g := range c.P.FuncList {
						for _, b := range g.Blocks {
							for _, in := range b.Instrs {
								if ci, isCall := in.(ssa.CallInstruction); isCall && ci.Common().StaticCallee() == prm.Parent() && idx >= 0 && idx < len(ci.Common().Args) {
									arg = ci.Common().Args[idx]
								}
							}
						}
					}
					if arg == nil {
						break
					}
					dialCtx = arg
				}
				ctx := dial.Args[0]
				var fnCtx *core.Term
				for i := range p.Events {
					if callsStatic(&p.Events[i], netDialFn) {
						fnCtx = p.Events[i].Args[1]
					}
				}
				timeout := hasLit(p, len(p.Lits), false, func(t *core.Term) bool {
					return t.Kind == core.KEq && func() bool { _, is := fieldLoad(t.Args[0], ht); return is }()
				})
				if fnCtx != ctx {
					ok, why = false, "netDialFn and the dial call receive different contexts"
				}
				if timeout {
					s := ctx
					good := s.Kind == core.KExtract && s.N == 0 && s.Args[0].Kind == core.KCall
					if good {
						f, isF := s.Args[0].Ref.(*ssa.Function)
						good = isF && extName(f) == "context.WithTimeout"
						if good {
							_, isHT := fieldLoad(s.Args[0].Args[1], ht)
							good = isHT
						}
					}
					if !good {
						ok, why = false, "with HandshakeTimeout set, the dial runs under "+ctx.String()+" instead of context.WithTimeout(ctx, HandshakeTimeout)"
					}
				}
			})
			// TLS handshake uses the same SSA context value
			for _, b := range fn.Blocks {
				for _, in := range b.Instrs {
					if call, isCall := in.(*ssa.Call); isCall && call.Call.StaticCallee() == doHS && dialCtx != nil && call.Call.Args[0] != dialCtx {
						ok, why = false, "the TLS handshake over the proxy tunnel does not use the handshake context"
					}
				}
			}
			r.Check("C16.deadline-applied", shortFn(fn), "context-with-timeout-before-dial", fn.Pos(), ok && n > 0, why)
		}
		// doHandshake passes its ctx to HandshakeContext
		okH, whyH := true, "doHandshake calls HandshakeContext with its context parameter"
		nH := 0
		c.explore("C16.deadline-applied", doHS, core.Opts{}, func(p *core.Path) {
			for i := range p.Events {
				ev := &p.Events[i]
				if ev.Kind == core.EvCall && ev.Static != nil && extName(ev.Static) == "(*crypto/tls.Conn).HandshakeContext" {
					nH++
					if !(ev.Args[1].Kind == core.KParam && ev.Args[1].Ref == doHS.Params[0]) {
						okH, whyH = false, "HandshakeContext is not given the caller's context"
					}
				}
			}
		})
		r.Check("C16.deadline-applied", shortFn(doHS), "handshake-under-context", doHS.Pos(), okH && nH > 0, whyH)
	}
	r.Floor("C16.deadline-applied", 4)
}

// mentionsFieldSSA: backward closure (bounded) of v contains a load of field f.
func mentionsFieldSSA(v ssa.Value, f *types.Var, depth int) bool {
	if depth < 0 || v == nil {
		return false
	}
	switch x := v.(type) {
	case *ssa.UnOp:
		if fa, ok := x.X.(*ssa.FieldAddr); ok && fieldOf(fa) == f {
			return true
		}
		return mentionsFieldSSA(x.X, f, depth-1)
	case *ssa.BinOp:
		return mentionsFieldSSA(x.X, f, depth-1) || mentionsFieldSSA(x.Y, f, depth-1)
	case *ssa.Convert:
		return mentionsFieldSSA(x.X, f, depth-1)
	}
	return false
}

// c16prehijack: before Hijack every failure replies through returnError; returnError after Hijack only for a failed Hijack.
func c16prehijack(c *Ctx, rule string) {
	r := c.R
	fn := c.fn("(*Upgrader).Upgrade")
	retErr := c.fn("(*Upgrader).returnError")
	isHijack := func(ev *core.Event) bool {
		return ev.Kind == core.EvCall && ev.Static != nil && extName(ev.Static) == "(*net/http.ResponseController).Hijack"
	}
	ok, why := true, "every return before Hijack is a returnError reply; the connection is hijacked only after all validations passed"
	nEarly, nHij := 0, 0
	c.explore(rule, fn, core.Opts{Unroll: 0, Stop: func(x *core.Explorer, ev *core.Event) bool { return isHijack(ev) }}, func(p *core.Path) {
		if p.End == core.EndStop {
			nHij++
			for i := range p.Events {
				if callsStatic(&p.Events[i], retErr) {
					ok, why = false, "Upgrade hijacks the connection after having sent an error reply"
				}
			}
			return
		}
		if p.End != core.EndReturn || len(p.Results) != 2 {
			return
		}
		nEarly++
		e := p.Results[1]
		if !(e.Kind == core.KExtract && e.Args[0].Kind == core.KCall && e.Args[0].Ref == interface{}(retErr)) {
			ok, why = false, "Upgrade fails at "+c.P.Pos(p.Ret.Pos())+" before hijacking without replying through returnError"
		}
		if !p.Results[0].IsNil() && !(p.Results[0].Kind == core.KExtract && p.Results[0].Args[0] == e.Args[0]) {
			ok, why = false, "Upgrade returns a connection together with a handshake error"
		}
	})
	r.Check(rule, shortFn(fn), "no-hijack-on-failed-validation", fn.Pos(), ok && nEarly >= 6 && nHij > 0, why)
	// returnError: replies with an HTTP error and returns (nil, HandshakeError)
	ok2, why2 := true, "returnError returns (nil, HandshakeError{...}) after replying through Upgrader.Error or http.Error"
	n2 := 0
	c.explore(rule, retErr, core.Opts{}, func(p *core.Path) {
		if p.End != core.EndReturn || len(p.Results) != 2 {
			return
		}
		n2++
		if !p.Results[0].IsNil() {
			ok2, why2 = false, "returnError returns a connection"
		}
		e := p.Results[1]
		if e.Kind != core.KMakeIface {
			ok2, why2 = false, "returnError does not return a HandshakeError value"
		} else if nm, isN := e.Args[0].Type.(*types.Named); !isN || nm.Obj().Name() != "HandshakeError" {
			ok2, why2 = false, "returnError does not return a HandshakeError value"
		}
		replied := false
		for i := range p.Events {
			ev := &p.Events[i]
			if ev.Kind == core.EvCall && ((ev.Static != nil && extName(ev.Static) == "net/http.Error") || (ev.FnVal != nil && func() bool { _, is := fieldLoad(ev.FnVal, c.P.Field("Upgrader", "Error")); return is }())) {
				replied = true
				// status argument is the parameter
				var st *core.Term
				if ev.Static != nil {
					st = ev.Args[2]
				} else {
					st = ev.Args[2]
				}
				if !(st.Kind == core.KParam && st.Ref == retErr.Params[3]) {
					ok2, why2 = false, "returnError replies with a status other than the one it was given"
				}
			}
		}
		if !replied {
			ok2, why2 = false, "a path of returnError sends no reply"
		}
	})
	r.Check(rule, shortFn(retErr), "replies-and-fails", retErr.Pos(), ok2 && n2 > 0, why2)
}

// deadlineDiscipline: during the client handshake the connection's deadline is
// set (a) by the dialing goroutine only - a watcher goroutine's SetDeadline can
// land after the final clear - and (b) after it was armed by netDialWithDeadline
// only with the zero time (the clear): a later, different deadline would
// replace the handshake deadline instead of tightening it.
func deadlineDiscipline(c *Ctx, rule string) {
	d := newDialA(c)
	roots := []*ssa.Function{d.dial, c.fn("(*httpProxyDialer).DialContext"), c.fn("(*Dialer).netDialFn"), c.fn("(*Dialer).netDialFromURL"), c.fn("netDialWithTLSHandshake"), c.fn("doHandshake")}
	armFn := c.fn("netDialWithDeadline")
	seen := map[*ssa.Function]bool{}
	var fns []*ssa.Function
	var visit func(f *ssa.Function)
	visit = func(f *ssa.Function) {
		if f == nil || seen[f] || !c.P.InPkg(f) {
			return
		}
		seen[f] = true
		fns = append(fns, f)
		for _, a := range f.AnonFuncs {
			visit(a)
		}
		for callee := range c.P.Mod(f).Callees {
			if c.isNewHelper(callee, 1) {
				visit(callee)
			}
		}
	}
	for _, f := range roots {
		visit(f)
	}
	isSetDeadline := func(ci ssa.CallInstruction) bool {
		cc := ci.Common()
		if cc.IsInvoke() {
			switch cc.Method.Name() {
			case "SetDeadline", "SetReadDeadline", "SetWriteDeadline":
				return true
			}
		}
		return false
	}
	okG, whyG := true, "no goroutine started during the handshake touches the connection's deadline"
	okZ, whyZ := true, "after the handshake deadline was armed, the deadline is only cleared (zero time)"
	nSet := 0
	var callsSet func(f *ssa.Function, depth int) bool
	callsSet = func(f *ssa.Function, depth int) bool {
		if f == nil || depth > 3 || f.Blocks == nil {
			return false
		}
		for _, b := range f.Blocks {
			for _, in := range b.Instrs {
				if ci, ok := in.(ssa.CallInstruction); ok {
					if isSetDeadline(ci) {
						return true
					}
					if g := ci.Common().StaticCallee(); g != nil && c.P.InPkg(g) && callsSet(g, depth+1) {
						return true
					}
				}
			}
		}
		return false
	}
	for _, fn := range fns {
		inArm := false
		for p := fn; p != nil; p = p.Parent() {
			if p == armFn {
				inArm = true
			}
		}
		for _, b := range fn.Blocks {
			for _, in := range b.Instrs {
				if g, isGo := in.(*ssa.Go); isGo {
					var target *ssa.Function
					switch v := g.Call.Value.(type) {
					case *ssa.MakeClosure:
						target, _ = v.Fn.(*ssa.Function)
					case *ssa.Function:
						target = v
					}
					if target != nil && callsSet(target, 0) {
						okG, whyG = false, shortFn(fn)+" starts a goroutine at "+c.P.Pos(in.Pos())+" that sets a deadline on the connection: nothing orders it before the final SetDeadline(time.Time{}) of a successful dial, so the returned connection can carry a stale deadline"
					}
				}
				ci, ok := in.(ssa.CallInstruction)
				if !ok || !isSetDeadline(ci) || inArm {
					continue
				}
				if _, isGo := in.(*ssa.Go); isGo {
					continue
				}
				nSet++
				arg := ci.Common().Args[0]
				zero := false
				switch a := arg.(type) {
				case *ssa.Const:
					zero = a.Value == nil
				case *ssa.UnOp: // load of a zero-valued local (time.Time{} literal)
					if al, isAl := a.X.(*ssa.Alloc); isAl {
						stores := 0
						for _, ref := range *al.Referrers() {
							if _, isSt := ref.(*ssa.Store); isSt {
								stores++
							}
							if _, isFA := ref.(*ssa.FieldAddr); isFA {
								stores++
							}
						}
						zero = stores == 0
					}
				}
				if !zero {
					okZ, whyZ = false, shortFn(fn)+" sets a non-zero deadline on the connection at "+c.P.Pos(in.Pos())+" during the handshake: it replaces the handshake deadline (HandshakeTimeout / context) for the operations that follow"
				}
			}
		}
	}
	c.R.Check(rule, shortFn(d.dial), "deadline-set-by-the-dialing-goroutine-only", d.dial.Pos(), okG, whyG)
	c.R.Check(rule, shortFn(d.dial), "only-the-handshake-deadline-then-the-clear", d.dial.Pos(), okZ && nSet > 0, whyZ)
}
