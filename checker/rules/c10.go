package rules

import (
	"fmt"
	"go/token"
	"go/types"

	"golang.org/x/tools/go/ssa"

	"wsverif/core"
)

func init() {
	register("C10", "Decides the structural conditions for fail-stop writes: every transport error inside the two critical sections goes to writeFatal and ends the section, errors propagate to the caller of every message-level write API, invalid requests are rejected by guards that dominate every effect, and the deadline given to the transport is the configured one.", c10)
}

// byteLeaf strips conversions and |,& with constants.
func byteLeaf(t *core.Term) *core.Term {
	for {
		switch {
		case t.Kind == core.KConv:
			t = t.Args[0]
		case t.Kind == core.KBin && (t.Op == token.OR || t.Op == token.AND) && t.Args[1].IsConst():
			t = t.Args[0]
		case t.Kind == core.KBin && (t.Op == token.OR || t.Op == token.AND) && t.Args[0].IsConst():
			t = t.Args[1]
		default:
			return t
		}
	}
}

func c10(c *Ctx) {
	r := c.R
	r.Rule("C10.err-to-fatal", "inside each critical section every fallible transport call (SetWriteDeadline, Write, vectored write) has its error tested; the non-nil branch calls writeFatal with that error and performs no further transport operation")
	r.Rule("C10.fail-stop", "on every path to a transport write the sticky write error is loaded after Conn.mu was acquired (under writeErrMu) and the write is guarded by that value being nil; mu is released exactly once (so after a recorded failure no later section writes)")
	r.Rule("C10.msg-error", "every error produced on the write path reaches the error result of the API function on every path (no dropped error): write, WriteControl, writeBufs, flushFrame, ncopy, Write, WriteString, ReadFrom, Close, NextWriter, WriteMessage, WriteJSON, WritePreparedMessage, compression wrappers")
	r.Rule("C10.invalid-clean", "guards dominate effects: WriteControl reaches the mutex/transport only with isControl(type) and len(data) <= 125; beginMessage succeeds only for control/data types; flushFrame calls write for a control frame only when final and length <= 125, the compared length being the one encoded in the header; rejected requests never call writeFatal")
	r.Rule("C10.deadline", "the time given to SetWriteDeadline before each transport write is the section's deadline parameter; callers of write pass the current Conn.writeDeadline, which only SetWriteDeadline(t) assigns (from its parameter)")
	r.Assume("net.Conn implementations report partial writes through a non-nil error (io.Writer contract)")
	writeErrorsSticky(c, "C10.fail-stop")
	r.Rule("C10.prepared-validated", "a PreparedMessage is rendered by WriteMessage on a private connection, so an invalid request (bad type, oversized control payload) is refused when the message is created or first sent, exactly as for WriteMessage (same rule as C19.key-complete)")
	c.borrow(c19, map[string]string{"C19.key-complete": "C10.prepared-validated", "C19.payload-copy": "C10.prepared-validated"})
	r.Rule("C10.detector-released", "the concurrent-write detector (Conn.isWriting) is released on every return of the function that set it, also when the write failed: later writes then return the recorded error instead of panicking with 'concurrent write'")
	isWritingBracket(c, "C10.detector-released")
	t := newTransport(c)
	t.classify("C10.err-to-fatal")

	// ---- C10.err-to-fatal
	for _, fn := range c.P.FuncList {
		if !t.sites[fn] || t.unprot[fn] {
			continue
		}
		name := shortFn(fn)
		type st struct {
			ok  bool
			why string
			in  ssa.Instruction
			lbl string
		}
		ops := map[ssa.Instruction]*st{}
		c.explore("C10.err-to-fatal", fn, core.Opts{Unroll: 0}, func(p *core.Path) {
			if p.End == core.EndCut {
				return
			}
			for i := range p.Events {
				ev := &p.Events[i]
				if !own(ev) || ev.Kind != core.EvCall {
					continue
				}
				_, isW := t.writeEvent(ev)
				isD := ev.Static == nil && ev.Method == t.mSetWD && t.isConnLoad(ev.Recv)
				if !isW && !isD {
					continue
				}
				e := errOf(p.X, ev.Result)
				s := ops[ev.Instr]
				if s == nil {
					s = &st{ok: true, why: "error tested; non-nil branch goes to writeFatal(err) and performs no further transport operation", in: ev.Instr, lbl: calleeLabel(c.P, ev)}
					ops[ev.Instr] = s
				}
				if e == nil {
					s.ok, s.why = false, "transport call has no error result to check"
					continue
				}
				isNil := hasLit(p, len(p.Lits), true, func(x *core.Term) bool { return isEqNil(x, func(y *core.Term) bool { return y == e }) })
				isNon := hasLit(p, len(p.Lits), false, func(x *core.Term) bool { return isEqNil(x, func(y *core.Term) bool { return y == e }) })
				switch {
				case isNil:
				case isNon:
					fatal := false
					for k := i + 1; k < len(p.Events); k++ {
						e2 := &p.Events[k]
						if callsStatic(e2, t.writeFatal) && len(e2.Args) == 2 && e2.Args[1] == e {
							fatal = true
						}
						if e2.Kind == core.EvCall && own(e2) {
							_, w2 := t.writeEvent(e2)
							d2 := e2.Static == nil && e2.Method == t.mSetWD && t.isConnLoad(e2.Recv)
							if w2 || d2 {
								s.ok, s.why = false, "a further transport operation follows the failed one on the path returning at "+c.P.Pos(p.Ret.Pos())
							}
						}
					}
					if !fatal {
						s.ok, s.why = false, "non-nil error of this transport call does not reach writeFatal (path returning at "+c.P.Pos(p.Ret.Pos())+")"
					}
				default:
					s.ok, s.why = false, "error of this transport call is not tested on the path returning at "+c.P.Pos(p.Ret.Pos())
				}
			}
		})
		for _, s := range ops {
			r.Check("C10.err-to-fatal", name, "transport-error-of-"+s.lbl, s.in.Pos(), s.ok, s.why)
		}
	}
	r.Floor("C10.err-to-fatal", 5)

	// ---- C10.fail-stop: the sticky error is re-read inside the lock before every transport write
	for _, fn := range c.P.FuncList {
		if t.sites[fn] && !t.unprot[fn] {
			t.checkSection(fn, "C10.fail-stop", "")
		}
	}
	r.Floor("C10.fail-stop", 4)

	// ---- C10.msg-error
	endMsg := c.fn("(*messageWriter).endMessage")
	// writeFatal / endMessage return the error they are given (recorders); their result is not a new error
	all := func(ev *core.Event) bool { return ev.Static != t.writeFatal && ev.Static != endMsg }
	inPkgOnly := func(ev *core.Event) bool { return ev.Static != nil && c.P.InPkg(ev.Static) }
	n := 0
	for _, name := range []string{"(*Conn).write", "(*Conn).WriteControl", "(*Conn).writeBufs", "(*messageWriter).flushFrame", "(*messageWriter).ncopy",
		"(*messageWriter).Write", "(*messageWriter).WriteString", "(*messageWriter).Close", "(*Conn).NextWriter", "(*Conn).WriteMessage",
		"(*Conn).WriteJSON", "(*Conn).WritePreparedMessage", "(*flateWriteWrapper).Write", "(*flateWriteWrapper).Close", "(*truncWriter).Write"} {
		fn := c.P.FuncOpt(name)
		if fn == nil {
			if name == "(*Conn).writeBufs" {
				continue // private helper of write: may be inlined away
			}
			fn = c.fn(name)
		}
		n += c.errMustPropagate("C10.msg-error", fn, all, core.Opts{Unroll: 0, Pure: c.pureSet("isControl", "isData")})
	}
	n += c.errMustPropagate("C10.msg-error", c.fn("(*messageWriter).ReadFrom"), inPkgOnly, core.Opts{Unroll: 0})
	r.Floor("C10.msg-error", 20)

	c10invalid(c, t)
	c10deadline(c, t)
	t.deadlineUnderLock("C10.deadline")
}

func c10invalid(c *Ctx, t *transport) {
	c10invalidAs(c, t, "C10.invalid-clean")
	// a refused request must also not leave its buffered bytes behind in a writer that is still installed
	newWriterA(c).allExits("C10.invalid-clean")
}

func c10invalidAs(c *Ctx, t *transport, rule string) {
	opcodePredicates(c, rule)
	r := c.R
	isControl, isData := c.fn("isControl"), c.fn("isData")
	maxCtl := c.P.ConstInt("maxControlFramePayloadSize")
	pure := c.pureSet("isControl", "isData")
	app := func(fn *ssa.Function, arg func(*core.Term) bool) func(*core.Term) bool {
		return func(x *core.Term) bool {
			return x.Kind == core.KApp && x.Ref == fn && len(x.Args) == 1 && arg(x.Args[0])
		}
	}
	// WriteControl
	{
		fn := c.fn("(*Conn).WriteControl")
		typeParam, dataParam := fn.Params[1], fn.Params[2]
		ok, why := true, "every path reaching the mutex, the transport or writeFatal carries isControl(messageType) and !(len(data) > 125)"
		c.explore(rule, fn, core.Opts{Pure: pure}, func(p *core.Path) {
			for i := range p.Events {
				ev := &p.Events[i]
				eff := ev.Kind == core.EvRecv || ev.Kind == core.EvSelect || ev.Kind == core.EvSend || callsStatic(ev, t.writeFatal)
				if _, w := t.writeEvent(ev); w {
					eff = true
				}
				if ev.Kind == core.EvCall && ev.Static == nil && ev.Method != nil && t.isConnLoad(ev.Recv) {
					eff = true
				}
				if !eff {
					continue
				}
				g1 := hasLit(p, ev.NLits, true, app(isControl, func(a *core.Term) bool { return a.Kind == core.KParam && a.Ref == typeParam }))
				g2 := knowsLt(p, ev.NLits, maxCtl+1, func(y *core.Term) bool {
					return y.Kind == core.KLen && y.Args[0].Kind == core.KParam && y.Args[0].Ref == dataParam
				})
				if !g1 || !g2 {
					ok, why = false, "effect at "+c.P.Pos(ev.Instr.Pos())+" reachable without the guards isControl(messageType) and len(data) <= maxControlFramePayloadSize"
				}
			}
		})
		r.Check(rule, shortFn(fn), "guards-dominate-effects", fn.Pos(), ok, why)
	}
	// beginMessage
	{
		fn := c.fn("(*Conn).beginMessage")
		typeParam := fn.Params[2]
		isT := func(a *core.Term) bool { return a.Kind == core.KParam && a.Ref == typeParam }
		ok, why := true, "every successful return and every store/pool access is dominated by isControl(type) or isData(type)"
		writer := c.P.Field("Conn", "writer")
		c.explore(rule, fn, core.Opts{Pure: pure}, func(p *core.Path) {
			guard := func(n int) bool {
				return hasLit(p, n, true, app(isControl, isT)) || hasLit(p, n, true, app(isData, isT))
			}
			if p.End == core.EndReturn && len(p.Results) == 1 && p.Results[0].IsNil() && !guard(len(p.Lits)) {
				ok, why = false, "beginMessage can return nil for a message type that is neither control nor data"
			}
			for i := range p.Events {
				ev := &p.Events[i]
				if ev.Kind == core.EvStore && !isFieldAddr(ev.Addr, writer) && ev.Addr.Kind == core.KFieldAddr && !guard(ev.NLits) {
					ok, why = false, "state written at "+c.P.Pos(ev.Instr.Pos())+" before the message type was validated"
				}
				if ev.Kind == core.EvCall && ev.Method != nil && ev.Method.Name() == "Get" && !guard(ev.NLits) {
					ok, why = false, "pool buffer taken before the message type was validated"
				}
				if callsStatic(ev, t.writeFatal) {
					ok, why = false, "beginMessage poisons the connection (writeFatal)"
				}
			}
		})
		r.Check(rule, shortFn(fn), "guards-dominate-effects", fn.Pos(), ok, why)
	}
	// flushFrame
	{
		fn := c.fn("(*messageWriter).flushFrame")
		finalParam := fn.Params[1]
		ft := c.P.Field("messageWriter", "frameType")
		writeBuf := c.P.Field("Conn", "writeBuf")
		wr := c.fn("(*Conn).write")
		ok, why := true, "write is called for a control frame only with final and length <= 125; the compared length is the encoded one; rejected frames neither write nor poison"
		nCtl := 0
		c.explore(rule, fn, core.Opts{Pure: pure}, func(p *core.Path) {
			for i := range p.Events {
				ev := &p.Events[i]
				if !callsStatic(ev, wr) || !own(ev) {
					continue
				}
				ftArg := ev.Args[1]
				if _, isFT := fieldLoad(ftArg, ft); !isFT {
					continue
				}
				ctlTrue := hasLit(p, ev.NLits, true, app(isControl, func(a *core.Term) bool { return a == ftArg }))
				ctlFalse := hasLit(p, ev.NLits, false, app(isControl, func(a *core.Term) bool { return a == ftArg }))
				if ctlFalse {
					continue
				}
				if !ctlTrue {
					ok, why = false, "write reached at "+c.P.Pos(ev.Instr.Pos())+" without deciding whether the frame is a control frame"
					continue
				}
				nCtl++
				if !hasLit(p, ev.NLits, true, func(x *core.Term) bool { return x.Kind == core.KParam && x.Ref == finalParam }) {
					ok, why = false, "a non-final control frame can reach write (fragmented control message)"
				}
				var cmp *core.Term
				for k := 0; k < ev.NLits; k++ {
					l := p.Lits[k]
					if l.Pos && l.T.Kind == core.KLt {
						if v, isC := l.T.Args1Int(); isC && v == maxCtl+1 {
							cmp = l.T.Args[0]
						}
					}
				}
				if cmp == nil {
					ok, why = false, "a control frame can reach write without the length <= maxControlFramePayloadSize guard"
					continue
				}
				// encoded length: store to writeBuf[lo+1] where buf0 = writeBuf[lo:hi]
				buf0 := ev.Args[3]
				if buf0.Kind != core.KSlice {
					ok, why = false, "cannot identify the frame buffer handed to write"
					continue
				}
				if _, isWB := fieldLoad(buf0.Args[0], writeBuf); !isWB {
					ok, why = false, "frame buffer handed to write is not Conn.writeBuf"
					continue
				}
				idx1 := p.X.Bin(token.ADD, buf0.Args[1], p.X.T.Int(1), types.Typ[types.Int])
				b1 := storedAt(p, buf0.Args[0], idx1, i)
				if b1 == nil || byteLeaf(b1) != cmp {
					ok, why = false, "the length compared with maxControlFramePayloadSize ("+cmp.String()+") is not the length encoded in the frame header ("+b1.String()+" at index "+idx1.String()+")"
				}
			}
			// rejected request: return of errInvalidControlFrame must not have written or poisoned
			if p.End == core.EndReturn {
				wrote := false
				for i := range p.Events {
					if callsStatic(&p.Events[i], wr) {
						wrote = true
					}
				}
				for i := range p.Events {
					ev := &p.Events[i]
					if callsStatic(ev, t.writeFatal) && !wrote {
						// writeFatal before any write: only the documented internal-error branch (extra in client mode)
						if !hasLit(p, ev.NLits, false, func(x *core.Term) bool {
							return x.Kind == core.KEq && x.Args[0].Kind == core.KLen
						}) && !hasLit(p, ev.NLits, false, func(x *core.Term) bool { return x.Kind == core.KLt && x.Args[0].Kind == core.KLen }) {
							ok, why = false, "flushFrame poisons the connection (writeFatal) for a request it rejects"
						}
					}
				}
			}
		})
		if nCtl == 0 {
			ok, why = false, "no control-frame path to write found"
		}
		r.Check(rule, shortFn(fn), "guards-dominate-effects", fn.Pos(), ok, why)
	}
	r.Floor(rule, 3)
}

func c10deadline(c *Ctx, t *transport) {
	r := c.R
	wd := c.P.Field("Conn", "writeDeadline")
	timeT := c.P.ExtFunc("time", "Now").Type().(*types.Signature).Results().At(0).Type()
	for _, fn := range c.P.FuncList {
		if !t.sites[fn] || t.unprot[fn] {
			continue
		}
		ok, why := true, "SetWriteDeadline(deadline parameter) precedes the transport write inside the critical section on every path"
		var dParam *ssa.Parameter
		c.explore("C10.deadline", fn, core.Opts{}, func(p *core.Path) {
			for i := range p.Events {
				ev := &p.Events[i]
				if _, w := t.writeEvent(ev); !w || !own(ev) {
					continue
				}
				acq, has := muAcquire(p, t.mu, i)
				if !has {
					continue
				}
				found := false
				for k := acq + 1; k < i; k++ {
					e := &p.Events[k]
					if e.Kind == core.EvCall && e.Static == nil && e.Method == t.mSetWD && t.isConnLoad(e.Recv) && len(e.Args) == 1 {
						a := e.Args[0]
						if a.Kind == core.KParam && types.Identical(a.Type, timeT) {
							found = true
							dParam = a.Ref.(*ssa.Parameter)
						} else {
							ok, why = false, "SetWriteDeadline is given "+a.String()+" instead of the section's deadline parameter"
						}
					}
				}
				if !found && ok {
					ok, why = false, "transport write at "+c.P.Pos(ev.Instr.Pos())+" reachable without a preceding SetWriteDeadline(deadline) in the critical section"
				}
			}
		})
		r.Check("C10.deadline", shortFn(fn), "deadline-applied-before-write", fn.Pos(), ok, why)
		if dParam == nil || fn.Object() == nil || fn.Object().Exported() {
			continue
		}
		// unexported section: its callers must pass the configured deadline
		idx := -1
		for k, prm := range fn.Params {
			if prm == dParam {
				idx = k
			}
		}
		for _, g := range c.P.FuncList {
			for _, b := range g.Blocks {
				for _, in := range b.Instrs {
					ci, isCall := in.(ssa.CallInstruction)
					if !isCall || ci.Common().StaticCallee() != fn {
						continue
					}
					a := ci.Common().Args[idx]
					good := false
					if u, isU := a.(*ssa.UnOp); isU && u.Op == token.MUL {
						if fa, isFA := u.X.(*ssa.FieldAddr); isFA {
							st := fa.X.Type().Underlying().(*types.Pointer).Elem().Underlying().(*types.Struct)
							good = st.Field(fa.Field) == wd
						}
					}
					r.Check("C10.deadline", shortFn(g), "deadline-argument-of-"+shortFn(fn), in.Pos(), good, "caller must pass the current Conn.writeDeadline")
				}
			}
		}
	}
	// who may write writeDeadline
	for _, s := range c.P.FieldStoreSites(wd) {
		fn := s.Parent()
		_, isParam := s.Val.(*ssa.Parameter)
		r.Check("C10.deadline", shortFn(fn), "store-writeDeadline", s.Pos(), isParam && shortFn(fn) == "(*Conn).SetWriteDeadline",
			"Conn.writeDeadline may only be assigned from the parameter of SetWriteDeadline")
	}
	r.Floor("C10.deadline", 5)
}

// opcodePredicates: the two predicates every write-side guard is phrased in are
// what RFC 6455 says: isControl(t) exactly for close/ping/pong (8, 9, 10) and
// isData(t) exactly for text/binary (1, 2), for every int in the evaluation
// domain (-300..70000 step 1, plus values around 2^16, 2^31 and 2^32 that a
// shift- or mask-based test would confuse with an opcode).
func opcodePredicates(c *Ctx, rule string) {
	want := map[string]map[int64]bool{
		"isControl": {8: true, 9: true, 10: true},
		"isData":    {1: true, 2: true},
	}
	var dom []int64
	for v := int64(-300); v <= 70000; v++ {
		dom = append(dom, v)
	}
	for _, b := range []int64{1 << 31, 1 << 32, 1 << 40, -(1 << 31), -(1 << 40)} {
		for d := int64(-16); d <= 16; d++ {
			dom = append(dom, b+d)
		}
	}
	for _, name := range []string{"isControl", "isData"} {
		fn := c.fn(name)
		type pth struct{ p *core.Path }
		var paths []*core.Path
		c.explore(rule, fn, core.Opts{}, func(p *core.Path) {
			if p.End == core.EndReturn {
				cp := *p
				cp.Lits = append([]core.Lit(nil), p.Lits...)
				cp.Results = append([]*core.Term(nil), p.Results...)
				paths = append(paths, &cp)
			}
		})
		ok, why := true, name+" holds exactly for "+map[string]string{"isControl": "8, 9, 10", "isData": "1, 2"}[name]+" over the evaluation domain"
		decidedAll := true
		// paths are evaluated while their explorer state is gone: only literals and results (terms) are used
		for _, v := range dom {
			got, decided := false, false
			for _, p := range paths {
				if r, d := evalBoolResult(p, fn.Params[0], v); d {
					got, decided = r, true
					break
				}
			}
			if !decided {
				decidedAll = false
				continue
			}
			if got != want[name][v] {
				ok, why = false, fmt.Sprintf("%s(%d) is %v: message types outside the RFC's opcodes are classified as %s frames (a bad message type is then accepted, or a valid one refused)", name, v, got, map[string]string{"isControl": "control", "isData": "data"}[name])
				break
			}
		}
		if !decidedAll && ok {
			ok, why = false, name+" cannot be evaluated over the domain (unrecognised form)"
		}
		c.R.Check(rule, name, "opcode-predicate-table", fn.Pos(), ok && len(paths) > 0, why)
	}
}

// isWritingBracket: every function that sets Conn.isWriting = true resets it
// to false before each of its returns.
func isWritingBracket(c *Ctx, rule string) {
	f := c.P.Field("Conn", "isWriting")
	n := 0
	seen := map[*ssa.Function]bool{}
	for _, st := range c.P.FieldStoreSites(f) {
		for _, fn := range c.hostsOf(st.Parent()) {
			if seen[fn] || shortFn(fn) == "newConn" {
				continue
			}
			seen[fn] = true
			ok, why := true, "Conn.isWriting is false again on every return"
			sets := 0
			c.explore(rule, fn, core.Opts{Unroll: 0}, func(p *core.Path) {
				if p.End != core.EndReturn {
					return
				}
				var last *core.Term
				var at *core.Event
				for i := range p.Events {
					if ev := &p.Events[i]; ev.Kind == core.EvStore && isFieldAddr(ev.Addr, f) {
						last, at = ev.Val, ev
						if b, isB := ev.Val.BoolVal(); isB && b {
							sets++
						}
					}
				}
				if last == nil {
					return
				}
				if b, isB := last.BoolVal(); !isB || b {
					ok, why = false, "the path returning at "+c.P.Pos(p.Ret.Pos())+" leaves Conn.isWriting set (stored at "+c.P.Pos(at.Instr.Pos())+"): the next write on this connection panics with 'concurrent write' instead of returning the write error"
				}
			})
			if sets == 0 {
				continue
			}
			n++
			c.R.Check(rule, shortFn(fn), "isWriting-reset-on-every-return", fn.Pos(), ok, why)
		}
	}
	if n < 2 {
		c.R.Fail(rule, "", "floor", c.fn("(*messageWriter).flushFrame").Pos(), "fewer than the 2 known functions that set Conn.isWriting were analysed")
	}
}

// writeErrorsSticky: whatever Conn.write returns as an error is recorded: the
// value is the sticky write error it loaded, or the result of writeFatal.  A
// frame that was refused without that (a deadline already in the past, say)
// leaves the message torn while later writes go on.
func writeErrorsSticky(c *Ctx, rule string) {
	t := newTransport(c)
	fn := c.fn("(*Conn).write")
	wf := c.fn("(*Conn).writeFatal")
	ok, why := true, "every non-nil result is the loaded sticky error or writeFatal(...)"
	n := 0
	c.explore(rule, fn, core.Opts{Unroll: 0, RecordLoads: true}, func(p *core.Path) {
		if p.End != core.EndReturn || len(p.Results) != 1 {
			return
		}
		e := p.Results[0]
		if e.IsNil() {
			return
		}
		n++
		s := strip(e)
		if _, is := fieldLoad(s, t.writeErr); is {
			return
		}
		if s.Kind == core.KCall && s.Ref == interface{}(wf) {
			return
		}
		// the error of the transport write itself (returned after the close latch was considered): known nil or recorded
		if hasLit(p, len(p.Lits), true, func(x *core.Term) bool { return isEqNil(x, func(y *core.Term) bool { return y == e }) }) {
			return
		}
		ok, why = false, "Conn.write returns "+e.String()+" at "+c.P.Pos(p.Ret.Pos())+" without recording it as the connection's write error: the frame is dropped, the message stays torn and later writes succeed"
	})
	c.R.Check(rule, shortFn(fn), "errors-are-recorded", fn.Pos(), ok && n > 0, why)
}
