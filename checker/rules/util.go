package rules

import (
	"go/token"
	"sort"
)

func sortStrings(s []string) { sort.Strings(s) }

const subTok = token.SUB
