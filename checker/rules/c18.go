package rules

import (
	"fmt"
	"strings"

	"go/types"

	"golang.org/x/tools/go/ssa"

	"wsverif/core"
)

func init() {
	register("C18", "Decides the finite dial-configuration matrix by path predicates: which dial function makes the first hop for every combination of NetDialContext / NetDial / NetDialTLSContext and URL scheme, that the proxy's URL selects it when a proxy is configured, that every https path either used a TLS-performing first hop or runs tls.Client + handshake + hostname verification (for the backend URL's host) over the tunnel before the request is written, the CONNECT exchange (target, Host, Basic credentials only with a password, 200 required, close on failure), default ports and scheme mapping. crypto/tls and SOCKS internals are trusted.", c18)
}

func c18(c *Ctx) {
	r := c.R
	r.Rule("C18.first-hop", "netDialFromURL: NetDialContext if set, else an adapter calling NetDial if set, else net.Dialer.DialContext; for an https URL NetDialTLSContext replaces it if set, otherwise it is wrapped by netDialWithTLSHandshake(base, TLSClientConfig, u); netDialFn uses the proxy URL when a proxy is configured and the backend URL otherwise; proxyFromURL routes http/https proxies to httpProxyDialer and everything else to proxy.FromURL with the same forward dialer")
	r.Rule("C18.tls-everywhere", "DialContext, every path from the dial to req.Write: with scheme https and a proxy, tls.Client wraps the tunnel, becomes the connection written to, and doHandshake returned nil; without https no TLS client is created; ws/wss are mapped to http/https")
	r.Rule("C18.verify", "every tls.Client result is handshaken by doHandshake with the same config before use; ServerName defaults to hostNoPort of the backend URL being dialed; doHandshake returns nil only after HandshakeContext succeeded and, unless InsecureSkipVerify, VerifyHostname(cfg.ServerName) succeeded")
	dialerConfigNotSwapped(c, "C18.tls-everywhere")
	proxyHonoured(c, "C18.first-hop")
	r.Rule("C18.stateless", "one dial shares nothing with another: no package-level variable is written after initialisation (no cached TLS configuration or header carries a host name or credentials from one dial to the next; same rule as C11.globals)")
	packageStateless(c, "C18.stateless")
	r.Rule("C18.connect", "httpProxyDialer.DialContext: first hop to hostPort(proxy URL); one CONNECT request with URL.Opaque = Host = the requested address; Proxy-Authorization: Basic base64(user:password) only when the proxy URL has a password; the connection is returned only for StatusCode == 200 and closed otherwise; DialContext passes hostPort(backend URL) as the address")
	r.Rule("C18.ports", "hostPortNoPort keeps an explicit port (a ':' after the last ']') and otherwise appends :443 for wss/https and :80 for everything else; hostNoPort cuts at that colon")
	r.Assume("crypto/tls verifies the peer certificate chain; VerifyHostname checks the leaf against the given name")
	r.Assume("golang.org/x/net/proxy drives SOCKS5 proxies through the forward dialer it is given")

	c18firstHop(c)
	c18tls(c)
	c18connect(c)
	c18ports(c)
	c18trustedHook(c)
}

func dialerField(t *core.Term, name string) bool {
	t = strip(t)
	return t.Kind == core.KLoad && t.Args[0].Kind == core.KFieldAddr && fieldName(t.Args[0].Var) == name
}

func c18firstHop(c *Ctx) {
	r := c.R
	fn := c.fn("(*Dialer).netDialFromURL")
	withTLS := c.fn("netDialWithTLSHandshake")
	ok, why := true, "result matches the configuration on every path"
	n := 0
	seen := map[string]bool{}
	c.explore("C18.first-hop", fn, core.Opts{}, func(p *core.Path) {
		if p.End != core.EndReturn || len(p.Results) != 1 {
			return
		}
		n++
		lit := func(field string) (isNil, known bool) {
			for _, l := range p.Lits {
				if isEqNil(l.T, func(y *core.Term) bool { return dialerField(y, field) }) {
					return l.Pos, true
				}
			}
			return false, false
		}
		https, httpsKnown := false, false
		for _, l := range p.Lits {
			if l.T.Kind == core.KEq && dialerField(l.T.Args[0], "Scheme") {
				if s, isS := l.T.Args[1].StrVal(); isS && s == "https" {
					https, httpsKnown = l.Pos, true
				}
			}
		}
		if !httpsKnown {
			ok, why = false, "a path of netDialFromURL does not depend on the URL scheme"
			return
		}
		// expected base
		isBase := func(t *core.Term) (string, bool) {
			s := strip(t)
			ctxNil, k1 := lit("NetDialContext")
			if !k1 {
				return "", false
			}
			if !ctxNil {
				return "NetDialContext", dialerField(s, "NetDialContext")
			}
			ndNil, k2 := lit("NetDial")
			if !k2 {
				return "", false
			}
			if !ndNil {
				// adapter closure that calls d.NetDial
				if s.Kind != core.KClosure {
					return "NetDial", false
				}
				// the adapter (closure, or bound method value) calls d.NetDial, directly or through one in-package method
				var callsField func(f *ssa.Function, depth int) bool
				callsField = func(f *ssa.Function, depth int) bool {
					if f == nil || depth > 2 {
						return false
					}
					for _, b := range f.Blocks {
						for _, in := range b.Instrs {
							call, isCall := in.(ssa.CallInstruction)
							if !isCall {
								continue
							}
							if u, isU := call.Common().Value.(*ssa.UnOp); isU {
								if fa, isFA := u.X.(*ssa.FieldAddr); isFA && fieldOf(fa).Name() == "NetDial" {
									return true
								}
							}
							if g := call.Common().StaticCallee(); g != nil && c.P.InPkg(g) && callsField(g, depth+1) {
								return true
							}
						}
					}
					return false
				}
				good := callsField(s.Ref.(*ssa.Function), 0)
				return "NetDial", good
			}
			return "net.Dialer", s.Kind == core.KClosure && strings.Contains(s.Ref.(*ssa.Function).String(), "net.Dialer).DialContext")
		}
		res := p.Results[0]
		if !https {
			name, good := isBase(res)
			seen["plain:"+name] = true
			if !good {
				ok, why = false, "for a non-https URL the first hop is not the configured "+name+" dial function: "+res.String()
			}
			return
		}
		tlsNil, k := lit("NetDialTLSContext")
		if !k {
			ok, why = false, "an https path does not consult NetDialTLSContext"
			return
		}
		if !tlsNil {
			seen["tls:custom"] = true
			if !dialerField(res, "NetDialTLSContext") {
				ok, why = false, "NetDialTLSContext is set but is not the dial function used for an https first hop"
			}
			return
		}
		s := strip(res)
		if !(s.Kind == core.KCall && s.Ref == interface{}(withTLS) && len(s.Args) == 3) {
			ok, why = false, "an https first hop without NetDialTLSContext is not wrapped by netDialWithTLSHandshake: "+res.String()
			return
		}
		name, good := isBase(s.Args[0])
		seen["tls:"+name] = true
		if !good {
			ok, why = false, "the TLS-wrapped first hop does not use the configured "+name+" dial function"
		}
		if !dialerField(s.Args[1], "TLSClientConfig") {
			ok, why = false, "the TLS wrapper is not given Dialer.TLSClientConfig"
		}
		if !(s.Args[2].Kind == core.KParam) {
			ok, why = false, "the TLS wrapper is not given the URL being dialed"
		}
	})
	r.Check("C18.first-hop", shortFn(fn), "dial-function-by-configuration", fn.Pos(), ok && n >= 7 && len(seen) >= 7, fmt.Sprintf("%s (%d paths, %d configurations)", why, n, len(seen)))

	// netDialFn: which URL selects the first hop
	{
		nf := c.fn("(*Dialer).netDialFn")
		fromURL, proxyFrom := c.fn("(*Dialer).netDialFromURL"), c.fn("proxyFromURL")
		ok, why := true, "proxy configured => first hop chosen for the proxy URL and handed to proxyFromURL(proxyURL, ..); otherwise chosen for the backend URL"
		n := 0
		c.explore("C18.first-hop", nf, core.Opts{}, func(p *core.Path) {
			if p.End != core.EndReturn {
				return
			}
			n++
			proxyP, backendP := nf.Params[2], nf.Params[3]
			hasProxy := hasLit(p, len(p.Lits), false, func(t *core.Term) bool {
				return isEqNil(t, func(y *core.Term) bool { return y.Kind == core.KParam && y.Ref == proxyP })
			})
			var sel *core.Event
			viaProxy := false
			for i := range p.Events {
				ev := &p.Events[i]
				if callsStatic(ev, fromURL) {
					if sel != nil {
						ok, why = false, "the first hop is chosen twice"
					}
					sel = ev
				}
				if callsStatic(ev, proxyFrom) {
					viaProxy = true
					if !(ev.Args[0].Kind == core.KParam && ev.Args[0].Ref == proxyP) {
						ok, why = false, "proxyFromURL is not given the proxy URL"
					}
				}
			}
			if sel == nil {
				ok, why = false, "netDialFn does not choose a first-hop dial function"
				return
			}
			want := backendP
			if hasProxy {
				want = proxyP
			}
			if !(sel.Args[1].Kind == core.KParam && sel.Args[1].Ref == want) {
				ok, why = false, "the first hop is chosen for the wrong URL (proxy configured: "+yn(hasProxy)+")"
			}
			if viaProxy != hasProxy {
				ok, why = false, "the proxy dialer is used iff a proxy is configured: violated"
			}
		})
		r.Check("C18.first-hop", shortFn(nf), "first-hop-for-proxy-or-backend", nf.Pos(), ok && n >= 4, why)
	}
	// proxyFromURL routing
	{
		pf := c.fn("proxyFromURL")
		hpdDial := c.fn("(*httpProxyDialer).DialContext")
		ok, why := true, "http/https proxy URLs use httpProxyDialer{proxyURL, forwardDial}; all other schemes go to proxy.FromURL(proxyURL, forwardDial)"
		nHTTP, nOther := 0, 0
		c.explore("C18.first-hop", pf, core.Opts{NonNilOnNilErr: true}, func(p *core.Path) {
			if p.End != core.EndReturn || len(p.Results) != 2 || !p.Results[1].IsNil() {
				return
			}
			isHTTP := false
			for _, l := range p.Lits {
				if l.T.Kind == core.KEq && dialerField(l.T.Args[0], "Scheme") && l.Pos {
					if s, isS := l.T.Args[1].StrVal(); isS && (s == "http" || s == "https") {
						isHTTP = true
					}
				}
			}
			res := strip(p.Results[0])
			if isHTTP {
				nHTTP++
				good := res.Kind == core.KClosure && len(res.Args) == 1 && (strings.Contains(res.Ref.(*ssa.Function).String(), "httpProxyDialer).DialContext") || strings.TrimSuffix(shortFn(res.Ref.(*ssa.Function)), "$bound") == "(*httpProxyDialer).DialContext" || func() bool {
					// the bound method of the (possibly renamed) proxy dialer type
					f := res.Ref.(*ssa.Function)
					hd := c.P.FuncOpt("(*httpProxyDialer).DialContext")
					return hd != nil && strings.TrimSuffix(f.String(), "$bound") == hd.String()
				}())
				if good {
					recv := strip(res.Args[0])
					var gotURL, gotFwd bool
					for i := range p.Events {
						ev := &p.Events[i]
						if ev.Kind == core.EvStore && ev.Addr.Kind == core.KFieldAddr && ev.Addr.Args[0] == recv {
							if fieldName(ev.Addr.Var) == "proxyURL" && ev.Val.Kind == core.KParam && ev.Val.Ref == pf.Params[0] {
								gotURL = true
							}
							if fieldName(ev.Addr.Var) == "forwardDial" && ev.Val.Kind == core.KParam && ev.Val.Ref == pf.Params[1] {
								gotFwd = true
							}
						}
					}
					good = gotURL && gotFwd
				}
				if !good {
					ok, why = false, "an http(s) proxy is not driven by httpProxyDialer{proxyURL, forwardDial}.DialContext"
				}
				_ = hpdDial
				return
			}
			nOther++
			used := false
			for i := range p.Events {
				ev := &p.Events[i]
				if ev.Kind == core.EvCall && ev.Static != nil && extName(ev.Static) == "golang.org/x/net/proxy.FromURL" {
					used = ev.Args[0].Kind == core.KParam && ev.Args[0].Ref == pf.Params[0] && strip(ev.Args[1]).Kind == core.KParam && strip(ev.Args[1]).Ref == pf.Params[1]
				}
			}
			if !used {
				ok, why = false, "a non-http proxy is not handed to proxy.FromURL(proxyURL, forwardDial)"
			}
		})
		r.Check("C18.first-hop", shortFn(pf), "proxy-kind-routing", pf.Pos(), ok && nHTTP > 0 && nOther > 0, why)
	}
}

// c18trustedHook: NetDialTLSContext is the one dial hook trusted to have done TLS itself (the property
// says so for hooks the application supplies).  The package must therefore never fill it in on a Dialer it
// builds (NewClient): whatever it put there would be used for wss URLs without any TLS handshake.
func c18trustedHook(c *Ctx) {
	r := c.R
	f := c.P.Field("Dialer", "NetDialTLSContext")
	sites := c.P.FieldStoreSites(f)
	for _, s := range sites {
		r.Fail("C18.tls-everywhere", shortFn(s.Parent()), "package-sets-NetDialTLSContext", s.Pos(), shortFn(s.Parent())+" assigns Dialer.NetDialTLSContext: a dial function the library itself installs there is used for wss URLs without TLS handshake or certificate verification")
	}
	if len(sites) == 0 {
		r.Pass("C18.tls-everywhere", "package", "package-sets-NetDialTLSContext", c.fn("NewClient").Pos(), "no function of the package assigns Dialer.NetDialTLSContext (0 store sites among all Dialer values built in the package)")
	}
}

func c18ports(c *Ctx) {
	r := c.R
	fn := c.fn("hostPortNoPort")
	ok, why := true, "explicit port kept; :443 for wss/https; :80 otherwise"
	n := 0
	kinds := map[string]bool{}
	c.explore("C18.ports", fn, core.Opts{}, func(p *core.Path) {
		if p.End != core.EndReturn || len(p.Results) != 2 {
			return
		}
		n++
		hp, hnp := p.Results[0], p.Results[1]
		isHost := func(t *core.Term) bool { return dialerField(t, "Host") && strip(t).Args[0].Args[0].Kind == core.KParam }
		// explicit port: LastIndex(":") > LastIndex("]")
		var colon, bracket *core.Term
		for i := range p.Events {
			ev := &p.Events[i]
			if ev.Kind == core.EvCall && ev.Static != nil && isHost(ev.Args[0]) {
				sep := ""
				switch extName(ev.Static) {
				case "strings.LastIndex":
					sep, _ = ev.Args[1].StrVal()
				case "strings.LastIndexByte":
					if v, isC := ev.Args[1].Int64(); isC {
						sep = string(rune(v))
					}
				}
				if sep == ":" {
					colon = ev.Result
				} else if sep == "]" {
					bracket = ev.Result
				}
			}
		}
		if colon == nil || bracket == nil {
			ok, why = false, "the port test is not 'last : after last ]'"
			return
		}
		hasPort := hasLit(p, len(p.Lits), true, func(t *core.Term) bool { return t.Kind == core.KLt && t.Args[0] == bracket && t.Args[1] == colon })
		noPort := hasLit(p, len(p.Lits), false, func(t *core.Term) bool { return t.Kind == core.KLt && t.Args[0] == bracket && t.Args[1] == colon })
		scheme := func(s string, pol bool) bool {
			return hasLit(p, len(p.Lits), pol, func(t *core.Term) bool {
				if t.Kind != core.KEq || !dialerField(t.Args[0], "Scheme") {
					return false
				}
				v, isS := t.Args[1].StrVal()
				return isS && v == s
			})
		}
		switch {
		case hasPort:
			kinds["port"] = true
			if !isHost(hp) {
				ok, why = false, "a host with an explicit port is modified"
			}
			if !(hnp.Kind == core.KSlice && isHost(hnp.Args[0]) && hnp.Args[1].Kind == core.KNone && hnp.Args[2] == colon) {
				ok, why = false, "hostNoPort is not Host[:index of the port colon]"
			}
		case noPort:
			want := ":80"
			if scheme("wss", true) || scheme("https", true) {
				want = ":443"
			} else if !(scheme("wss", false) && scheme("https", false)) {
				ok, why = false, "default port chosen without testing both wss and https"
			}
			kinds[want] = true
			good := hp.Kind == core.KBin && hp.Op.String() == "+" && isHost(hp.Args[0])
			if good {
				s, isS := hp.Args[1].StrVal()
				good = isS && s == want
			}
			if !good {
				ok, why = false, "default port for this scheme is not "+want+" appended to the unmodified host: "+hp.String()
			}
			if !isHost(hnp) {
				ok, why = false, "hostNoPort of a port-less host is not the host itself"
			}
		default:
			ok, why = false, "a path of hostPortNoPort does not test for an explicit port"
		}
	})
	r.Check("C18.ports", shortFn(fn), "default-ports", fn.Pos(), ok && n >= 4 && len(kinds) == 3, why)
}

var _ = types.Typ
