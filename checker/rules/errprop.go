package rules

import (
	"go/types"

	"golang.org/x/tools/go/ssa"

	"wsverif/core"
)

// errOf: the error component of a call result term (sole result of type error
// or last element of a tuple), or nil.
func errOf(x *core.Explorer, res *core.Term) *core.Term {
	if res == nil || res.Type == nil {
		return nil
	}
	if tup, ok := res.Type.(*types.Tuple); ok {
		if tup.Len() == 0 {
			return nil
		}
		last := tup.Len() - 1
		if !isErr(tup.At(last).Type()) {
			return nil
		}
		if res.Kind == core.KSliceLit {
			if last < len(res.Args) {
				return res.Args[last]
			}
			return nil
		}
		return x.ExtractOf(res, last, tup.At(last).Type())
	}
	if isErr(res.Type) {
		return res
	}
	return nil
}

func isErr(t types.Type) bool {
	n, ok := t.(*types.Named)
	return ok && n.Obj().Pkg() == nil && n.Obj().Name() == "error"
}

// errMustPropagate checks, for every depth-0 call in fn selected by sel whose
// result carries an error E: on every returning path, the function's own error
// result is non-nil whenever E may be non-nil.  The accepted shapes are:
// returning E itself, returning a value the path knows to be non-nil, returning
// the result of an in-package call that was given E (wrap helpers such as
// endMessage(err) / writeFatal(err)), or the path knowing E == nil.
func (c *Ctx) errMustPropagate(rule string, fn *ssa.Function, sel func(ev *core.Event) bool, o core.Opts) (nCalls int) {
	name := shortFn(fn)
	sig := fn.Signature
	if sig.Results().Len() == 0 || !isErr(sig.Results().At(sig.Results().Len()-1).Type()) {
		c.R.Fail(rule, name, "error-result", fn.Pos(), "function has no error result to propagate into")
		return 0
	}
	ri := sig.Results().Len() - 1
	type site struct {
		ok  bool
		why string
		pos ssa.Instruction
		lbl string
	}
	sites := map[ssa.Instruction]*site{}
	c.explore(rule, fn, o, func(p *core.Path) {
		if p.End != core.EndReturn || ri >= len(p.Results) {
			return
		}
		ret := p.Results[ri]
		for i := range p.Events {
			ev := &p.Events[i]
			if ev.Kind != core.EvCall || !own(ev) || !sel(ev) {
				continue
			}
			e := errOf(p.X, ev.Result)
			if e == nil {
				continue
			}
			s := sites[ev.Instr]
			if s == nil {
				s = &site{ok: true, why: "its error reaches the function's error result on every path", pos: ev.Instr, lbl: calleeLabel(c.P, ev)}
				sites[ev.Instr] = s
			}
			eNil := hasLit(p, len(p.Lits), true, func(x *core.Term) bool { return isEqNil(x, func(y *core.Term) bool { return y == e }) })
			if eNil {
				continue
			}
			if ret == e || strip(ret) == e {
				continue
			}
			retNonNil := hasLit(p, len(p.Lits), false, func(x *core.Term) bool { return isEqNil(x, func(y *core.Term) bool { return y == ret }) })
			if retNonNil || c.nonNilErr(ret) {
				continue
			}
			// wrap helper: ret is the result of a call that received e
			if ret.Kind == core.KCall || ret.Kind == core.KApp {
				got := false
				for _, a := range ret.Args {
					if a == e || (a.Kind == core.KCall && containsArg(a, e)) {
						got = true
					}
				}
				if got {
					continue
				}
			}
			s.ok = false
			s.why = "path returning at " + c.P.Pos(p.Ret.Pos()) + " yields " + ret.String() + " although the error of this call may be non-nil (error dropped)"
		}
	})
	for _, s := range sites {
		nCalls++
		c.R.Check(rule, name, "error-of-"+s.lbl, s.pos.Pos(), s.ok, s.why)
	}
	return nCalls
}

func containsArg(call, e *core.Term) bool {
	for _, a := range call.Args {
		if a == e {
			return true
		}
	}
	return false
}

// calleeLabel names a call for obligation keys (no line numbers).
func calleeLabel(p *core.Prog, ev *core.Event) string {
	switch {
	case ev.Static != nil && p.InPkg(ev.Static):
		return shortFn(ev.Static)
	case ev.Static != nil:
		return extName(ev.Static)
	case ev.Method != nil:
		recv := ""
		if ev.Recv != nil {
			recv = fieldPathName(ev.Recv)
		}
		return recv + "." + ev.Method.Name()
	case ev.FnVal != nil:
		return "call-through-" + fieldPathName(ev.FnVal)
	case ev.Builtin != "":
		return ev.Builtin
	}
	return "?"
}

// fieldPathName renders a term as a version-free access path (c.conn, w.tw.w).
func fieldPathName(t *core.Term) string {
	t = strip(t)
	switch t.Kind {
	case core.KLoad:
		return fieldPathName(t.Args[0])
	case core.KFieldAddr:
		return fieldPathName(t.Args[0]) + "." + t.Var.Name()
	case core.KField:
		return fieldPathName(t.Args[0]) + "." + t.Var.Name()
	case core.KParam:
		return t.Ref.(*ssa.Parameter).Name()
	case core.KFree:
		return t.Ref.(*ssa.FreeVar).Name()
	case core.KAlloc:
		a := t.Ref.(*ssa.Alloc)
		if a.Comment != "" {
			return a.Comment
		}
		return "local"
	case core.KExtract:
		return fieldPathName(t.Args[0])
	case core.KCall:
		switch r := t.Ref.(type) {
		case *ssa.Function:
			return "result-of-" + core.FuncName(r)
		case *types.Func:
			return "result-of-" + r.Name()
		}
		return "result"
	case core.KGlobal:
		return t.Ref.(*ssa.Global).Name()
	}
	return "value"
}

// nonNilErr: terms that denote a non-nil error by construction: results of
// errors.New / fmt.Errorf, addresses of composite literals, and loads of
// package-level error variables that are initialised non-nil and never
// reassigned outside the package initialiser.
func (c *Ctx) nonNilErr(t *core.Term) bool {
	t0 := t
	t = strip(t)
	switch t.Kind {
	case core.KCall:
		if f, ok := t.Ref.(*ssa.Function); ok && f.Blocks == nil {
			switch extName(f) {
			case "errors.New", "fmt.Errorf":
				return true
			}
		}
	case core.KAlloc:
		return t0.Kind == core.KMakeIface
	case core.KLoad:
		if t.Args[0].Kind == core.KGlobal {
			g := t.Args[0].Ref.(*ssa.Global)
			if !isErr(g.Type().Underlying().(*types.Pointer).Elem()) {
				return false
			}
			return c.globalInitOnly(g)
		}
	}
	return false
}

// globalInitOnly: g is stored exactly once, in the package initialiser, with a non-nil value.
func (c *Ctx) globalInitOnly(g *ssa.Global) bool {
	n := 0
	for _, fn := range c.P.FuncList {
		if fn.Synthetic != "" && fn.Name() == "init" {
			continue
		}
		for _, b := range fn.Blocks {
			for _, in := range b.Instrs {
				if st, ok := in.(*ssa.Store); ok && st.Addr == ssa.Value(g) {
					return false
				}
			}
		}
	}
	if init := c.P.SPkg.Func("init"); init != nil {
		for _, b := range init.Blocks {
			for _, in := range b.Instrs {
				if st, ok := in.(*ssa.Store); ok && st.Addr == ssa.Value(g) {
					n++
					if k, isC := st.Val.(*ssa.Const); isC && k.Value == nil {
						return false
					}
				}
			}
		}
	}
	return n == 1
}

// globalByteArray: the constant content of a package-level [N]byte variable
// that is written only by the package initialiser (element stores of the
// composite literal; elements not stored are zero) and whose address never
// escapes (every other use is a load of the whole value or of an element).
func (c *Ctx) globalByteArray(g *ssa.Global) ([]int64, bool) {
	at, ok := g.Type().Underlying().(*types.Pointer).Elem().Underlying().(*types.Array)
	if !ok || at.Len() > 64 {
		return nil, false
	}
	out := make([]int64, at.Len())
	init := c.P.SPkg.Func("init")
	fns := append([]*ssa.Function{}, c.P.FuncList...)
	if init != nil {
		fns = append(fns, init)
	}
	for _, fn := range fns {
		for _, blk := range fn.Blocks {
			for _, in := range blk.Instrs {
				for _, op := range in.Operands(nil) {
					if *op != ssa.Value(g) {
						continue
					}
					switch v := in.(type) {
					case *ssa.UnOp: // load of the whole array
					case *ssa.IndexAddr:
						for _, r2 := range *v.Referrers() {
							switch w := r2.(type) {
							case *ssa.UnOp:
							case *ssa.Store:
								if w.Parent() != init || w.Addr != ssa.Value(v) {
									return nil, false
								}
								idx, isC := v.Index.(*ssa.Const)
								val, isV := w.Val.(*ssa.Const)
								if !isC || !isV || idx.Value == nil || val.Value == nil {
									return nil, false
								}
								out[idx.Int64()] = val.Int64()
							default:
								return nil, false
							}
						}
					default:
						return nil, false
					}
				}
			}
		}
	}
	return out, true
}
