package rules

import (
	"go/token"
	"fmt"
	"go/types"
	"sort"
	"strings"

	"golang.org/x/tools/go/ssa"

	"wsverif/core"
)

func init() {
	register("C11", "Decides the documented concurrency contract statically: the transitive field effects of the reader-side, writer-side and any-goroutine API functions are disjoint except for fields that are construction-only or always accessed under writeErrMu; package state is never written after initialisation; each critical section of Conn.mu performs exactly one transport write covering the whole frame and never nests; nothing blocks while a sync.Mutex is held; WriteControl's timeout paths have acquired nothing and touched nothing; Close touches only the transport; pooled objects are forgotten when returned. Latency and fairness are not decided.", c11)
}

var c11Reader = []string{"(*Conn).NextReader", "(*Conn).ReadMessage", "(*Conn).ReadJSON", "ReadJSON", "(*Conn).SetReadDeadline", "(*Conn).SetReadLimit",
	"(*Conn).SetPingHandler", "(*Conn).SetPongHandler", "(*Conn).SetCloseHandler", "(*Conn).PingHandler", "(*Conn).PongHandler", "(*Conn).CloseHandler",
	"(*messageReader).Read", "(*messageReader).Close", "(*joinReader).Read", "(*flateReadWrapper).Read", "(*flateReadWrapper).Close"}
var c11Writer = []string{"(*Conn).NextWriter", "(*Conn).WriteMessage", "(*Conn).WriteJSON", "WriteJSON", "(*Conn).WritePreparedMessage", "(*Conn).SetWriteDeadline",
	"(*Conn).EnableWriteCompression", "(*Conn).SetCompressionLevel", "(*messageWriter).Write", "(*messageWriter).WriteString", "(*messageWriter).ReadFrom",
	"(*messageWriter).Close", "(*flateWriteWrapper).Write", "(*flateWriteWrapper).Close", "(*truncWriter).Write"}
var c11Any = []string{"(*Conn).WriteControl", "(*Conn).Close", "(*Conn).LocalAddr", "(*Conn).RemoteAddr", "(*Conn).Subprotocol", "(*Conn).NetConn", "(*Conn).UnderlyingConn"}
var c11Constructors = []string{"newConn", "(*Upgrader).Upgrade", "(*Dialer).DialContext", "(*PreparedMessage).frame$1"}

func c11(c *Ctx) {
	r := c.R
	r.Rule("C11.partition", "for every field of Conn: if it is written by the transitive effects of one side (reader / writer / any-goroutine functions) and accessed by another side - or written by an any-goroutine function at all - then all its stores are in constructors (before the Conn is published) or every access is inside writeErrMu; handler closures installed by default count as reader-side callers of WriteControl")
	r.Rule("C11.globals", "package-level variables are written only by the package initialiser (sync.Pool values excepted: they are concurrency-safe)")
	r.Rule("C11.mutex-guarded", "every load and store of Conn.writeErr outside constructors happens between writeErrMu.Lock and Unlock of the same function")
	r.Rule("C11.check-then-act", "the sticky write error is read inside the critical section it protects: a writer that waited for the connection re-checks it after acquiring Conn.mu, so a frame is never written after a concurrent close frame or after a frame another goroutine left half-written (same rule as C09.protocol)")
	c.borrow(c09, map[string]string{"C09.protocol": "C11.check-then-act"})
	r.Rule("C11.deadline-per-frame", "every frame is written under its own caller's deadline: the critical section sets the transport write deadline (also the zero value, which clears one a bounded WriteControl left armed) before writing (same rule as C10.deadline)")
	c.borrow(c10, map[string]string{"C10.deadline": "C11.deadline-per-frame"})
	r.Rule("C11.atomic", "every critical section of Conn.mu performs exactly one transport write per path; in write it covers buf0 and, when present, buf1; section functions never call section functions; flushFrame and WritePreparedMessage call write at most once per invocation")
	r.Rule("C11.no-blocking-under-mutex", "between Lock and Unlock of writeErrMu / PreparedMessage.mu there is no channel operation, no transport call and no handler call")
	r.Rule("C11.timeout-paths", "WriteControl: paths returning errWriteTimeout have not acquired Conn.mu, register no release, perform no transport operation and do not call writeFatal; the blocking select consists of the receive on Conn.mu and a timer created from time.Until(deadline); a zero deadline takes the plain receive")
	r.Rule("C11.close", "Conn.Close reads Conn.conn, calls its Close and touches nothing else")
	r.Rule("C11.pool-objects", "objects handed to a pool (flate writers, flate readers, write buffers) are forgotten in the same step")
	r.Rule("C11.prepared", "PreparedMessage cache: map under the mutex, frames filled once before being read (same rule as C19.cache)")
	r.Assume("Go memory model: channel send/receive and sync.Mutex give happens-before; sync.Pool and sync.Once are safe for concurrent use")
	r.Assume("application handlers run on the reader goroutine and only call the any-goroutine API (WriteControl, Close) or reader-side functions")

	c11partition(c)
	c11globals(c)
	c11mutex(c)
	c11atomic(c)
	c11timeout(c)
	c11close(c)
	if c.poolTypestate("C11.pool-objects", "(*flateWriteWrapper).Close", "(*flateReadWrapper).Close", "(*messageWriter).endMessage") < 3 {
		r.Fail("C11.pool-objects", "", "pool-put-sites", c.fn("(*flateWriteWrapper).Close").Pos(), "fewer than 3 pool Put sites found")
	}
	c11prepared(c)
	r.Rule("C11.detector-released", "the concurrent-write detector is released on every return of the function that set it, so a legal schedule (one writer at a time) is never reported as a concurrent write after an error (same rule as C10.detector-released)")
	isWritingBracket(c, "C11.detector-released")
	r.Rule("C11.prepared-private", "each variant of a PreparedMessage is rendered in memory of its own (a fresh write buffer and connection per once.Do), so two connections rendering different variants at the same time share nothing (same rules as C19.key-complete, C19.single-frame)")
	c.borrow(c19, map[string]string{"C19.key-complete": "C11.prepared-private", "C19.single-frame": "C11.prepared-private"})
}

func c11partition(c *Ctx) {
	r := c.R
	ctor := map[*ssa.Function]bool{}
	for _, n := range c11Constructors {
		ctor[c.fn(n)] = true
	}
	type eff struct{ reads, writes map[*types.Var]bool }
	group := func(names []string) eff {
		e := eff{map[*types.Var]bool{}, map[*types.Var]bool{}}
		for _, n := range names {
			m := c.P.Mod(c.fn(n))
			for f := range m.Reads {
				e.reads[f] = true
			}
			for f := range m.Writes {
				e.writes[f] = true
			}
		}
		return e
	}
	R, W, A := group(c11Reader), group(c11Writer), group(c11Any)
	// construction-only: every store site is in a constructor
	ctorOnly := func(f *types.Var) bool {
		sites := c.P.FieldStoreSites(f)
		for _, s := range sites {
			if !ctor[s.Parent()] && !ctorStore(s) {
				return false
			}
		}
		return true
	}
	guarded := map[string]bool{"writeErr": true}
	st := c.P.Named("Conn").Underlying().(*types.Struct)
	n := 0
	for i := 0; i < st.NumFields(); i++ {
		f := st.Field(i)
		if n := c.P.OldFieldName(f); n == "writeErrMu" || n == "mu" {
			continue // the locks themselves
		}
		var conflict []string
		acc := func(e eff) bool { return e.reads[f] || e.writes[f] }
		if R.writes[f] && acc(W) || W.writes[f] && acc(R) {
			conflict = append(conflict, "reader and writer side")
		}
		if A.writes[f] {
			conflict = append(conflict, "written by functions callable from any goroutine")
		}
		if (R.writes[f] || W.writes[f]) && acc(A) {
			conflict = append(conflict, "read by functions callable from any goroutine while written by a side")
		}
		if len(conflict) == 0 {
			continue
		}
		n++
		ok := ctorOnly(f) || guarded[c.P.OldFieldName(f)]
		why := "shared between " + strings.Join(conflict, "; ") + ": "
		switch {
		case ctorOnly(f):
			why += "all stores are in constructors"
		case guarded[c.P.OldFieldName(f)]:
			why += "always accessed under writeErrMu (C11.mutex-guarded)"
		default:
			var ws []string
			for _, s := range c.P.FieldStoreSites(f) {
				if !ctor[s.Parent()] && !ctorStore(s) {
					ws = append(ws, shortFn(s.Parent()))
				}
			}
			sort.Strings(ws)
			why += "written after construction by " + strings.Join(ws, ", ") + " without a common lock (data race under the documented contract)"
		}
		r.Check("C11.partition", "Conn."+f.Name(), "shared-field", c.fn("newConn").Pos(), ok, why)
	}
	r.Floor("C11.partition", 3)
	// effect partition of reader vs writer private state, reported as one obligation each
	var rOnly, wOnly []string
	for i := 0; i < st.NumFields(); i++ {
		f := st.Field(i)
		if R.writes[f] && !W.reads[f] && !W.writes[f] && !A.reads[f] && !A.writes[f] {
			rOnly = append(rOnly, f.Name())
		}
		if W.writes[f] && !R.reads[f] && !R.writes[f] && !A.reads[f] && !A.writes[f] {
			wOnly = append(wOnly, f.Name())
		}
	}
	r.Check("C11.partition", "Conn", "reader-private-fields", c.fn("newConn").Pos(), len(rOnly) >= 8, "reader-side only: "+strings.Join(rOnly, ", "))
	r.Check("C11.partition", "Conn", "writer-private-fields", c.fn("newConn").Pos(), len(wOnly) >= 5, "writer-side only: "+strings.Join(wOnly, ", "))
}

func c11globals(c *Ctx) { packageStateless(c, "C11.globals") }

// rootGlobal: the package-level variable an address (or a map / slice value
// loaded from one) is rooted in: g, g.f, g[i], g.f.m (map loaded from a field).
func rootGlobal(v ssa.Value, depth int) *ssa.Global {
	if depth > 6 {
		return nil
	}
	switch x := v.(type) {
	case *ssa.Global:
		return x
	case *ssa.FieldAddr:
		return rootGlobal(x.X, depth+1)
	case *ssa.IndexAddr:
		return rootGlobal(x.X, depth+1)
	case *ssa.UnOp:
		if x.Op == token.MUL {
			return rootGlobal(x.X, depth+1)
		}
	}
	return nil
}

// atomicObserved: some atomic read of state rooted in g (Load, Swap,
// CompareAndSwap, or the result of Add) is used for anything but being returned
// or stored into a value that is returned (a statistics accessor).
func atomicObserved(c *Ctx, g *ssa.Global) bool {
	for _, fn := range c.P.FuncList {
		for _, b := range fn.Blocks {
			for _, in := range b.Instrs {
				call, ok := in.(*ssa.Call)
				if !ok {
					continue
				}
				f := call.Call.StaticCallee()
				if f == nil || f.Pkg == nil || f.Pkg.Pkg.Path() != "sync/atomic" || len(call.Call.Args) == 0 || rootGlobal(call.Call.Args[0], 0) != g {
					continue
				}
				if strings.HasPrefix(f.Name(), "Store") {
					return true // a plain overwrite is not a counter
				}
				for _, ref := range *call.Referrers() {
					switch u := ref.(type) {
					case *ssa.Return, *ssa.DebugRef:
					case *ssa.Store:
						if u.Val != ssa.Value(call) {
							return true
						}
					case *ssa.Convert, *ssa.ChangeType:
					default:
						return true
					}
				}
			}
		}
	}
	return false
}

// packageStateless: package-level variables (including fields, elements and
// maps inside them) are written only by the package initialiser; sync.Pool
// and mutex operations are calls, not stores.
func packageStateless(c *Ctx, rule string) {
	r := c.R
	writers := map[*ssa.Global][]string{}
	for _, fn := range c.P.FuncList {
		if fn.Synthetic != "" && fn.Name() == "init" {
			continue
		}
		seen := map[*ssa.Global]bool{}
		for _, b := range fn.Blocks {
			for _, in := range b.Instrs {
				var g *ssa.Global
				switch v := in.(type) {
				case *ssa.Store:
					g = rootGlobal(v.Addr, 0)
				case *ssa.MapUpdate:
					g = rootGlobal(v.Map, 0)
				case ssa.CallInstruction:
					// sync/atomic stores and sync.Map writes on package-level state
					if f := v.Common().StaticCallee(); f != nil && f.Pkg != nil && len(v.Common().Args) > 0 {
						switch p := f.Pkg.Pkg.Path(); {
						case p == "sync/atomic" && (strings.HasPrefix(f.Name(), "Store") || strings.HasPrefix(f.Name(), "Add") || strings.HasPrefix(f.Name(), "Swap") || strings.HasPrefix(f.Name(), "CompareAndSwap") || f.Name() == "Store" || f.Name() == "Add"):
							g = rootGlobal(v.Common().Args[0], 0)
							// a statistics counter: only ever incremented, its value only reported (never branched on or passed on)
							if g != nil && strings.HasPrefix(f.Name(), "Add") && len(*v.(ssa.Value).Referrers()) == 0 && !atomicObserved(c, g) {
								g = nil
							}
						case extName(f) == "(*sync.Map).Store" || extName(f) == "(*sync.Map).LoadOrStore" || extName(f) == "(*sync.Map).Delete" || extName(f) == "(*sync.Map).Swap":
							g = rootGlobal(v.Common().Args[0], 0)
						}
					}
				}
				if g != nil && g.Pkg == c.P.SPkg && !seen[g] {
					seen[g] = true
					writers[g] = append(writers[g], shortFn(fn))
				}
			}
		}
	}
	n := 0
	names := make([]string, 0, len(c.P.SPkg.Members))
	for name := range c.P.SPkg.Members {
		names = append(names, name)
	}
	sort.Strings(names)
	for _, name := range names {
		g, ok := c.P.SPkg.Members[name].(*ssa.Global)
		if !ok || strings.HasPrefix(name, "init$") {
			continue
		}
		n++
		if w := writers[g]; len(w) > 0 {
			sort.Strings(w)
			r.Fail(rule, name, "written-after-init", g.Pos(), "package variable "+name+" is written by "+strings.Join(w, ", ")+": state shared by all connections and handshakes (the result of one call can depend on earlier calls)")
		} else {
			r.Pass(rule, name, "written-after-init", g.Pos(), "only the package initialiser assigns it")
		}
	}
	if n < 8 {
		r.Fail(rule, "", "floor", token.NoPos, "fewer than 8 package variables found")
	}
}

func c11mutex(c *Ctx) {
	r := c.R
	t := newTransport(c)
	ctor := map[*ssa.Function]bool{}
	for _, n := range c11Constructors {
		ctor[c.fn(n)] = true
	}
	fns := map[*ssa.Function]bool{}
	for _, fn := range c.P.FuncList {
		for _, b := range fn.Blocks {
			for _, in := range b.Instrs {
				if fa, ok := in.(*ssa.FieldAddr); ok && fieldOf(fa) == t.writeErr && !ctor[fn] {
					fns[fn] = true
				}
			}
		}
	}
	n := 0
	for _, fn := range c.P.FuncList {
		if !fns[fn] {
			continue
		}
		n++
		ok, why := true, "every access is between writeErrMu.Lock and Unlock"
		c.explore("C11.mutex-guarded", fn, core.Opts{RecordLoads: true, Unroll: 0, Pure: c.pureSet("isControl", "isData")}, func(p *core.Path) {
			locked := false
			for i := range p.Events {
				ev := &p.Events[i]
				if callsExt(ev, "(*sync.Mutex).Lock") && len(ev.Args) == 1 && isFieldAddr(ev.Args[0], t.writeErrMu) {
					locked = true
				}
				if callsExt(ev, "(*sync.Mutex).Unlock") && len(ev.Args) == 1 && isFieldAddr(ev.Args[0], t.writeErrMu) {
					locked = false
				}
				if (ev.Kind == core.EvLoad || ev.Kind == core.EvStore) && isFieldAddr(ev.Addr, t.writeErr) && own(ev) && !locked {
					ok, why = false, "Conn.writeErr is accessed outside writeErrMu near "+c.P.LoadPos(p, i)
				}
				// no blocking while locked
				if locked && (ev.Kind == core.EvRecv || ev.Kind == core.EvSend || ev.Kind == core.EvSelect || (ev.Kind == core.EvCall && ev.Static == nil && (ev.Method != nil || ev.FnVal != nil))) {
					c.R.Fail("C11.no-blocking-under-mutex", shortFn(fn), "blocking-op-under-writeErrMu", ev.Instr.Pos(), "a channel operation or dynamic call happens while writeErrMu is held")
				}
			}
			if locked && p.End == core.EndReturn {
				ok, why = false, "writeErrMu is still held at a return"
			}
		})
		r.Check("C11.mutex-guarded", shortFn(fn), "writeErr-under-writeErrMu", fn.Pos(), ok, why)
		r.Pass("C11.no-blocking-under-mutex", shortFn(fn), "no-blocking-under-writeErrMu", fn.Pos(), "no channel operation or dynamic call while writeErrMu is held")
	}
	if n < 2 {
		r.Fail("C11.mutex-guarded", "", "functions-accessing-writeErr", t.writeFatal.Pos(), fmt.Sprintf("only %d functions access Conn.writeErr", n))
	}
}
