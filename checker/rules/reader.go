package rules

import (
	"fmt"
	"go/constant"
	"go/types"

	"golang.org/x/tools/go/ssa"

	"wsverif/core"
)

// reader bundles the anchors of the frame reader (shared by C03..C08).
type reader struct {
	c                                                                *Ctx
	advance, read, setRem, protoErr, nextReader, mrRead, maskBytes   *ssa.Function
	writeControl                                                     *ssa.Function
	readFinal, isServer, ndr, readRemaining, readLength, readLimit   *types.Var
	readMaskPos, readMaskKey, readErr, br, readDecompress, msgReader *types.Var
	handlePing, handlePong, handleClose, readerF                     *types.Var
}

func newReader(c *Ctx) *reader {
	r := &reader{c: c}
	r.advance = c.fn("(*Conn).advanceFrame")
	r.read = c.fn("(*Conn).read")
	r.setRem = c.fn("(*Conn).setReadRemaining")
	r.protoErr = c.fn("(*Conn).handleProtocolError")
	r.nextReader = c.fn("(*Conn).NextReader")
	r.mrRead = c.fn("(*messageReader).Read")
	r.maskBytes = c.fn("maskBytes")
	r.writeControl = c.fn("(*Conn).WriteControl")
	f := func(n string) *types.Var { return c.P.Field("Conn", n) }
	r.readFinal, r.isServer, r.ndr = f("readFinal"), f("isServer"), f("newDecompressionReader")
	r.readRemaining, r.readLength, r.readLimit = f("readRemaining"), f("readLength"), f("readLimit")
	r.readMaskPos, r.readMaskKey, r.readErr, r.br = f("readMaskPos"), f("readMaskKey"), f("readErr"), f("br")
	r.readDecompress, r.msgReader = f("readDecompress"), f("messageReader")
	r.handlePing, r.handlePong, r.handleClose, r.readerF = f("handlePing"), f("handlePong"), f("handleClose"), f("reader")
	return r
}

// handlerCall: dynamic call through one of the handler fields.
func (r *reader) handlerCall(ev *core.Event) *types.Var {
	if ev.Kind != core.EvCall || ev.FnVal == nil {
		return nil
	}
	for _, h := range []*types.Var{r.handlePing, r.handlePong, r.handleClose} {
		if _, ok := fieldLoad(ev.FnVal, h); ok {
			return h
		}
	}
	return nil
}

// usesBr: an argument or receiver is (a conversion of) the load of Conn.br.
func (r *reader) usesBr(ev *core.Event) bool {
	if ev.Recv != nil {
		if _, ok := fieldLoad(strip(ev.Recv), r.br); ok {
			return true
		}
	}
	for _, a := range ev.Args {
		if _, ok := fieldLoad(strip(a), r.br); ok {
			return true
		}
	}
	return false
}

// addrUnder: addr is field f or an element/sub-field of it.
func addrUnder(addr *core.Term, f *types.Var) bool {
	for a := addr; a != nil; {
		switch a.Kind {
		case core.KFieldAddr:
			if a.Var == f {
				return true
			}
			a = a.Args[0]
		case core.KIndexAddr, core.KSlice:
			a = a.Args[0]
		default:
			return false
		}
	}
	return false
}

// hdrState is one point of the finite header x protocol-state alphabet.
type hdrState struct {
	b0, b1              int
	readFinal, isServer bool
	hasDecomp           bool
}

// hdrStage enumerates the header stage of advanceFrame: paths are cut at the
// first effect that delivers or consumes anything of the frame beyond its
// first two bytes.
type hdrPath struct {
	kind    string // "accept" | "proto" | "io" | "other"
	lits    []core.Lit
	usesB1  []bool
	P       *core.Term // the two header bytes
	desc    string
	explain string
}

func (r *reader) acceptEffect(x *core.Explorer, ev *core.Event) bool {
	// has the header (first c.read of this activation) been read before this event?
	headerRead := false
	pre := x.Prefix()
	for i := 0; i < len(pre)-1; i++ {
		if e := &pre[i]; callsStatic(e, r.read) {
			headerRead = true
			break
		}
	}
	if !headerRead {
		return false
	}
	switch ev.Kind {
	case core.EvCall:
		if callsStatic(ev, r.read) {
			return true
		}
		if r.handlerCall(ev) != nil || callsStatic(ev, r.maskBytes) || callsStatic(ev, r.writeControl) || r.usesBr(ev) {
			return true
		}
	case core.EvStore:
		if addrUnder(ev.Addr, r.readLength) || addrUnder(ev.Addr, r.readMaskPos) || addrUnder(ev.Addr, r.readMaskKey) {
			return true
		}
	}
	return false
}

// hdrLeaf maps header-stage leaf terms to values of a hdrState.
func (r *reader) hdrLeaf(P *core.Term, s *hdrState) func(t *core.Term) (constant.Value, bool) {
	return func(t *core.Term) (constant.Value, bool) {
		if t.Kind == core.KLoad && t.Args[0].Kind == core.KIndexAddr && t.Args[0].Args[0] == P {
			if i, ok := t.Args[0].Args[1].Int64(); ok {
				switch i {
				case 0:
					return constant.MakeInt64(int64(s.b0)), true
				case 1:
					return constant.MakeInt64(int64(s.b1)), true
				}
			}
		}
		if _, ok := fieldLoad(t, r.readFinal); ok {
			return constant.MakeBool(s.readFinal), true
		}
		if _, ok := fieldLoad(t, r.isServer); ok {
			return constant.MakeBool(s.isServer), true
		}
		if t.Kind == core.KEq && t.Args[1].IsNil() {
			if _, ok := fieldLoad(t.Args[0], r.ndr); ok {
				return constant.MakeBool(!s.hasDecomp), true
			}
		}
		return nil, false
	}
}

func (r *reader) isHdrLeaf(P *core.Term) func(t *core.Term) bool {
	s := &hdrState{}
	lf := r.hdrLeaf(P, s)
	return func(t *core.Term) bool { _, ok := lf(t); return ok }
}

func mentionsB1(t *core.Term, P *core.Term) bool {
	found := false
	t.Walk(func(x *core.Term) bool {
		if x.Kind == core.KIndexAddr && x.Args[0] == P {
			if i, ok := x.Args[1].Int64(); ok && i == 1 {
				found = true
			}
		}
		return !found
	})
	return found
}

// headerStage returns the header-stage paths of advanceFrame.
func (r *reader) headerStage(rule string) []*hdrPath {
	c := r.c
	var out []*hdrPath
	opts := core.Opts{Unroll: 0, Inline: r.inl()}
	opts.Stop = r.acceptEffect
	c.explore(rule, r.advance, opts, func(p *core.Path) {
		if p.End == core.EndCut {
			return // one more iteration of a generalised loop: covered by the path that leaves the generalised head
		}
		var P *core.Term
		first := -1
		for i := range p.Events {
			if ev := &p.Events[i]; callsStatic(ev, r.read) {
				P = p.X.ExtractOf(ev.Result, 0, nil)
				first = i
				break
			}
		}
		hp := &hdrPath{P: P}
		switch {
		case p.End == core.EndStop:
			hp.kind = "accept"
			hp.desc = "continues to " + c.P.EventString(&p.Events[len(p.Events)-1])
		case p.End == core.EndReturn && len(p.Results) == 2:
			e := p.Results[1]
			switch {
			case e.IsNil():
				hp.kind = "accept"
				hp.desc = "returns a frame with nil error at " + c.P.Pos(p.Ret.Pos())
			case e.Kind == core.KCall && e.Ref == interface{}(r.protoErr):
				hp.kind = "proto"
			default:
				hp.kind = "io"
			}
		default:
			hp.kind = "other"
		}
		if first < 0 {
			hp.kind = "pre"
			out = append(out, hp)
			return
		}
		isLeaf := r.isHdrLeaf(P)
		for _, l := range p.Lits[p.Events[first].NLits:] {
			if l.Depth != 0 && l.Fn == r.setRem {
				// setReadRemaining's own n < 0 test: evaluable too
			}
			if core.Evaluable(l.T, isLeaf) {
				hp.lits = append(hp.lits, l)
				hp.usesB1 = append(hp.usesB1, mentionsB1(l.T, P))
			}
		}
		out = append(out, hp)
	})
	return out
}

// lateRefusals: beyond the header stage (extended length, mask key, payload of
// a control frame already read) a protocol error may only concern a close
// frame, whose body is validated.  Every path of advanceFrame that returns
// handleProtocolError is compared with the header alphabet: it must not be
// compatible with a header RFC 6455 allows whose opcode is not close.
func (r *reader) lateRefusals(rule string) {
	c := r.c
	var protos []*hdrPath
	c.explore(rule, r.advance, core.Opts{Unroll: 0, Inline: r.inl()}, func(p *core.Path) {
		if p.End != core.EndReturn || len(p.Results) != 2 {
			return
		}
		e := p.Results[1]
		if !(e.Kind == core.KCall && e.Ref == interface{}(r.protoErr)) {
			return
		}
		var P *core.Term
		first := -1
		for i := range p.Events {
			if ev := &p.Events[i]; callsStatic(ev, r.read) {
				P = p.X.ExtractOf(ev.Result, 0, nil)
				first = i
				break
			}
		}
		if first < 0 {
			return
		}
		// a length that was not minimally encoded is not conformant either: the refusal is
		// justified where the path bounds the decoded extended length below its class
		var lens []*core.Term
		for i := range p.Events {
			if ev := &p.Events[i]; ev.Kind == core.EvStore && isFieldAddr(ev.Addr, r.readRemaining) {
				lens = append(lens, ev.Val)
			}
		}
		if len(lens) >= 2 {
			lo7, has1 := p.X.Lower(lens[0])
			hi7, has2 := p.X.Upper(lens[0])
			hi, has3 := p.X.Upper(lens[1])
			if has1 && has2 && has3 && lo7 == hi7 && ((lo7 == 126 && hi <= 125) || (lo7 == 127 && hi <= 65535)) {
				return
			}
		}
		hp := &hdrPath{P: P, kind: "proto", desc: c.P.Pos(p.Ret.Pos())}
		isLeaf := r.isHdrLeaf(P)
		for _, l := range p.Lits[p.Events[first].NLits:] {
			if core.Evaluable(l.T, isLeaf) {
				hp.lits = append(hp.lits, l)
				hp.usesB1 = append(hp.usesB1, mentionsB1(l.T, P))
			}
		}
		protos = append(protos, hp)
	})
	x := core.NewExplorer(c.P)
	bad := ""
	for b0 := 0; b0 < 256 && bad == ""; b0++ {
		if b0&0xf == 8 {
			continue
		}
		for st := 0; st < 8 && bad == ""; st++ {
			s := &hdrState{b0: b0, readFinal: st&1 != 0, isServer: st&2 != 0, hasDecomp: st&4 != 0}
			var cand []*hdrPath
			for _, hp := range protos {
				if r.compatible(x, hp, s, 0) {
					cand = append(cand, hp)
				}
			}
			for b1 := 0; b1 < 256 && len(cand) > 0 && bad == ""; b1++ {
				s.b1 = b1
				if class, decided := hdrVerdict(s); !decided || class != "" {
					continue
				}
				for _, hp := range cand {
					if r.compatible(x, hp, s, 1) {
						bad = fmt.Sprintf("header bytes %#02x %#02x (message in progress=%v, server=%v, compression negotiated=%v) are allowed by RFC 6455, yet a path compatible with them returns a protocol error at %s", s.b0, s.b1, !s.readFinal, s.isServer, s.hasDecomp, hp.desc)
						break
					}
				}
			}
		}
	}
	why := fmt.Sprintf("no protocol-error return of advanceFrame (%d paths) is compatible with a conformant non-close header", len(protos))
	if bad != "" {
		why = bad
	}
	c.R.Check(rule, shortFn(r.advance), "no-refusal-after-the-header-stage", r.advance.Pos(), bad == "" && len(protos) >= 9, why)
}

// compatible: do all evaluable literals of hp hold in state s?  stage 0 checks
// only literals not mentioning byte 1, stage 1 the others.
func (r *reader) compatible(x *core.Explorer, hp *hdrPath, s *hdrState, stage int) bool {
	lf := r.hdrLeaf(hp.P, s)
	for i, l := range hp.lits {
		if (stage == 0) == hp.usesB1[i] {
			continue
		}
		v, ok := x.Eval(l.T, lf)
		if !ok {
			continue
		}
		if constant.BoolVal(v) != l.Pos {
			return false
		}
	}
	return true
}

// inl: inline setReadRemaining and every small unexported helper that is not
// one of the reader's anchor functions, so that extracting a helper (or
// moving a statement into one) does not change what the path rules see.
func (rd *reader) inl() func(*ssa.Function, int) bool {
	// the opcode predicates are inlined too: a parser phrased with isControl(t) / isData(t) then yields the same
	// branch literals as one phrased with a switch over the opcode constants
	isC, isD := rd.c.P.FuncOpt("isControl"), rd.c.P.FuncOpt("isData")
	return func(f *ssa.Function, depth int) bool { return f == rd.setRem || (f != nil && (f == isC || f == isD)) }
}
