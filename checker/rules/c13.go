package rules

import (
	"strings"
	"fmt"
	"go/constant"

	"golang.org/x/tools/go/ssa"

	"wsverif/core"
)

func init() {
	register("C13", "Decides the default origin policy: Upgrade falls back to checkSameOrigin exactly when no CheckOrigin is configured and answers 403; checkSameOrigin returns true only for an absent Origin header or when equalASCIIFold(url.Parse(origin).Host, r.Host) holds on the unmodified host:port strings; equalASCIIFold's per-rune decision is evaluated over all ASCII/Latin runes and the Unicode runes whose case folding lands in ASCII and agrees with A-Z-only folding. What net/url puts into Host for exotic inputs is not decided.", c13)
}

func asciiLower(r int64) int64 {
	if r >= 'A' && r <= 'Z' {
		return r + 'a' - 'A'
	}
	return r
}

// foldDomain: every rune below U+0300 plus the runes outside it whose Unicode
// simple/special case folding touches ASCII letters, and some extremes.
func foldDomain(thorough bool) []int64 {
	var d []int64
	lim := int64(0x180) // ASCII, Latin-1, Latin Extended-A (includes U+0130, U+0131, U+017F)
	if thorough {
		lim = 0x300
	}
	for r := int64(0); r < lim; r++ {
		d = append(d, r)
	}
	d = append(d, 0x212A, 0x212B, 0x2126, 0x1E9E, 0xFB00, 0xFB06, 0xFF21, 0xFF3A, 0xFF41, 0xFF5A, 0x10400, 0xFFFD, 0x10FFFF, 0x3A9, 0x3C9, 0x41+0x10000)
	return d
}

func c13(c *Ctx) {
	r := c.R
	u := newUpgA(c)
	r.Rule("C13.fallback", "Upgrade applies checkSameOrigin iff Upgrader.CheckOrigin is nil, to the request being upgraded, before hijacking; a false result replies 403 through returnError")
	r.Rule("C13.same-origin", "checkSameOrigin returns true only when r.Header[\"Origin\"] is empty; otherwise it returns false on a url.Parse error and else exactly equalASCIIFold(parsed.Host, r.Host) (no port stripping, no Hostname(), no prefix/suffix comparison)")
	r.Rule("C13.stateless", "the origin decision depends on the request alone: no package-level variable is written after initialisation (same rule as C11.globals)")
	packageStateless(c, "C13.stateless")
	r.Rule("C13.ascii-only", "equalASCIIFold calls nothing but utf8.DecodeRuneInString; for every rune pair of the evaluation domain (all runes < U+0180 (quick) / < U+0300 (thorough), plus U+212A KELVIN, U+017F, full-width letters, ...) an iteration continues iff the runes are equal after mapping A-Z to a-z only; the function returns true only through the final s == t on the remainders; both strings advance by the decoded sizes")
	r.Assume("net/url.Parse puts the authority's host[:port] (without userinfo) into URL.Host")

	originOnlyInPolicy(c, u, "C13.fallback")
	u.originFallback("C13.fallback")
	u.chainOnly("C13.fallback", "origin")

	c13sameOrigin(c, u, "C13.same-origin")
	c13fold(c, "C13.ascii-only")
}

// c13fold: the ASCII-only case folding of equalASCIIFold.
func c13fold(c *Ctx, rule string) {
	r := c.R
	fn := c.fn("equalASCIIFold")
	// callees
	{
		ok, why := true, "calls only unicode/utf8.DecodeRuneInString"
		for _, b := range fn.Blocks {
			for _, in := range b.Instrs {
				ci, isCall := in.(ssa.CallInstruction)
				if !isCall {
					continue
				}
				if _, isB := ci.Common().Value.(*ssa.Builtin); isB {
					continue
				}
				f := ci.Common().StaticCallee()
				if f != nil && c.P.InPkg(f) && !c.P.Mod(f).External && len(c.P.Mod(f).Writes) == 0 {
					continue // a pure in-package helper (its comparisons are inlined into the rune-pair table below)
				}
				if f == nil || extName(f) != "unicode/utf8.DecodeRuneInString" {
					name := "a dynamic call"
					if f != nil {
						name = extName(f)
						if c.P.InPkg(f) {
							name = shortFn(f)
						}
					}
					ok, why = false, "equalASCIIFold calls "+name+" (Unicode-aware folding would accept look-alike hosts)"
				}
			}
		}
		r.Check(rule, shortFn(fn), "no-unicode-folding-callee", fn.Pos(), ok, why)
	}
	type iterPath struct {
		lits      []core.Lit
		sr, tr    *core.Term
		continues bool
		desc      string
	}
	var paths []iterPath
	var x *core.Explorer
	okShape, whyShape := true, "true is returned only as the final comparison of the remainders; strings advance by the decoded sizes"
	c.explore(rule, fn, core.Opts{Unroll: 0}, func(p *core.Path) {
		x = p.X
		// last iteration: last two DecodeRune calls
		var calls []*core.Event
		for i := range p.Events {
			ev := &p.Events[i]
			if ev.Kind == core.EvCall && ev.Static != nil && extName(ev.Static) == "unicode/utf8.DecodeRuneInString" {
				calls = append(calls, ev)
			}
		}
		if p.End == core.EndReturn && len(p.Results) == 1 {
			res := p.Results[0]
			if b, isB := res.BoolVal(); isB && b {
				okShape, whyShape = false, "equalASCIIFold returns the constant true at "+c.P.Pos(p.Ret.Pos())
			} else if !isB && res.Kind != core.KEq {
				okShape, whyShape = false, "equalASCIIFold returns "+res.String()+" instead of comparing the remainders"
			}
		}
		if len(calls) < 2 {
			return
		}
		a, b := calls[len(calls)-2], calls[len(calls)-1]
		ip := iterPath{sr: p.X.ExtractOf(a.Result, 0, nil), tr: p.X.ExtractOf(b.Result, 0, nil)}
		for _, l := range p.Lits[b.NLits:] {
			ip.lits = append(ip.lits, l)
		}
		switch {
		case p.End == core.EndCut:
			ip.continues = true
		case p.End == core.EndReturn:
			if v, isB := p.Results[0].BoolVal(); isB && !v {
				ip.continues = false
			} else {
				ip.continues = true // left the loop towards the final comparison
			}
		default:
			return
		}
		ip.desc = c.P.Pos(b.Instr.Pos())
		paths = append(paths, ip)
	})
	r.Check(rule, shortFn(fn), "result-is-final-comparison", fn.Pos(), okShape, whyShape)
	if len(paths) < 4 || x == nil {
		r.Fail(rule, shortFn(fn), "rune-pair-table", fn.Pos(), fmt.Sprintf("only %d iteration paths recognised", len(paths)))
		return
	}
	dom := foldDomain(c.Tier == "thorough")
	ok, why := true, fmt.Sprintf("%d x %d rune pairs: continue <=> equal after A-Z -> a-z", len(dom), len(dom))
	undecided := 0
	for _, a := range dom {
		for _, b := range dom {
			want := asciiLower(a) == asciiLower(b)
			matched := false
			for _, ip := range paths {
				leaf := func(t *core.Term) (constant.Value, bool) {
					switch t {
					case ip.sr:
						return constant.MakeInt64(a), true
					case ip.tr:
						return constant.MakeInt64(b), true
					}
					return nil, false
				}
				compat := true
				for _, l := range ip.lits {
					v, okE := x.Eval(l.T, leaf)
					if !okE {
						// literals about the strings themselves (loop exit) do not constrain the runes
						if mentions(l.T, ip.sr) || mentions(l.T, ip.tr) {
							undecided++
						}
						continue
					}
					if constant.BoolVal(v) != l.Pos {
						compat = false
						break
					}
				}
				if !compat {
					continue
				}
				matched = true
				if ip.continues != want && ok {
					ok = false
					if ip.continues {
						why = fmt.Sprintf("runes U+%04X and U+%04X are treated as equal although they differ under ASCII-only case folding (a look-alike host would pass the same-origin check)", a, b)
					} else {
						why = fmt.Sprintf("runes U+%04X and U+%04X are treated as different although they are equal under ASCII case folding", a, b)
					}
				}
			}
			if !matched && ok {
				ok, why = false, fmt.Sprintf("no iteration path matches runes U+%04X / U+%04X", a, b)
			}
		}
	}
	if undecided > 0 && ok {
		ok, why = false, "the per-rune decision contains a term the analyser cannot evaluate (e.g. a library folding function)"
	}
	r.Check(rule, shortFn(fn), "rune-pair-table", fn.Pos(), ok, why)
}

func mentions(t, sub *core.Term) bool { return t.Contains(sub) }

// c13sameOrigin: checkSameOrigin accepts only an absent Origin or a host equal to the request's under ASCII folding.
func c13sameOrigin(c *Ctx, u *upgA, rule string) {
	r := c.R
	fn := u.sameOrigin
	fold := c.fn("equalASCIIFold")
	ok, why := true, "true only for an absent Origin; otherwise the verdict of equalASCIIFold(url.Parse(origin[0]).Host, r.Host)"
	nTrue, nFold := 0, 0
	c.explore(rule, fn, core.Opts{NonNilOnNilErr: true}, func(p *core.Path) {
		if p.End != core.EndReturn || len(p.Results) != 1 {
			return
		}
		res := p.Results[0]
		// the Origin header values
		var origin *core.Term
		for _, l := range p.Lits {
			l.T.Walk(func(t *core.Term) bool {
				if t.Kind == core.KLookup && isRequestHeader(t.Args[0]) {
					if k, isS := t.Args[1].StrVal(); isS && k == "Origin" {
						origin = t
					}
				}
				// r.Header.Values("Origin") is the same slice
				if t.Kind == core.KCall && len(t.Args) == 2 && isRequestHeader(t.Args[0]) {
					if f, isF := t.Ref.(*ssa.Function); isF && extName(f) == "(net/http.Header).Values" {
						if k, isS := t.Args[1].StrVal(); isS && k == "Origin" {
							origin = t
						}
					}
				}
				return true
			})
		}
		if b, isB := res.BoolVal(); isB {
			if !b {
				return
			}
			nTrue++
			empty := origin != nil && (hasLit(p, len(p.Lits), true, func(t *core.Term) bool {
				return t.Kind == core.KEq && t.Args[0].Kind == core.KLen && t.Args[0].Args[0] == origin && func() bool { v, isC := t.Args[1].Int64(); return isC && v == 0 }()
			}) || knowsLt(p, len(p.Lits), 1, func(y *core.Term) bool { return y.Kind == core.KLen && y.Args[0] == origin }))
			if !empty {
				ok, why = false, "checkSameOrigin returns true at "+c.P.Pos(p.Ret.Pos())+" although an Origin header is present"
			}
			return
		}
		// non-constant result: must be the fold comparison of the two hosts
		if !(res.Kind == core.KCall && res.Ref == interface{}(fold) && len(res.Args) == 2) {
			ok, why = false, "checkSameOrigin decides by "+res.String()+" instead of equalASCIIFold(origin host, request host)"
			return
		}
		nFold++
		a, b := res.Args[0], res.Args[1]
		isHostOf := func(t *core.Term, pred func(base *core.Term) bool) bool {
			return t.Kind == core.KLoad && t.Args[0].Kind == core.KFieldAddr && t.Args[0].Var.Name() == "Host" && pred(t.Args[0].Args[0])
		}
		var parse *core.Term
		isParsed := func(base *core.Term) bool {
			if base.Kind == core.KExtract && base.N == 0 && base.Args[0].Kind == core.KCall {
				if f, isF := base.Args[0].Ref.(*ssa.Function); isF && extName(f) == "net/url.Parse" {
					parse = base.Args[0]
					return true
				}
			}
			return false
		}
		isReq := func(base *core.Term) bool { return base.Kind == core.KParam }
		if !((isHostOf(a, isParsed) && isHostOf(b, isReq)) || (isHostOf(b, isParsed) && isHostOf(a, isReq))) {
			ok, why = false, "the strings compared are not url.Parse(origin).Host and r.Host themselves (e.g. a port or userinfo is stripped, or a different parser is used)"
			return
		}
		// parsed from the first Origin value, error checked
		arg := parse.Args[0]
		if !(origin != nil && arg.Kind == core.KLoad && arg.Args[0].Kind == core.KIndexAddr && arg.Args[0].Args[0] == origin) {
			ok, why = false, "the URL parsed is not the request's Origin header value"
		} else if i, isC := arg.Args[0].Args[1].Int64(); !isC || i != 0 {
			ok, why = false, "the URL parsed is not the first Origin header value"
		}
		perr := p.X.ExtractOf(parse, 1, nil)
		if !hasLit(p, len(p.Lits), true, func(t *core.Term) bool { return isEqNil(t, is(perr)) }) {
			ok, why = false, "an unparsable Origin is not refused before the comparison"
		}
	})
	r.Check(rule, shortFn(fn), "true-only-if-absent-or-fold-equal", fn.Pos(), ok && nTrue > 0 && nFold > 0, why)
}

// originOnlyInPolicy: the Origin header is judged by the policy function
// (CheckOrigin / checkSameOrigin) alone; Upgrade itself does not read it, so
// every origin refusal is the 403 of the policy branch.
func originOnlyInPolicy(c *Ctx, u *upgA, rule string) {
	fns := []*ssa.Function{u.upgrade}
	for callee := range c.P.Mod(u.upgrade).Callees {
		if c.isNewHelper(callee, 1) {
			fns = append(fns, callee)
		}
	}
	bad := ""
	for _, fn := range fns {
		for _, b := range fn.Blocks {
			for _, in := range b.Instrs {
				var key ssa.Value
				switch v := in.(type) {
				case *ssa.Lookup:
					key = v.Index
				case ssa.CallInstruction:
					if f := v.Common().StaticCallee(); f != nil && len(v.Common().Args) == 2 {
						switch extName(f) {
						case "(net/http.Header).Get", "(net/http.Header).Values":
							key = v.Common().Args[1]
						}
					}
				}
				if k, isC := key.(*ssa.Const); isC && k.Value != nil && k.Value.Kind() == constant.String && strings.EqualFold(constant.StringVal(k.Value), "Origin") {
					bad = c.P.Pos(in.Pos())
				}
			}
		}
	}
	why := "Upgrade does not read the Origin header itself"
	if bad != "" {
		why = "Upgrade reads the Origin header itself at " + bad + ": an origin it refuses there does not get the policy's 403 (or is admitted without the policy having seen it)"
	}
	c.R.Check(rule, shortFn(u.upgrade), "origin-judged-by-policy-only", u.upgrade.Pos(), bad == "", why)
}
