package rules

import (
	"fmt"
	"go/constant"
	"go/types"

	"golang.org/x/tools/go/ssa"

	"wsverif/core"
)

func init() {
	register("C08", "Decides control-frame dispatch on every path of advanceFrame: exactly one call of the handler that belongs to the opcode, with this frame's payload unmasked from key position 0 (server) or untouched (client); close code/reason decoding and the CloseError returned; handler errors are returned; the default handlers echo ping payload and close code; the accepted close-code table.", c08)
}

func c08(c *Ctx) {
	r := c.R
	rd := newReader(c)
	r.Rule("C08.dispatch", "for every accepted control frame: exactly one call through handlePing/handlePong/handleClose, chosen by the opcode (9/10/8), argument string(payload) where payload is the result of read(int(readRemaining)) of this frame (empty when the length is 0), unmasked by maskBytes(readMaskKey, 0, payload) iff isServer; data and continuation frames call no handler")
	r.Rule("C08.close", "close frames: code = big-endian Uint16 of payload[0:2] and reason = payload[2:] when the payload has >= 2 bytes, else (1005, \"\"); after the handler returns nil the read fails with &CloseError{Code: code, Text: reason}")
	r.Rule("C08.handler-error", "a non-nil error from a handler is returned from advanceFrame unchanged (and made sticky by the callers: C04.sticky)")
	r.Rule("C08.defaults", "newConn installs the defaults by calling the three setters with nil; default ping handler = WriteControl(PongMessage, []byte(appData)), default close handler = WriteControl(CloseMessage, FormatCloseMessage(code, \"\")), default pong handler does nothing; the handler fields are written only by their setters")
	r.Rule("C08.codes", "every close code the property lists as acceptable (1000-1003, 1007-1011, 3000-4999) passes isValidReceivedCloseCode (all 65536 codes evaluated)")
	r.Rule("C08.sticky", "handler and CloseError errors are permanent (same rule as C04.sticky)")

	closeOp, pingOp, pongOp := int(c.P.ConstInt("CloseMessage")), int(c.P.ConstInt("PingMessage")), int(c.P.ConstInt("PongMessage"))
	noStatus := c.P.ConstInt("CloseNoStatusReceived")
	codeF, textF := c.P.Field("CloseError", "Code"), c.P.Field("CloseError", "Text")
	want := map[int]*types.Var{closeOp: rd.handleClose, pingOp: rd.handlePing, pongOp: rd.handlePong}

	okD, whyD := true, "exactly one handler call per control frame, right handler, right payload, unmasked iff server"
	okC, whyC := true, "close code/reason decoded from the payload; CloseError carries the same values"
	okE, whyE := true, "handler errors are returned unchanged"
	nCtl, nDat := 0, 0
	full := core.Opts{Unroll: 0, RecordLoads: true, Inline: rd.inl()}
	c.explore("C08.dispatch", rd.advance, full, func(p *core.Path) {
		if p.End != core.EndReturn || len(p.Results) != 2 {
			return
		}
		ops := rd.pathOpcodes(p)
		var calls []*core.Event
		var callIdx []int
		for i := range p.Events {
			if rd.handlerCall(&p.Events[i]) != nil {
				calls = append(calls, &p.Events[i])
				callIdx = append(callIdx, i)
			}
		}
		isCtl := ops[closeOp] || ops[pingOp] || ops[pongOp]
		isDat := ops[0] || ops[1] || ops[2]
		if len(calls) > 0 && isDat && !isCtl {
			okD, whyD = false, "a handler is called for a data/continuation frame"
		}
		// a control-frame path may end without a handler call only by refusing the
		// frame (handleProtocolError) or by failing to read it (error of a transport read)
		past := true
		if e := p.Results[1]; len(calls) == 0 && !e.IsNil() {
			if e.Kind == core.KCall && e.Ref == interface{}(rd.protoErr) {
				past = false
			}
			if e.Kind == core.KExtract && e.Args[0].Kind == core.KCall {
				if f, isF := e.Args[0].Ref.(*ssa.Function); isF && (f == rd.read || extName(f) == "io.CopyN") {
					past = false
				}
			}
		}
		if !isCtl || isDat || !past {
			if p.Results[1].IsNil() && isDat {
				nDat++
			}
			return
		}
		nCtl++
		if len(ops) != 1 {
			okD, whyD = false, "control dispatch path does not determine a single opcode"
			return
		}
		var op int
		for k := range ops {
			op = k
		}
		if len(calls) != 1 {
			okD, whyD = false, fmt.Sprintf("opcode %d: %d handler calls on the path returning at %s (want exactly 1)", op, len(calls), c.P.Pos(p.Ret.Pos()))
			return
		}
		call, ci := calls[0], callIdx[0]
		if rd.handlerCall(call) != want[op] {
			okD, whyD = false, fmt.Sprintf("opcode %d is dispatched to Conn.%s", op, rd.handlerCall(call).Name())
		}
		// payload of this frame
		var rem *core.Term
		for i := 0; i < ci; i++ {
			if e := &p.Events[i]; (e.Kind == core.EvStore || e.Kind == core.EvLoad) && isFieldAddr(e.Addr, rd.readRemaining) && e.Val != nil {
				if z, isC := e.Val.Int64(); !(isC && z == 0) {
					rem = e.Val
				}
			}
		}
		var payload *core.Term
		var reads []*core.Event
		var readIdx int
		for i := 0; i < ci; i++ {
			if e := &p.Events[i]; callsStatic(e, rd.read) {
				reads = append(reads, e)
				readIdx = i
			}
		}
		hasPayload := rem != nil && knowsGe(p, call.NLits, 1, isW(p.X, rem))
		if hasPayload {
			last := reads[len(reads)-1]
			if len(reads) < 2 || strip(last.Args[1]) != strip(rem) {
				okD, whyD = false, fmt.Sprintf("control payload is not read with read(int(readRemaining)) of this frame (reads=%d arg=%v rem=%v)", len(reads), last.Args[1], rem)
				return
			}
			payload = p.X.ExtractOf(last.Result, 0, nil)
			// error of the payload read returned before dispatch
			e := errOf(p.X, last.Result)
			if !hasLit(p, call.NLits, true, func(t *core.Term) bool { return isEqNil(t, func(y *core.Term) bool { return y == e }) }) {
				okD, whyD = false, "handler is called although the control payload read may have failed"
			}
			// unmask iff server, position 0, whole payload, before the handler call
			var mask *core.Event
			for i := readIdx + 1; i < ci; i++ {
				if callsStatic(&p.Events[i], rd.maskBytes) {
					mask = &p.Events[i]
				}
			}
			srvT := hasLit(p, call.NLits, true, func(t *core.Term) bool { _, y := fieldLoad(t, rd.isServer); return y })
			switch {
			case mask != nil:
				_, isK := fieldLoad(mask.Args[0], rd.readMaskKey)
				if !isK { // the value this very path stored into readMaskKey as a whole
					for i := 0; i < ci; i++ {
						if e := &p.Events[i]; e.Kind == core.EvStore && isFieldAddr(e.Addr, rd.readMaskKey) {
							isK = e.Val == mask.Args[0]
						}
					}
				}
				if !isK {
					okD, whyD = false, "control payload unmasked with something other than readMaskKey"
				}
				if z, isC := mask.Args[1].Int64(); !isC || z != 0 {
					okD, whyD = false, "control payload is unmasked from key position "+mask.Args[1].String()+" instead of 0"
				}
				if mask.Args[2] != payload {
					okD, whyD = false, "the unmasked bytes are not this frame's payload"
				}
				if !srvT {
					okD, whyD = false, "control payload unmasked on a path that is not known to be a server"
				}
			case srvT:
				okD, whyD = false, "server path passes a masked control payload to the handler"
			}
			// mask key of this frame was stored (masked frames: C03.mask-thread) — nothing more here
		}
		// handler argument(s)
		arg0 := call.Args[0]
		if op != closeOp {
			if hasPayload {
				if s := strip(arg0); s != payload {
					okD, whyD = false, "handler argument is not string(payload) of this frame: "+arg0.String()
				}
			} else if s, isS := arg0.StrVal(); !(isS && s == "") && !strip(arg0).IsNil() {
				okD, whyD = false, "handler argument for an empty control frame is not the empty string"
			}
		} else {
			code, text := call.Args[0], call.Args[1]
			lenGE2 := payload != nil && hasLit(p, call.NLits, false, func(t *core.Term) bool {
				z, isC := t.Args1Int()
				return t.Kind == core.KLt && isC && z == 2 && t.Args[0].Kind == core.KLen && t.Args[0].Args[0] == payload
			})
			if lenGE2 {
				cs := strip(code)
				okShape := cs.Kind == core.KCall && len(cs.Args) > 0 && cs.Args[len(cs.Args)-1] == payload
				if okShape {
					f, isF := cs.Ref.(*ssa.Function)
					okShape = isF && extName(f) == "(encoding/binary.bigEndian).Uint16"
				}
				if !okShape && bigEndianOf(p.X, code, payload, 2) {
					okShape = true // the two bytes combined by hand
				}
				if !okShape {
					okC, whyC = false, "close code is not big-endian Uint16(payload)"
				}
				ts := strip(text)
				if !(ts.Kind == core.KSlice && ts.Args[0] == payload && ts.Args[2].Kind == core.KNone) {
					okC, whyC = false, "close reason is not payload[2:]"
				} else if lo, isC := ts.Args[1].Int64(); !isC || lo != 2 {
					okC, whyC = false, "close reason is not payload[2:]"
				}
			} else {
				cv, isC := code.Int64()
				tv, isS := text.StrVal()
				if !(isC && cv == noStatus && noStatus == 1005 && isS && tv == "") {
					okC, whyC = false, "close frame without a 2-byte status does not yield (1005, \"\")"
				}
			}
			// after a nil handler result the function returns &CloseError{code, text}
			hres := call.Result
			if hasLit(p, len(p.Lits), true, func(t *core.Term) bool { return isEqNil(t, func(y *core.Term) bool { return y == hres }) }) {
				e := strip(p.Results[1])
				if e.Kind != core.KAlloc {
					okC, whyC = false, "after the close handler the read does not fail with a *CloseError"
				} else {
					var gotCode, gotText *core.Term
					for i := range p.Events {
						ev := &p.Events[i]
						if ev.Kind == core.EvStore && ev.Addr.Kind == core.KFieldAddr && ev.Addr.Args[0] == e {
							if ev.Addr.Var == codeF {
								gotCode = ev.Val
							}
							if ev.Addr.Var == textF {
								gotText = ev.Val
							}
						}
					}
					if gotCode != code || (gotText != text && !(gotText == nil && func() bool { s, isS := text.StrVal(); return isS && s == "" }())) {
						okC, whyC = false, "CloseError does not carry the code and reason passed to the handler"
					}
				}
				if v, isC := p.Results[0].Int64(); !isC || v != c.P.ConstInt("noFrame") {
					okC, whyC = false, "close frame is returned as a frame"
				}
			}
		}
		// handler error returned unchanged
		hres := call.Result
		if hasLit(p, len(p.Lits), false, func(t *core.Term) bool { return isEqNil(t, func(y *core.Term) bool { return y == hres }) }) {
			if p.Results[1] != hres {
				okE, whyE = false, "a non-nil handler error is not returned from advanceFrame"
			}
		} else if !hasLit(p, len(p.Lits), true, func(t *core.Term) bool { return isEqNil(t, func(y *core.Term) bool { return y == hres }) }) {
			okE, whyE = false, "the handler's error result is not tested"
		}
	})
	if nCtl < 6 {
		okD, whyD = false, fmt.Sprintf("only %d control dispatch paths recognised", nCtl)
	}
	r.Check("C08.dispatch", shortFn(rd.advance), "one-handler-call-with-this-payload", rd.advance.Pos(), okD, whyD)
	r.Check("C08.close", shortFn(rd.advance), "close-code-reason-and-CloseError", rd.advance.Pos(), okC, whyC)
	r.Check("C08.handler-error", shortFn(rd.advance), "handler-error-returned", rd.advance.Pos(), okE, whyE)
	r.Check("C08.dispatch", shortFn(rd.advance), "data-frames-returned", rd.advance.Pos(), nDat > 0, "data/continuation frames are returned to the caller without handler calls")

	rd.closeCodeTable("C08.codes", false, true)
	rd.sticky("C08.sticky")
	c08defaults(c, rd, "C08.defaults")
	r.Rule("C08.read-buffer", "a control frame of any legal size (0..125 payload bytes) can be read: the Conn's bufio.Reader always holds at least maxControlFramePayloadSize bytes — newConn allocates at least that, and a reader handed to newConn by a caller (the hijacked one) is known to be that large on the path")
	c08readBuffer(c, rd)
	r.Rule("C08.reply-sendable", "a control write that timed out waiting for the connection leaves no sticky write error behind, so later pongs and close echoes are still sent (same rule as C11.timeout-paths)")
	c.borrow(c11, map[string]string{"C11.timeout-paths": "C08.reply-sendable"})
	r.Rule("C08.error-identity", "the CloseError (or handler error) raised while a compressed or joined message is being read reaches the application as that very value: every Read method layered over the message reader returns the inner error itself (same rules as C04.error-reaches-reader)")
	flateWrapperRule(c, "C08.error-identity")
	readJSONRule(c, "C08.error-identity")
	if c.readerWrappers("C08.error-identity") < 4 {
		r.Fail("C08.error-identity", "package", "floor", c.fn("(*joinReader).Read").Pos(), "fewer than the 4 known reader wrappers were analysed")
	}
	r.Rule("C08.early-frames", "control frames that arrive together with the handshake, and control frames of every legal size later on, reach their handlers: the connection keeps the reader it was built with (same rules as C17.client-reader, C17.reader-stable)")
	c.borrow(c17, map[string]string{"C17.client-reader": "C08.early-frames", "C17.reader-stable": "C08.early-frames"})
	r.Rule("C08.reply-private", "the pong / close reply is assembled by WriteControl in memory private to the call: nothing reachable from the Conn is written before Conn.mu is held, so a concurrent WriteControl cannot overwrite the reply (same rule as C11.timeout-paths)")
	newTransport(c).noSharedBeforeLock("C08.reply-private")
}

func c08defaults(c *Ctx, rd *reader, rule string) {
	r := c.R
	closeMsg, pongMsg := c.P.ConstInt("CloseMessage"), c.P.ConstInt("PongMessage")
	fcm := c.fn("FormatCloseMessage")
	// setters: store param or default closure
	type setter struct {
		name  string
		field *types.Var
	}
	for _, s := range []setter{{"(*Conn).SetPingHandler", rd.handlePing}, {"(*Conn).SetPongHandler", rd.handlePong}, {"(*Conn).SetCloseHandler", rd.handleClose}} {
		fn := c.fn(s.name)
		ok, why := true, "stores the given handler, or the default closure when it is nil"
		var def *ssa.Function
		c.explore(rule, fn, core.Opts{}, func(p *core.Path) {
			if p.End != core.EndReturn {
				return
			}
			var stored *core.Term
			for i := range p.Events {
				if ev := &p.Events[i]; ev.Kind == core.EvStore && isFieldAddr(ev.Addr, s.field) {
					stored = ev.Val
				}
			}
			nilT := hasLit(p, len(p.Lits), true, func(t *core.Term) bool { return isEqNil(t, func(y *core.Term) bool { return y.Kind == core.KParam }) })
			switch {
			case stored == nil:
				ok, why = false, "setter does not store the handler"
			case nilT:
				if stored.Kind != core.KClosure && stored.Kind != core.KFunc {
					ok, why = false, "nil handler is not replaced by a default"
				} else {
					def = stored.Ref.(*ssa.Function)
				}
			default:
				if stored.Kind != core.KParam {
					ok, why = false, "a non-nil handler given by the application is not the one installed"
				}
			}
		})
		r.Check(rule, s.name, "installs-handler-or-default", fn.Pos(), ok, why)
		// field written only by its setter
		for _, st := range c.P.FieldStoreSites(s.field) {
			r.Check(rule, shortFn(st.Parent()), "writer-of-"+s.field.Name(), st.Pos(), st.Parent() == fn, "handler field may only be written by its setter")
		}
		if def == nil {
			r.Fail(rule, s.name, "default-handler", fn.Pos(), "no default handler closure found")
			continue
		}
		okD, whyD := true, ""
		c.explore(rule, def, core.Opts{}, func(p *core.Path) {
			if p.End != core.EndReturn || len(p.Results) != 1 {
				return
			}
			var wc []*core.Event
			for i := range p.Events {
				if callsStatic(&p.Events[i], rd.writeControl) {
					wc = append(wc, &p.Events[i])
				}
				if ev := &p.Events[i]; ev.Kind == core.EvCall && !ev.Inlined && !callsStatic(ev, rd.writeControl) && ev.Static != nil && c.P.InPkg(ev.Static) && ev.Static != fcm {
					okD, whyD = false, "default handler calls "+shortFn(ev.Static)
				}
			}
			if !p.Results[0].IsNil() {
				okD, whyD = false, "default handler returns a non-nil error"
			}
			for _, w := range wc {
				if len(w.Args) == 4 && !futureDeadline(w.Args[3]) {
					okD, whyD = false, "default handler replies with the deadline "+w.Args[3].String()+", which is not now + a positive constant (a deadline that may already have passed sends nothing)"
				}
			}
			switch s.field {
			case rd.handlePong:
				if len(wc) != 0 {
					okD, whyD = false, "default pong handler writes to the connection"
				} else if whyD == "" {
					whyD = "default pong handler does nothing and returns nil"
				}
			case rd.handlePing:
				if len(wc) != 1 {
					okD, whyD = false, "default ping handler does not send exactly one control frame"
					return
				}
				if v, isC := wc[0].Args[1].Int64(); !isC || v != pongMsg {
					okD, whyD = false, "default ping handler does not answer with a pong"
				}
				d := strip(wc[0].Args[2])
				if !(d.Kind == core.KParam && d.Ref == def.Params[0]) {
					okD, whyD = false, "default ping handler does not echo the ping's payload"
				} else if whyD == "" {
					whyD = "WriteControl(PongMessage, []byte(appData), ...) and nil"
				}
			case rd.handleClose:
				if len(wc) != 1 {
					okD, whyD = false, "default close handler does not send exactly one control frame"
					return
				}
				if v, isC := wc[0].Args[1].Int64(); !isC || v != closeMsg {
					okD, whyD = false, "default close handler does not answer with a close frame"
				}
				d := wc[0].Args[2]
				if !(d.Kind == core.KCall && d.Ref == interface{}(fcm) && d.Args[0].Kind == core.KParam && d.Args[0].Ref == def.Params[0]) {
					okD, whyD = false, "default close handler does not echo the received status code"
				} else if whyD == "" {
					whyD = "WriteControl(CloseMessage, FormatCloseMessage(code, \"\"), ...) and nil"
				}
			}
		})
		r.Check(rule, shortFn(def), "default-handler-behaviour", def.Pos(), okD, whyD)
	}
	// newConn calls the three setters with nil
	{
		nc := c.fn("newConn")
		seen := map[string]bool{}
		c.explore(rule, nc, core.Opts{}, func(p *core.Path) {
			if p.End != core.EndReturn {
				return
			}
			for i := range p.Events {
				ev := &p.Events[i]
				if ev.Kind == core.EvCall && ev.Static != nil && len(ev.Args) == 2 && ev.Args[1].IsNil() {
					seen[shortFn(ev.Static)] = true
				}
			}
		})
		for _, n := range []string{"(*Conn).SetPingHandler", "(*Conn).SetPongHandler", "(*Conn).SetCloseHandler"} {
			r.Check(rule, "newConn", "installs-default-via-"+n, nc.Pos(), seen[n], "newConn must install the default handler by calling the setter with nil")
		}
	}
	// FormatCloseMessage(code, ""): 2-byte big-endian code
	{
		ok, why := true, "FormatCloseMessage puts uint16(closeCode) big-endian first and copies the text after it; 1005 yields an empty payload"
		n := 0
		c.explore(rule, fcm, core.Opts{}, func(p *core.Path) {
			if p.End != core.EndReturn {
				return
			}
			n++
			put := false
			for i := range p.Events {
				ev := &p.Events[i]
				if ev.Kind == core.EvCall && ev.Static != nil && extName(ev.Static) == "(encoding/binary.bigEndian).PutUint16" {
					v := strip(ev.Args[len(ev.Args)-1])
					resBase, _ := appendChain(p.Results[0])
					if v.Kind == core.KParam && v.Ref == fcm.Params[0] && (ev.Args[len(ev.Args)-2] == p.Results[0] || ev.Args[len(ev.Args)-2] == resBase) {
						put = true
					}
				}
			}
			// or binary.BigEndian.AppendUint16(empty, uint16(code)) followed by appends of the text
			if !put {
				if base, _ := appendChain(p.Results[0]); base.Kind == core.KCall {
					if f, isF := base.Ref.(*ssa.Function); isF && extName(f) == "(encoding/binary.bigEndian).AppendUint16" && len(base.Args) >= 2 {
						v := strip(base.Args[len(base.Args)-1])
						dst := base.Args[len(base.Args)-2]
						if l, isC := p.X.Len(dst).Int64(); isC && l == 0 && v.Kind == core.KParam && v.Ref == fcm.Params[0] {
							put = true
						}
					}
				}
			}
			// or the two bytes stored individually: buf[0] = byte(code >> 8), buf[1] = byte(code) — decided by
			// evaluating the stored terms for sample codes covering both bytes
			if !put {
				b0 := storedAt(p, p.Results[0], p.X.T.Int(0), len(p.Events))
				b1 := storedAt(p, p.Results[0], p.X.T.Int(1), len(p.Events))
				if b0 != nil && b1 != nil {
					put = true
					for _, code := range []int64{0, 1, 255, 256, 1000, 1002, 1009, 4999, 0x1234, 0xfedc, 65535} {
						leaf := func(t *core.Term) (constant.Value, bool) {
							if t.Kind == core.KParam && t.Ref == fcm.Params[0] {
								return constant.MakeInt64(code), true
							}
							return nil, false
						}
						v0, ok0 := p.X.Eval(b0, leaf)
						v1, ok1 := p.X.Eval(b1, leaf)
						g0, _ := constant.Int64Val(v0)
						g1, _ := constant.Int64Val(v1)
						if !ok0 || !ok1 || g0&0xff != (code>>8)&0xff || g1&0xff != code&0xff {
							put = false
						}
					}
				}
			}
			is1005 := hasLit(p, len(p.Lits), true, func(t *core.Term) bool {
				return isEqConst(t, 1005, func(x *core.Term) bool { return x.Kind == core.KParam })
			})
			if !put && !is1005 {
				ok, why = false, "FormatCloseMessage does not encode the status code big-endian at the start of the payload"
			}
		})
		r.Check(rule, shortFn(fcm), "status-code-encoding", fcm.Pos(), ok && n > 0, why)
	}
}

// c08readBuffer: (*Conn).read(n) peeks n <= 125 bytes, which fails with
// bufio.ErrBufferFull on a smaller reader: every reader a Conn can get must be
// at least maxControlFramePayloadSize bytes.
func c08readBuffer(c *Ctx, rd *reader) { c08readBufferAs(c, rd, "C08.read-buffer") }

func c08readBufferAs(c *Ctx, rd *reader, rule string) {
	r := c.R
	nc := c.fn("newConn")
	max := c.P.ConstInt("maxControlFramePayloadSize")
	ok, why := true, "newConn allocates bufio.NewReaderSize(conn, n) with n >= maxControlFramePayloadSize, or keeps the caller's reader"
	n := 0
	c.explore(rule, nc, core.Opts{}, func(p *core.Path) {
		if p.End != core.EndReturn {
			return
		}
		for i := range p.Events {
			ev := &p.Events[i]
			if ev.Kind != core.EvStore || !isFieldAddr(ev.Addr, rd.br) {
				continue
			}
			n++
			v := strip(ev.Val)
			switch {
			case v.Kind == core.KParam:
			case v.Kind == core.KCall && len(v.Args) == 2:
				f, isF := v.Ref.(*ssa.Function)
				if !isF || extName(f) != "bufio.NewReaderSize" {
					ok, why = false, "newConn installs a reader that is neither the caller's nor bufio.NewReaderSize(...): "+v.String()
					break
				}
				if lo, has := p.X.Lower(v.Args[1]); !has || lo < max {
					ok, why = false, "newConn allocates a read buffer ("+v.Args[1].String()+") not known to hold maxControlFramePayloadSize bytes: a large control frame cannot be peeked and the read fails with bufio.ErrBufferFull"
				}
			default:
				ok, why = false, "newConn installs an unrecognised reader "+v.String()
			}
		}
	})
	r.Check(rule, shortFn(nc), "allocated-reader-holds-a-control-frame", nc.Pos(), ok && n > 0, why)
	// callers that hand newConn a reader
	for _, g := range c.P.FuncList {
		if !callsDirectly(g, nc) {
			continue
		}
		okC, whyC := true, "the reader handed to newConn is nil or known to hold maxControlFramePayloadSize bytes"
		nCalls := 0
		var site ssa.Instruction
		for _, b := range g.Blocks {
			for _, in := range b.Instrs {
				if ci, isC := in.(ssa.CallInstruction); isC && ci.Common().StaticCallee() == nc {
					site = in
				}
			}
		}
		o := core.Opts{NonNilOnNilErr: true, MaxPaths: 400000, Stop: func(x *core.Explorer, ev *core.Event) bool { return ev.Instr == site }}
		if shortFn(g) == "(*Dialer).DialContext" {
			if starts := c.acquireSites(g); len(starts) == 1 {
				o.Start = starts[0]
			}
		}
		o.Observe = func(x *core.Explorer, ev *core.Event) {
			if ev.Instr != site || len(ev.Args) != 7 {
				return
			}
			nCalls++
			br := ev.Args[5]
			if br.IsNil() {
				return
			}
			// the path must have measured this reader: Size() result with a known lower bound
			good := false
			for _, pe := range x.Prefix() {
				if pe.Kind == core.EvCall && pe.Static != nil && extName(pe.Static) == "(*bufio.Reader).Size" && len(pe.Args) == 1 && pe.Args[0] == br {
					if lo, has := x.Lower(pe.Result); has && lo >= max {
						good = true
					}
				}
			}
			if !good {
				okC, whyC = false, shortFn(g)+" hands newConn the reader "+br.String()+" without knowing its size to be >= maxControlFramePayloadSize (a small hijacked reader cannot hold a 125-byte control frame)"
			}
		}
		c.explore(rule, g, o, func(p *core.Path) {})
		r.Check(rule, shortFn(g), "caller-reader-holds-a-control-frame", g.Pos(), okC && nCalls > 0, whyC)
	}
}
