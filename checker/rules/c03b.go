package rules

import (
	"golang.org/x/tools/go/ssa"
	"go/token"
	"go/types"

	"wsverif/core"
)

// readUnmask: messageReader.Read unmasks exactly what it read, iff server.
func (rd *reader) readUnmask(rule string) {
	c, r := rd.c, rd.c.R
	ok, why := true, "on every path the n bytes just read are unmasked with readMaskKey at the carried readMaskPos iff isServer, and the new position is stored"
	nReads := 0
	opts := core.Opts{Unroll: 0, RecordLoads: true, Inline: rd.inl()}
	c.explore(rule, rd.mrRead, opts, func(p *core.Path) {
		if p.End != core.EndReturn {
			return
		}
		for i := range p.Events {
			ev := &p.Events[i]
			if ev.Kind != core.EvCall || ev.Static == nil || extName(ev.Static) != "(*bufio.Reader).Read" || !rd.usesBr(ev) {
				continue
			}
			nReads++
			buf := ev.Args[len(ev.Args)-1]
			n := p.X.ExtractOf(ev.Result, 0, nil)
			var mask *core.Event
			maskIdx := -1
			for k := i + 1; k < len(p.Events); k++ {
				if callsStatic(&p.Events[k], rd.maskBytes) {
					mask, maskIdx = &p.Events[k], k
				}
			}
			srvT := hasLit(p, len(p.Lits), true, func(t *core.Term) bool { _, y := fieldLoad(t, rd.isServer); return y })
			srvF := hasLit(p, len(p.Lits), false, func(t *core.Term) bool { _, y := fieldLoad(t, rd.isServer); return y })
			switch {
			case srvT:
				if mask == nil {
					ok, why = false, "server path returning at "+c.P.Pos(p.Ret.Pos())+" hands bytes read from the transport to the application without unmasking them"
					continue
				}
				key, pos, sl := mask.Args[0], mask.Args[1], mask.Args[2]
				if _, isK := fieldLoad(key, rd.readMaskKey); !isK {
					ok, why = false, "payload is unmasked with something other than Conn.readMaskKey"
				}
				if _, isP := fieldLoad(pos, rd.readMaskPos); !isP {
					ok, why = false, "payload is unmasked from key position "+pos.String()+" instead of the carried Conn.readMaskPos"
				}
				if !firstNOf(p.X, sl, buf, n) {
					ok, why = false, "the unmasked range is not exactly the n bytes just read (b[:n])"
				}
				stored := false
				for k := maskIdx + 1; k < len(p.Events); k++ {
					if e := &p.Events[k]; e.Kind == core.EvStore && isFieldAddr(e.Addr, rd.readMaskPos) && e.Val == mask.Result {
						stored = true
					}
				}
				if !stored {
					ok, why = false, "the key position returned by maskBytes is not stored back to Conn.readMaskPos"
				}
			case srvF:
				if mask != nil {
					ok, why = false, "client path unmasks server frames"
				}
			default:
				ok, why = false, "a path that read payload bytes does not branch on Conn.isServer"
			}
		}
	})
	if nReads == 0 {
		ok, why = false, "no transport read found in messageReader.Read"
	}
	r.Check(rule, shortFn(rd.mrRead), "unmask-what-was-read", rd.mrRead.Pos(), ok, why)
}

// remainingRule: reads are bounded by and subtracted from readRemaining.
func (rd *reader) remainingRule(rule string) {
	c, r := rd.c, rd.c.R
	ok, why := true, "Read asks for at most readRemaining bytes and stores readRemaining - n"
	nReads := 0
	c.explore(rule, rd.mrRead, core.Opts{Unroll: 0, RecordLoads: true, Inline: rd.inl()}, func(p *core.Path) {
		if p.End != core.EndReturn {
			return
		}
		for i := range p.Events {
			ev := &p.Events[i]
			if ev.Kind != core.EvCall || ev.Static == nil || extName(ev.Static) != "(*bufio.Reader).Read" || !rd.usesBr(ev) {
				continue
			}
			nReads++
			buf := ev.Args[len(ev.Args)-1]
			n := p.X.ExtractOf(ev.Result, 0, nil)
			var rem *core.Term
			for k := 0; k < i; k++ {
				if e := &p.Events[k]; (e.Kind == core.EvLoad || e.Kind == core.EvStore) && isFieldAddr(e.Addr, rd.readRemaining) {
					rem = e.Val
				}
			}
			if rem == nil {
				ok, why = false, "transport read without consulting Conn.readRemaining"
				continue
			}
			if !knowsGe(p, ev.NLits, 1, isW(p.X, rem)) {
				ok, why = false, "payload read at "+c.P.Pos(ev.Instr.Pos())+" without [readRemaining > 0]"
			}
			bounded := (buf.Kind == core.KSlice && buf.Args[1].Kind == core.KNone && buf.Args[2] == rem) ||
				hasLit(p, ev.NLits, false, func(t *core.Term) bool {
					return t.Kind == core.KLt && t.Args[0] == rem && strip(t.Args[1]).Kind == core.KLen && strip(t.Args[1]).Args[0] == buf
				})
			if !bounded {
				ok, why = false, "the buffer handed to the transport at "+c.P.Pos(ev.Instr.Pos())+" is not truncated to Conn.readRemaining (bytes of the next frame would be delivered as payload)"
			}
			// setReadRemaining(rem - int64(n)) follows
			want := p.X.Bin(token.SUB, rem, p.X.Conv(n, rem.Type), rem.Type)
			found := false
			for k := i + 1; k < len(p.Events); k++ {
				if e := &p.Events[k]; callsStatic(e, rd.setRem) && len(e.Args) == 2 && e.Args[1] == want {
					found = true
				}
			}
			if !found {
				ok, why = false, "after reading n bytes the remaining count is not updated to readRemaining - n"
			}
		}
	})
	r.Check(rule, shortFn(rd.mrRead), "read-bounded-and-subtracted", rd.mrRead.Pos(), ok && nReads > 0, why)
	// step 1 of advanceFrame: skip exactly readRemaining
	ok2, why2 := true, "the rest of the previous frame is skipped with CopyN(.., br, readRemaining) under [readRemaining > 0] before the next header is read"
	nSkip := 0
	c.explore(rule, rd.advance, core.Opts{Inline: rd.inl(), Unroll: 0, RecordLoads: true, Stop: func(x *core.Explorer, ev *core.Event) bool { return callsStatic(ev, rd.read) }}, func(p *core.Path) {
		var skip *core.Event
		discarded := false
		for i := range p.Events {
			ev := &p.Events[i]
			if ev.Kind == core.EvCall && ev.Static != nil && extName(ev.Static) == "io.CopyN" {
				skip = ev
			}
			// br.Discard(int(readRemaining)) where the path knows the bytes are already buffered (Discard then cannot fail)
			if ev.Kind == core.EvCall && ev.Static != nil && extName(ev.Static) == "(*bufio.Reader).Discard" && len(ev.Args) == 2 && rd.usesBr(ev) {
				if _, isR := fieldLoad(strip(ev.Args[1]), rd.readRemaining); isR {
					buffered := hasLit(p, ev.NLits, false, func(t *core.Term) bool {
						if t.Kind != core.KLt {
							return false
						}
						_, isRem := fieldLoad(strip(t.Args[1]), rd.readRemaining)
						b := strip(t.Args[0])
						f, isF := b.Ref.(*ssa.Function)
						return isRem && b.Kind == core.KCall && isF && extName(f) == "(*bufio.Reader).Buffered"
					})
					if buffered {
						discarded = true
					}
				}
			}
		}
		if discarded {
			nSkip++
			return
		}
		remPos := knowsGe(p, len(p.Lits), 1, func(y *core.Term) bool { _, isR := fieldLoad(y, rd.readRemaining); return isR })
		if p.End == core.EndStop && remPos && skip == nil {
			ok2, why2 = false, "the next header is read although bytes of the previous frame remain unread"
		}
		if skip != nil {
			nSkip++
			if _, isR := fieldLoad(skip.Args[2], rd.readRemaining); !isR || !rd.usesBr(skip) {
				ok2, why2 = false, "the skip does not discard exactly Conn.readRemaining bytes from Conn.br"
			}
		}
	})
	r.Check(rule, shortFn(rd.advance), "skip-previous-frame", rd.advance.Pos(), ok2 && nSkip > 0, why2)
}

// skipLoop: NextReader only returns readers for text/binary frames.
func (rd *reader) skipLoop(rule string) {
	c, r := rd.c, rd.c.R
	text, bin := c.P.ConstInt("TextMessage"), c.P.ConstInt("BinaryMessage")
	ok, why := true, "a reader is returned only under [frameType == TextMessage || frameType == BinaryMessage] with a fresh messageReader installed"
	nRet := 0
	isDataFn := c.fn("isData")
	c.explore(rule, rd.nextReader, core.Opts{Unroll: 0, RecordLoads: true, Inline: rd.inl(), Pure: c.pureSet("isControl", "isData")}, func(p *core.Path) {
		if p.End != core.EndReturn || len(p.Results) != 3 || p.Results[1].IsNil() {
			return
		}
		nRet++
		var adv *core.Event
		for i := range p.Events {
			if callsStatic(&p.Events[i], rd.advance) {
				adv = &p.Events[i]
			}
		}
		if adv == nil {
			ok, why = false, "NextReader returns a reader without having parsed a frame"
			return
		}
		ft := p.X.ExtractOf(adv.Result, 0, nil)
		isData := hasLit(p, len(p.Lits), true, func(t *core.Term) bool { return isEqConst(t, text, func(x *core.Term) bool { return x == ft }) }) ||
			hasLit(p, len(p.Lits), true, func(t *core.Term) bool { return isEqConst(t, bin, func(x *core.Term) bool { return x == ft }) }) ||
			hasLit(p, len(p.Lits), true, func(t *core.Term) bool {
				return t.Kind == core.KApp && t.Ref == interface{}(isDataFn) && len(t.Args) == 1 && t.Args[0] == ft
			})
		if !isData {
			ok, why = false, "NextReader can return a reader for a frame that is neither text nor binary (return at "+c.P.Pos(p.Ret.Pos())+")"
		}
		if p.Results[0] != ft {
			ok, why = false, "NextReader reports a message type other than the frame's opcode"
		}
		// fresh messageReader whose conn is the receiver, stored after the frame was parsed
		fresh := false
		for i := range p.Events {
			ev := &p.Events[i]
			if ev.Kind == core.EvStore && isFieldAddr(ev.Addr, rd.msgReader) && ev.Val.Kind == core.KAlloc {
				fresh = true
			}
		}
		if !fresh {
			ok, why = false, "NextReader returns a reader without installing a fresh messageReader (stale readers could keep reading)"
		}
	})
	r.Check(rule, shortFn(rd.nextReader), "reader-only-for-data-frames", rd.nextReader.Pos(), ok && nRet > 0, why)
	// stale test guards every access in messageReader.Read
	ok2, why2 := true, "every transport access and every advanceFrame call of messageReader.Read carries [c.messageReader == r]"
	c.explore(rule, rd.mrRead, core.Opts{Unroll: 0, Inline: rd.inl()}, func(p *core.Path) {
		for i := range p.Events {
			ev := &p.Events[i]
			if !(rd.usesBr(ev) || callsStatic(ev, rd.advance)) {
				continue
			}
			if !hasLit(p, ev.NLits, true, func(t *core.Term) bool {
				if t.Kind != core.KEq {
					return false
				}
				_, a := fieldLoad(t.Args[0], rd.msgReader)
				_, b := fieldLoad(t.Args[1], rd.msgReader)
				return a || b
			}) {
				ok2, why2 = false, "a stale message reader can still consume the connection (access at "+c.P.Pos(ev.Instr.Pos())+")"
			}
		}
	})
	r.Check(rule, shortFn(rd.mrRead), "stale-reader-guard", rd.mrRead.Pos(), ok2, why2)
}

// inflateWrap: the decompressor is installed iff readDecompress.
func (rd *reader) inflateWrap(rule string) {
	c, r := rd.c, rd.c.R
	ok, why := true, "NextReader wraps the message reader with newDecompressionReader iff Conn.readDecompress"
	n := 0
	c.explore(rule, rd.nextReader, core.Opts{Unroll: 0, RecordLoads: true, Inline: rd.inl()}, func(p *core.Path) {
		if p.End != core.EndReturn || len(p.Results) != 3 || p.Results[1].IsNil() {
			return
		}
		n++
		wrapped := false
		for i := range p.Events {
			ev := &p.Events[i]
			if ev.Kind == core.EvCall && ev.FnVal != nil {
				if _, isN := fieldLoad(ev.FnVal, rd.ndr); isN {
					wrapped = true
					if p.Results[1] != ev.Result {
						ok, why = false, "the decompressing reader is created but not the one returned"
					}
				}
			}
		}
		decT := hasLit(p, len(p.Lits), true, func(t *core.Term) bool { _, y := fieldLoad(t, rd.readDecompress); return y })
		decF := hasLit(p, len(p.Lits), false, func(t *core.Term) bool { _, y := fieldLoad(t, rd.readDecompress); return y })
		if wrapped != decT || (!wrapped && !decF) {
			ok, why = false, "decompression wrapper and Conn.readDecompress disagree on the path returning at "+c.P.Pos(p.Ret.Pos())
		}
	})
	r.Check(rule, shortFn(rd.nextReader), "wrap-iff-readDecompress", rd.nextReader.Pos(), ok && n >= 2, why)
}

// firstNOf: sl denotes exactly the first n bytes of the storage that buf
// denotes (buf itself may be a sub-slice b[lo:hi] of some base; nested slices
// are normalised by the engine to one level).
func firstNOf(x *core.Explorer, sl, buf, n *core.Term) bool {
	if sl.Kind != core.KSlice {
		return false
	}
	base, lo := buf, x.T.None()
	if buf.Kind == core.KSlice {
		base, lo = buf.Args[0], buf.Args[1]
	}
	if sl.Args[0] != base {
		return sl.Args[0] == buf && sl.Args[1].Kind == core.KNone && sl.Args[2] == n
	}
	if lo.Kind == core.KNone {
		return sl.Args[1].Kind == core.KNone && sl.Args[2] == n
	}
	return sl.Args[1] == lo && sl.Args[2] == x.Bin(token.ADD, x.StripWiden(lo), x.StripWiden(n), types.Typ[types.Int])
}

// acceptsEveryLength: setReadRemaining refuses exactly the negative values: a
// conformant frame of any length up to 2^63-1 is accepted (no narrower
// integer type or platform limit leaks into the protocol).
func (rd *reader) acceptsEveryLength(rule string) {
	c := rd.c
	fn := rd.setRem
	ok, why := true, "setReadRemaining returns an error only for n < 0 and stores n otherwise"
	n := 0
	c.explore(rule, fn, core.Opts{RecordLoads: true}, func(p *core.Path) {
		if p.End != core.EndReturn || len(p.Results) != 1 {
			return
		}
		n++
		prm := p.X.ParamTerm(fn.Params[1])
		neg := knowsLt(p, len(p.Lits), 0, is(prm))
		if !p.Results[0].IsNil() && !neg {
			ok, why = false, "setReadRemaining refuses a length at "+c.P.Pos(p.Ret.Pos())+" without knowing it to be negative: conformant frames (for example of 2 GiB or more) are rejected"
		}
		if p.Results[0].IsNil() {
			stored := false
			for i := range p.Events {
				if ev := &p.Events[i]; ev.Kind == core.EvStore && isFieldAddr(ev.Addr, rd.readRemaining) && ev.Val == prm {
					stored = true
				}
			}
			if !stored {
				ok, why = false, "setReadRemaining accepts a length without storing it"
			}
		}
	})
	c.R.Check(rule, shortFn(fn), "refuses-exactly-negative-lengths", fn.Pos(), ok && n >= 2, why)
}
