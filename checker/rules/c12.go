package rules

import (
	"fmt"
	"net/textproto"
	"strings"

	"golang.org/x/tools/go/ssa"

	"wsverif/core"
)

func init() {
	register("C12", "Decides the server handshake's validation chain (every path that hijacks carries all six checks with the right constants; each failing check replies with the required status), the accept-key data flow and digest construction, subprotocol selection from offer ∩ supported, the agreement of compression announcement and enablement, the shape of the 101 response, and a taint rule that no application-supplied value reaches the response bytes without control-byte scrubbing. The ⇐ direction (every valid handshake succeeds) and the token grammar are not decided.", c12)
}

type upgA struct {
	fullCbs                                  []func(*core.Path)
	afterCbs                                 []func()
	c                                        *Ctx
	upgrade, retErr, tlcv, validKey, accept  *ssa.Function
	selectSub, sameOrigin, parseExt, newConn *ssa.Function
}

func newUpgA(c *Ctx) *upgA {
	return &upgA{c: c, upgrade: c.fn("(*Upgrader).Upgrade"), retErr: c.fn("(*Upgrader).returnError"), tlcv: c.fn("tokenListContainsValue"),
		validKey: c.fn("isValidChallengeKey"), accept: c.fn("computeAcceptKey"), selectSub: c.fn("(*Upgrader).selectSubprotocol"),
		sameOrigin: c.fn("checkSameOrigin"), parseExt: c.fn("parseExtensions"), newConn: c.fn("newConn")}
}

func isHijackEv(ev *core.Event) bool {
	return ev.Kind == core.EvCall && ev.Static != nil && extName(ev.Static) == "(*net/http.ResponseController).Hijack"
}

// guard names in the order the property lists them
var upgGuards = []string{"connection-upgrade", "upgrade-websocket", "method-get", "version-13", "origin", "challenge-key"}

// guardOf classifies a literal term of Upgrade as one of the handshake guards.
func (u *upgA) guardOf(t *core.Term) string {
	tl := func(name, val string) bool {
		if !(t.Kind == core.KCall && t.Ref == interface{}(u.tlcv) && len(t.Args) == 3) {
			return false
		}
		n, ok1 := t.Args[1].StrVal()
		v, ok2 := t.Args[2].StrVal()
		return ok1 && ok2 && textproto.CanonicalMIMEHeaderKey(n) == name && n == textproto.CanonicalMIMEHeaderKey(n) && v == val && isRequestHeader(t.Args[0])
	}
	switch {
	case tl("Connection", "upgrade"):
		return "connection-upgrade"
	case tl("Upgrade", "websocket"):
		return "upgrade-websocket"
	case tl("Sec-Websocket-Version", "13"):
		return "version-13"
	case t.Kind == core.KEq:
		if s, ok := t.Args[1].StrVal(); ok && s == "GET" {
			if t.Args[0].Kind == core.KLoad && t.Args[0].Args[0].Kind == core.KFieldAddr && t.Args[0].Args[0].Var.Name() == "Method" {
				return "method-get"
			}
		}
	case t.Kind == core.KCall && t.Ref == interface{}(u.validKey):
		return "challenge-key"
	case t.Kind == core.KCall && t.Ref == interface{}(u.sameOrigin):
		return "origin"
	case t.Kind == core.KCall:
		if fv, ok := t.Ref.(*core.Term); ok {
			if fv.Kind == core.KLoad && fv.Args[0].Kind == core.KFieldAddr && fv.Args[0].Var.Name() == "CheckOrigin" {
				return "origin"
			}
		}
	}
	return ""
}

// isRequestHeader: term is r.Header of an *http.Request parameter.
func isRequestHeader(t *core.Term) bool {
	return t.Kind == core.KLoad && t.Args[0].Kind == core.KFieldAddr && t.Args[0].Var.Name() == "Header" && t.Args[0].Args[0].Kind == core.KParam
}

func c12(c *Ctx) {
	r := c.R
	u := newUpgA(c)
	r.Rule("C12.chain", "every path of Upgrade that reaches Hijack carries, as true literals: tokenListContainsValue(r.Header, \"Connection\", \"upgrade\"), (.., \"Upgrade\", \"websocket\"), r.Method == \"GET\", (.., \"Sec-Websocket-Version\", \"13\"), the origin check (Upgrader.CheckOrigin, or checkSameOrigin when it is nil) and isValidChallengeKey(r.Header.Get(\"Sec-Websocket-Key\")); every early return replies through returnError with 403 for the origin check, 426 plus an Upgrade: websocket header for the missing upgrade token, and a status >= 400 otherwise; a failed Hijack replies 500")
	r.Rule("C12.accept", "the value after 'Sec-WebSocket-Accept: ' is computeAcceptKey(k) with k the key validated by isValidChallengeKey; computeAcceptKey = base64.StdEncoding(sha1(k || keyGUID)); keyGUID is the RFC 6455 GUID and is never modified; isValidChallengeKey returns true only for base64-std input decoding to 16 bytes")
	r.Rule("C12.subprotocol", "selectSubprotocol, Subprotocols != nil: the result is an element of Subprotocols(r) that equals an element of Upgrader.Subprotocols; the responseHeader arm is reachable only when Subprotocols is nil and returns the application's value (recorded known finding: not checked against the offer)")
	r.Rule("C12.compress-announce", "the boolean that makes Upgrade append the permessage-deflate extension line is the one that installs the compression functions, and it is true only under Upgrader.EnableCompression and an offer whose extension token is permessage-deflate")
	r.Rule("C12.no-split", "every operand appended to the 101 response is a constant, the accept key, a response-header name, or a single byte known to be >= 32 (control-byte scrubbing); nothing derived from responseHeader values or from the request reaches the response unscrubbed")
	r.Rule("C12.status-line", "the response starts with 'HTTP/1.1 101 ', contains 'Upgrade: websocket' and 'Connection: Upgrade' lines, every constant line ends with CRLF and the buffer is terminated by an empty line before the single Write")
	r.Rule("C12.origin-default", "the origin policy applied when Upgrader.CheckOrigin is nil accepts only an absent Origin or a host equal to the request's Host under ASCII-only case folding (same rules as C13.same-origin and C13.ascii-only)")
	r.Rule("C12.pre-hijack", "never hijack after a failed validation; returnError returns (nil, HandshakeError)")
	r.Assume("net/http canonicalises request header names (Header.Get / map keys in canonical MIME form)")
	r.Table("response header NAMES (map keys of responseHeader) are application-chosen identifiers outside the statement's 'header values'; appended unscrubbed (one table entry)")

	u.chain()
	c13sameOrigin(c, u, "C12.origin-default")
	c13fold(c, "C12.origin-default")
	c16prehijack(c, "C12.pre-hijack")
	u.acceptKey()
	u.subprotocol()
	u.compressAnnounce("C12.compress-announce")
	u.noSplit()
	r.Rule("C12.stateless", "the decision about one request depends on that request (and the Upgrader's configuration) alone: no package-level variable is written after initialisation, so no cache or counter carries anything from one handshake to the next (same rule as C11.globals)")
	packageStateless(c, "C12.stateless")
	r.Rule("C12.token-list", "tokenListContainsValue: every token is scanned after skipSpace, the comma test is made after skipSpace, and true is returned only when equalASCIIFold(scanned token, wanted value) held (necessary conditions for 'case-insensitively, anywhere in comma-separated lists with optional whitespace'; the full grammar is not decided)")
	u.tokenListOWS("C12.token-list")
	r.Rule("C12.quoted-pairs", "nextTokenOrQuoted (extension parameter values): the byte following a backslash recognised inside a quoted string is never inspected (necessary condition for quoted text not being parsed as further extension offers)")
	quotedPairs(c, "C12.quoted-pairs")
	u.runFull("C12.full")
}

// full registers a callback for the single whole-function exploration of Upgrade; after registers the verdict code.
func (u *upgA) full(cb func(*core.Path)) { u.fullCbs = append(u.fullCbs, cb) }
func (u *upgA) after(f func())           { u.afterCbs = append(u.afterCbs, f) }

func (u *upgA) runFull(rule string) {
	if len(u.fullCbs) > 0 {
		u.c.explore(rule, u.upgrade, core.Opts{Unroll: 0, MaxPaths: 400000}, func(p *core.Path) {
			for _, cb := range u.fullCbs {
				cb(p)
			}
		})
	}
	for _, f := range u.afterCbs {
		f()
	}
	u.fullCbs, u.afterCbs = nil, nil
}

// chain: guard coverage before Hijack and reply statuses.
func (u *upgA) chain() { u.chainRule("C12.chain", upgGuards, true) }

// chainOnly checks a single guard under another rule name (shared with C13).
func (u *upgA) chainOnly(rule, guard string) { u.chainRule(rule, []string{guard}, false) }

func (u *upgA) chainRule(rule string, guards []string, extras bool) {
	c, r := u.c, u.c.R
	missing := map[string]string{}
	statusBad := map[string]string{}
	seenFail := map[string]bool{}
	nHij := 0
	okHijFail, whyHijFail := true, "a failed Hijack replies with 500 through returnError"
	nHijFail := 0
	afterHijack := func(x *core.Explorer, ev *core.Event) bool {
		// stop at the first event after the hijack error test: newConn or any later call is far enough
		return callsStatic(ev, u.newConn) || (ev.Kind == core.EvDefer)
	}
	c.explore(rule, u.upgrade, core.Opts{Unroll: 0, Stop: afterHijack}, func(p *core.Path) {
		hij := -1
		for i := range p.Events {
			if isHijackEv(&p.Events[i]) {
				hij = i
			}
		}
		if hij >= 0 {
			nHij++
			have := map[string]bool{}
			for _, l := range p.Lits[:p.Events[hij].NLits] {
				if g := u.guardOf(l.T); g != "" && l.Pos {
					have[g] = true
				}
			}
			for _, g := range upgGuards {
				if !have[g] {
					missing[g] = "a path reaches Hijack at " + c.P.Pos(p.Events[hij].Instr.Pos()) + " without the check"
				}
			}
			// the key validated is the request's Sec-Websocket-Key
			for _, l := range p.Lits[:p.Events[hij].NLits] {
				if u.guardOf(l.T) == "challenge-key" {
					k := l.T.Args[0]
					good := k.Kind == core.KCall && len(k.Args) == 2 && isRequestHeader(k.Args[0])
					if good {
						n, isS := k.Args[1].StrVal()
						good = isS && textproto.CanonicalMIMEHeaderKey(n) == "Sec-Websocket-Key"
					}
					// or the first element of r.Header["Sec-Websocket-Key"] (the key is in canonical form), taken under len > 0
					if sv, isS := k.StrVal(); !good && isS && sv == "" {
						good = true // the header is absent: what Get returns
					}
					if !good {
						kk := strip(k)
						if kk.Kind == core.KLoad && kk.Args[0].Kind == core.KIndexAddr {
							lk, idx := kk.Args[0].Args[0], kk.Args[0].Args[1]
							if z, isC := idx.Int64(); isC && z == 0 && lk.Kind == core.KLookup && isRequestHeader(lk.Args[0]) {
								if n, isS := lk.Args[1].StrVal(); isS && n == "Sec-Websocket-Key" {
									good = true
								}
							}
						}
					}
					if !good {
						missing["challenge-key"] = "the value validated by isValidChallengeKey is not r.Header.Get(\"Sec-Websocket-Key\")"
					}
				}
			}
			// failed hijack
			if p.End == core.EndReturn && len(p.Results) == 2 {
				e := p.Results[1]
				if e.Kind == core.KExtract && e.Args[0].Kind == core.KCall && e.Args[0].Ref == interface{}(u.retErr) {
					nHijFail++
					if st, isC := e.Args[0].Args[3].Int64(); !isC || st != 500 {
						okHijFail, whyHijFail = false, "a failed Hijack does not reply with status 500"
					}
				}
			}
			return
		}
		if p.End != core.EndReturn || len(p.Results) != 2 {
			return
		}
		e := p.Results[1]
		if !(e.Kind == core.KExtract && e.Args[0].Kind == core.KCall && e.Args[0].Ref == interface{}(u.retErr)) {
			return // reported by pre-hijack
		}
		call := e.Args[0]
		// which guard failed: the last guard literal with polarity false
		failed := ""
		for _, l := range p.Lits {
			if g := u.guardOf(l.T); g != "" && !l.Pos {
				failed = g
			}
		}
		if failed == "" {
			return // other refusals (application supplied Sec-WebSocket-Extensions)
		}
		seenFail[failed] = true
		st, isC := call.Args[3].Int64()
		if !isC || st < 400 || st > 599 {
			statusBad[failed] = "refusal replies with a status that is not an HTTP error"
			return
		}
		// precedence of the 426 reply: a request refused for its method, version, key or origin has passed the
		// Upgrade-token check (so a request lacking the token is told 426 + Upgrade: websocket, whatever else is
		// wrong with it beyond the Connection header, which is examined first)
		if failed != "connection-upgrade" && failed != "upgrade-websocket" {
			upOK := false
			for _, l := range p.Lits {
				if u.guardOf(l.T) == "upgrade-websocket" && l.Pos {
					upOK = true
				}
			}
			if !upOK {
				statusBad[failed] = fmt.Sprintf("a request is refused for '%s' (status %d) before its Upgrade header was examined: a request that also lacks the websocket token no longer gets 426 with an Upgrade header", failed, st)
			}
		}
		switch failed {
		case "origin":
			if st != 403 {
				statusBad[failed] = fmt.Sprintf("a request refused by the origin policy is answered with %d instead of 403", st)
			}
		case "upgrade-websocket":
			if st != 426 {
				statusBad[failed] = fmt.Sprintf("a missing 'websocket' upgrade token is answered with %d instead of 426", st)
			}
			set := false
			for i := range p.Events {
				ev := &p.Events[i]
				if ev.Kind == core.EvCall && ev.Static != nil && extName(ev.Static) == "(net/http.Header).Set" && len(ev.Args) == 3 {
					k, _ := ev.Args[1].StrVal()
					v, _ := ev.Args[2].StrVal()
					if k == "Upgrade" && v == "websocket" {
						set = true
					}
				}
			}
			if !set {
				statusBad[failed] = "the 426 reply does not carry an 'Upgrade: websocket' header"
			}
		}
	})
	for _, g := range guards {
		ok, why := true, "carried by every path to Hijack; refusal replies with the required status"
		if m := missing[g]; m != "" {
			ok, why = false, m
		} else if s := statusBad[g]; s != "" {
			ok, why = false, s
		} else if !seenFail[g] {
			ok, why = false, "no refusal path found for this check"
		}
		r.Check(rule, shortFn(u.upgrade), "guard:"+g, u.upgrade.Pos(), ok && nHij > 0, why)
	}
	if extras {
		r.Check(rule, shortFn(u.upgrade), "hijack-failure-500", u.upgrade.Pos(), okHijFail && nHijFail > 0, whyHijFail)
		// origin fallback: CheckOrigin nil -> checkSameOrigin (C13.fallback shares this)
		u.originFallback(rule)
	}
}

// originFallback: the function called for the origin check is Upgrader.CheckOrigin, or checkSameOrigin iff that field is nil.
func (u *upgA) originFallback(rule string) {
	c, r := u.c, u.c.R
	ok, why := true, "CheckOrigin == nil => checkSameOrigin(r) decides; otherwise the configured function"
	n := 0
	c.explore(rule, u.upgrade, core.Opts{Unroll: 0, Stop: func(x *core.Explorer, ev *core.Event) bool { return isHijackEv(ev) }}, func(p *core.Path) {
		for i := range p.Events {
			ev := &p.Events[i]
			isOrigin := callsStatic(ev, u.sameOrigin)
			if ev.FnVal != nil && ev.FnVal.Kind == core.KLoad && ev.FnVal.Args[0].Kind == core.KFieldAddr && ev.FnVal.Args[0].Var.Name() == "CheckOrigin" {
				isOrigin = true
			}
			if !isOrigin {
				continue
			}
			n++
			nilT := hasLit(p, ev.NLits, true, func(t *core.Term) bool {
				return isEqNil(t, func(y *core.Term) bool {
					return y.Kind == core.KLoad && y.Args[0].Kind == core.KFieldAddr && y.Args[0].Var.Name() == "CheckOrigin"
				})
			})
			if callsStatic(ev, u.sameOrigin) != nilT {
				ok, why = false, "the default same-origin policy is not the one applied when Upgrader.CheckOrigin is nil"
			}
			if len(ev.Args) != 1 || ev.Args[0].Kind != core.KParam {
				ok, why = false, "the origin check is not applied to the request being upgraded"
			}
		}
	})
	r.Check(rule, shortFn(u.upgrade), "origin-fallback-to-same-origin", u.upgrade.Pos(), ok && n >= 2, why)
}

// acceptKey: digest data flow and construction.
func (u *upgA) acceptKey() {
	c, r := u.c, u.c.R
	const rfcGUID = "258EAFA5-E914-47DA-95CA-C5AB0DC85B11"
	// (1) in Upgrade: the accept key appended is computed from the validated key and follows the Accept header name
	ok, why := true, "'Sec-WebSocket-Accept: ' is followed by computeAcceptKey(validated key)"
	n := 0
	u.full(func(p *core.Path) {
		if p.End != core.EndReturn || len(p.Results) != 2 || !p.Results[1].IsNil() {
			return
		}
		var validated *core.Term
		for _, l := range p.Lits {
			if u.guardOf(l.T) == "challenge-key" && l.Pos {
				validated = l.T.Args[0]
			}
		}
		found := false
		for i := range p.Events {
			ev := &p.Events[i]
			if ev.Kind == core.EvCall && ev.Builtin == "append" && len(ev.Args) == 2 {
				op := ev.Args[1]
				if op.Kind == core.KCall && op.Ref == interface{}(u.accept) {
					n++
					found = true
					if validated == nil || op.Args[0] != validated {
						ok, why = false, "the accept key is computed from a value other than the validated Sec-WebSocket-Key"
					}
					// what precedes it ends with the Accept header name
					base := ev.Args[0]
					if base.Kind == core.KAppend {
						s, isS := base.Args[1].StrVal()
						if !isS || !strings.HasSuffix(s, "Sec-WebSocket-Accept: ") {
							ok, why = false, "the accept key does not directly follow 'Sec-WebSocket-Accept: '"
						}
					} else {
						ok, why = false, "cannot see what precedes the accept key"
					}
				}
			}
		}
		if !found {
			ok, why = false, "a successful Upgrade path does not write an accept key"
		}
	})
	u.after(func() {
		r.Check("C12.accept", shortFn(u.upgrade), "accept-key-of-validated-key", u.upgrade.Pos(), ok && n > 0, why)
	})
	acceptDigest(c, "C12.accept")
	// (3) isValidChallengeKey
	{
		ok, why := true, "true only when base64.StdEncoding decodes the key without error to exactly 16 bytes"
		nT := 0
		c.explore("C12.accept", u.validKey, core.Opts{}, func(p *core.Path) {
			if p.End != core.EndReturn || len(p.Results) != 1 {
				return
			}
			res := p.Results[0]
			if b, isB := res.BoolVal(); isB && !b {
				return
			}
			nT++
			var dec *core.Event
			for i := range p.Events {
				ev := &p.Events[i]
				if ev.Kind == core.EvCall && ev.Static != nil && extName(ev.Static) == "(*encoding/base64.Encoding).DecodeString" {
					dec = ev
				}
			}
			if dec == nil {
				ok, why = false, "a key can be accepted without being base64-decoded"
				return
			}
			if e := dec.Args[0]; !(e.Kind == core.KLoad && e.Args[0].Kind == core.KGlobal && e.Args[0].Ref.(*ssa.Global).Name() == "StdEncoding") {
				ok, why = false, "the key is not decoded with base64.StdEncoding"
			}
			if dec.Args[1].Kind != core.KParam {
				ok, why = false, "the decoded value is not the key"
			}
			derr := p.X.ExtractOf(dec.Result, 1, nil)
			dval := p.X.ExtractOf(dec.Result, 0, nil)
			errNil := hasLit(p, len(p.Lits), true, func(t *core.Term) bool { return isEqNil(t, is(derr)) })
			len16 := func(t *core.Term) bool {
				return t.Kind == core.KEq && t.Args[0].Kind == core.KLen && t.Args[0].Args[0] == dval && func() bool { v, isC := t.Args[1].Int64(); return isC && v == 16 }()
			}
			lenOK := hasLit(p, len(p.Lits), true, len16) || len16(res)
			if !errNil {
				ok, why = false, "a key whose base64 decoding failed can be accepted"
			}
			if !lenOK {
				ok, why = false, "a key that does not decode to exactly 16 bytes can be accepted"
			}
		})
		r.Check("C12.accept", shortFn(u.validKey), "base64-of-16-bytes", u.validKey.Pos(), ok && nT > 0, why)
	}
}

// acceptDigest: computeAcceptKey = base64.StdEncoding(sha1(key || keyGUID)) with the RFC 6455 GUID (shared by C12 and C14).
func acceptDigest(c *Ctx, rule string) {
	r := c.R
	const rfcGUID = "258EAFA5-E914-47DA-95CA-C5AB0DC85B11"
	acc := c.fn("computeAcceptKey")
	// (2) computeAcceptKey shape
	{
		ok, why := true, "sha1.New; Write([]byte(key)); Write(keyGUID); base64.StdEncoding.EncodeToString(Sum(nil))"
		keyGUID := c.P.Global("keyGUID")
		nP := 0
		c.explore(rule, acc, core.Opts{}, func(p *core.Path) {
			if p.End != core.EndReturn {
				return
			}
			nP++
			var h *core.Term
			var writes []*core.Term
			var sum *core.Term
			var enc *core.Event
			for i := range p.Events {
				ev := &p.Events[i]
				if ev.Kind != core.EvCall {
					continue
				}
				switch {
				case ev.Static != nil && extName(ev.Static) == "crypto/sha1.New":
					h = ev.Result
				case ev.Static == nil && ev.Method != nil && ev.Method.Name() == "Write" && ev.Recv == h:
					writes = append(writes, ev.Args[0])
				case ev.Static == nil && ev.Method != nil && ev.Method.Name() == "Sum" && ev.Recv == h:
					sum = ev.Result
					if !ev.Args[0].IsNil() {
						ok, why = false, "Sum is given a prefix"
					}
				case ev.Static != nil && extName(ev.Static) == "(*encoding/base64.Encoding).EncodeToString":
					enc = ev
				case ev.Static != nil && strings.HasPrefix(extName(ev.Static), "crypto/") && extName(ev.Static) != "crypto/sha1.Sum":
					ok, why = false, "unexpected digest function "+extName(ev.Static)
				}
			}
			if h == nil && enc != nil {
				// one-shot form: sha1.Sum(append([]byte(key), keyGUID...)) then base64 of sum[:]
				var one *core.Event
				for i := range p.Events {
					ev := &p.Events[i]
					if ev.Kind == core.EvCall && ev.Static != nil && extName(ev.Static) == "crypto/sha1.Sum" {
						one = ev
					}
				}
				good := one != nil && one.Args[0].Kind == core.KAppend
				if good {
					// the digest input is key || keyGUID, assembled by appends onto []byte(key) or onto an empty buffer
					base, seq := appendChain(one.Args[0])
					switch b := strip(base); {
					case b.Kind == core.KParam:
						seq = append([]*core.Term{b}, seq...)
					case b.IsNil():
					case b.Kind == core.KMake && len(b.Args) > 0:
						if z, isC := b.Args[0].Int64(); !isC || z != 0 {
							good = false
						}
					default:
						good = false
					}
					if good {
						good = len(seq) == 2 && strip(seq[0]).Kind == core.KParam && seq[1].Kind == core.KLoad && seq[1].Args[0].Kind == core.KGlobal && seq[1].Args[0].Ref == interface{}(keyGUID)
					}
				}
				if good {
					// the digest array is stored in a local and sliced whole for the encoder
					src := enc.Args[1]
					good = src.Kind == core.KSlice && src.Args[0].Kind == core.KAlloc && src.Args[1].Kind == core.KNone && src.Args[2].Kind == core.KNone && p.Results[0] == enc.Result
					if good {
						stored := false
						for i := range p.Events {
							if ev := &p.Events[i]; ev.Kind == core.EvStore && ev.Addr == src.Args[0] && ev.Val == one.Result {
								stored = true
							}
						}
						good = stored
					}
				}
				if !good {
					ok, why = false, "computeAcceptKey is not base64(sha1(key || keyGUID))"
				}
				e := enc.Args[0]
				if !(e.Kind == core.KLoad && e.Args[0].Kind == core.KGlobal && e.Args[0].Ref.(*ssa.Global).Name() == "StdEncoding") {
					ok, why = false, "the digest is not encoded with base64.StdEncoding"
				}
				return
			}
			if h == nil || len(writes) != 2 || sum == nil || enc == nil {
				ok, why = false, "computeAcceptKey is not sha1 over exactly two writes followed by base64"
				return
			}
			if w0 := strip(writes[0]); !(w0.Kind == core.KParam) {
				ok, why = false, "the first digest input is not the challenge key"
			}
			if w1 := writes[1]; !(w1.Kind == core.KLoad && w1.Args[0].Kind == core.KGlobal && w1.Args[0].Ref == interface{}(keyGUID)) {
				ok, why = false, "the second digest input is not keyGUID"
			}
			if enc.Args[1] != sum || p.Results[0] != enc.Result {
				ok, why = false, "the result is not the base64 encoding of the digest"
			}
			e := enc.Args[0]
			if !(e.Kind == core.KLoad && e.Args[0].Kind == core.KGlobal && e.Args[0].Ref.(*ssa.Global).Name() == "StdEncoding") {
				ok, why = false, "the digest is not encoded with base64.StdEncoding"
			}
		})
		r.Check(rule, shortFn(acc), "sha1-key-guid-base64", acc.Pos(), ok && nP > 0, why)
		// keyGUID initialiser and immutability
		good, stores := false, 0
		for _, f := range c.P.FuncList {
			for _, b := range f.Blocks {
				for _, in := range b.Instrs {
					if st, isSt := in.(*ssa.Store); isSt && st.Addr == ssa.Value(keyGUID) {
						stores++
						if cv, isCv := st.Val.(*ssa.Convert); isCv {
							if k, isK := cv.X.(*ssa.Const); isK && k.Value != nil && strings.Trim(k.Value.ExactString(), "\"") == rfcGUID {
								good = f.Synthetic != "" && f.Name() == "init"
							}
						}
					}
				}
			}
			if c.P.Mod(f).GWrites[keyGUID] && !(f.Synthetic != "" && f.Name() == "init") {
				// element writes
				for _, b := range f.Blocks {
					for _, in := range b.Instrs {
						if st, isSt := in.(*ssa.Store); isSt {
							if ia, isIA := st.Addr.(*ssa.IndexAddr); isIA {
								if un, isUn := ia.X.(*ssa.UnOp); isUn && un.X == ssa.Value(keyGUID) {
									stores += 10
								}
							}
						}
					}
				}
			}
		}
		r.Check(rule, "init", "keyGUID-is-RFC6455-GUID", keyGUID.Pos(), good && stores == 1, "keyGUID must be initialised once to "+rfcGUID+" and never modified")
	}
}
