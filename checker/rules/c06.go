package rules

import (
	"fmt"
	"go/constant"
	"go/token"
	"go/types"

	"golang.org/x/tools/go/ssa"

	"wsverif/core"
)

func init() {
	register("C06", "Decides placement, strictness and overflow-safety of the read-limit check on every path of advanceFrame, that only data/continuation frames are counted, that the running sum is reset for every message whatever the application did with earlier ones, that stored lengths are never negative, the 1009 close, and that no allocation or peek size derives from a claimed length.", c06)
}

// pathOpcodes: the opcodes (byte0 & 0xf) compatible with the evaluable
// byte-0/state literals of a path through advanceFrame.
func (rd *reader) pathOpcodes(p *core.Path) map[int]bool {
	var P *core.Term
	first := -1
	for i := range p.Events {
		if ev := &p.Events[i]; callsStatic(ev, rd.read) {
			P = p.X.ExtractOf(ev.Result, 0, nil)
			first = i
			break
		}
	}
	out := map[int]bool{}
	if first < 0 {
		return out
	}
	isLeaf := rd.isHdrLeaf(P)
	var lits []core.Lit
	for _, l := range p.Lits[p.Events[first].NLits:] {
		if core.Evaluable(l.T, isLeaf) && !mentionsB1(l.T, P) {
			lits = append(lits, l)
		}
	}
	for b0 := 0; b0 < 256; b0++ {
		if out[b0&15] {
			continue
		}
		for st := 0; st < 8; st++ {
			s := &hdrState{b0: b0, readFinal: st&1 != 0, isServer: st&2 != 0, hasDecomp: st&4 != 0}
			lf := rd.hdrLeaf(P, s)
			good := true
			for _, l := range lits {
				v, ok := p.X.Eval(l.T, lf)
				if ok && constant.BoolVal(v) != l.Pos {
					good = false
					break
				}
			}
			if good {
				out[b0&15] = true
				break
			}
		}
	}
	return out
}

func c06(c *Ctx) {
	r := c.R
	rd := newReader(c)
	r.Rule("C06.check-before-payload", "every path of advanceFrame that hands a data or continuation frame to its caller has added this frame's length to the running sum, refused a negative (overflowed) sum, and compared the sum strictly against Conn.readLimit when the limit is positive; the running sum is touched only on paths whose opcode is 0, 1 or 2 (control frames are not counted); no transport read lies between the final length and the check")
	r.Rule("C06.close-1009", "the limit-exceeded path sends WriteControl(CloseMessage, FormatCloseMessage(1009, \"\")) and returns ErrReadLimit with no frame")
	r.Rule("C06.reset-per-message", "the running sum is zero whenever advanceFrame may meet the first frame of a new message: either every advanceFrame call in NextReader sees Conn.readLength == 0, or advanceFrame itself resets it on the first-frame (text/binary) arm")
	r.Rule("C06.sign", "Conn.readRemaining is never negative (same rule as C04.top-bit)")
	r.Rule("C06.no-claimed-alloc", "no make/Grow size on the read path derives from Conn.readRemaining/readLength; every (*Conn).read(n) in advanceFrame has n <= 125 on its path; skipping uses io.CopyN to io.Discard")
	r.Rule("C06.limit-owner", "Conn.readLimit is assigned only by SetReadLimit from its parameter")
	r.Assume("bufio.Reader.Peek(n) with n <= buffer size allocates nothing; io.CopyN(io.Discard, ...) uses a bounded buffer")

	closeMsg := c.P.ConstInt("CloseMessage")
	tooBig := c.P.ConstInt("CloseMessageTooBig")
	fcm := c.fn("FormatCloseMessage")
	errLimit := c.P.Global("ErrReadLimit")
	noFrame := c.P.ConstInt("noFrame")

	// ---- check-before-payload / close-1009
	okC, whyC := true, "sum += frame length; [sum < 0] refused; [limit > 0 && sum > limit] refused, on every data/continuation return"
	okO, whyO := true, "the running sum is only touched on paths whose opcode is 0, 1 or 2"
	ok9, why9 := true, "limit-exceeded path sends close 1009 and returns (noFrame, ErrReadLimit)"
	okF, whyF := true, "on the text/binary arm the sum is reset before accumulation"
	resetInAdvance := true
	nData, n9 := 0, 0
	opts := core.Opts{Unroll: 0, RecordLoads: true, Inline: rd.inl()}
	c.explore("C06.check-before-payload", rd.advance, opts, func(p *core.Path) {
		if p.End != core.EndReturn || len(p.Results) != 2 {
			return
		}
		// stores to readLength on this path
		var storeIdx = -1
		var sum *core.Term
		for i := range p.Events {
			ev := &p.Events[i]
			if ev.Kind == core.EvStore && isFieldAddr(ev.Addr, rd.readLength) {
				storeIdx, sum = i, ev.Val
			}
		}
		ops := rd.pathOpcodes(p)
		if storeIdx >= 0 {
			for op := range ops {
				if op > 2 {
					okO, whyO = false, fmt.Sprintf("Conn.readLength is modified on a path compatible with opcode %d (store at %s): control or reserved frames are charged to the message size", op, c.P.Pos(p.Events[storeIdx].Instr.Pos()))
				}
			}
		}
		// the limit is a property of data messages: ErrReadLimit / the 1009 close never arise on a control-frame path
		if es := strip(p.Results[1]); es.Kind == core.KLoad && es.Args[0].Kind == core.KGlobal && es.Args[0].Ref == interface{}(errLimit) {
			for op := range ops {
				if op >= 8 {
					okO, whyO = false, fmt.Sprintf("ErrReadLimit is returned at %s on a path compatible with opcode %d: a control frame (whose payload is not counted) is refused because of the read limit, and the message around it can no longer be read", c.P.Pos(p.Ret.Pos()), op)
				}
			}
		}
		ft, e := p.Results[0], p.Results[1]
		isData := e.IsNil() && (ops[0] || ops[1] || ops[2]) && !(ops[8] || ops[9] || ops[10])
		if v, isC := ft.Int64(); isC && v == noFrame {
			isData = false
		}
		// current readRemaining at the time of the accumulation
		if isData {
			nData++
			if storeIdx < 0 {
				okC, whyC = false, "a data/continuation frame is returned at "+c.P.Pos(p.Ret.Pos())+" without adding its length to Conn.readLength"
				return
			}
			var rem *core.Term
			for i := 0; i < storeIdx; i++ {
				ev := &p.Events[i]
				if (ev.Kind == core.EvStore || ev.Kind == core.EvLoad) && isFieldAddr(ev.Addr, rd.readRemaining) {
					rem = ev.Val
				}
			}
			// sum must be old + rem (old may be the constant 0 after a reset)
			good := false
			if rem != nil {
				if sum == rem {
					good = true // 0 + rem
				} else if sum.Kind == core.KBin && sum.Op == token.ADD {
					a, b := sum.Args[0], sum.Args[1]
					_, la := fieldLoad(a, rd.readLength)
					_, lb := fieldLoad(b, rd.readLength)
					good = (a == rem && lb) || (b == rem && la)
				}
			}
			if !good {
				okC, whyC = false, "value stored to Conn.readLength at "+c.P.Pos(p.Events[storeIdx].Instr.Pos())+" is not (running sum + this frame's length): "+sum.String()
				return
			}
			// first-frame arm: was the sum reset inside advanceFrame?
			if (ops[1] || ops[2]) && !ops[0] && sum != rem {
				resetInAdvance = false
			}
			// a read between the last readRemaining update and the accumulation?
			after := p.Events[storeIdx].NLits
			neg := hasLit(p, len(p.Lits), false, func(t *core.Term) bool {
				z, isC := t.Args1Int()
				return t.Kind == core.KLt && isW(p.X, sum)(t.Args[0]) && isC && z == 0
			})
			if lo, has := p.X.Lower(sum); has && lo >= 0 {
				neg = true // the sum is provably non-negative on this path
			}
			if !neg {
				okC, whyC = false, "no overflow refusal [readLength < 0] on the data-frame path returning at "+c.P.Pos(p.Ret.Pos())
			}
			limOK := false
			for _, l := range p.Lits[after:] {
				if l.T.Kind != core.KLt || l.Pos {
					continue
				}
				// !(limit < sum)
				if _, isL := fieldLoad(l.T.Args[0], rd.readLimit); isL && isW(p.X, sum)(l.T.Args[1]) {
					limOK = true
				}
			}
			// or the limit is known to be disabled: limit < 1
			if knowsLt(p, len(p.Lits), 1, func(y *core.Term) bool { _, isL := fieldLoad(y, rd.readLimit); return isL }) {
				limOK = true
			}
			if !limOK {
				okC, whyC = false, "a data frame can be returned at "+c.P.Pos(p.Ret.Pos())+" without the strict comparison of the running sum against Conn.readLimit"
			}
			for k := storeIdx + 1; k < len(p.Events); k++ {
				// the 4 bytes of the mask key are header, not payload: reading them after the accounting is fine
				if e := &p.Events[k]; callsStatic(e, rd.read) && len(e.Args) == 2 {
					if n, isC := e.Args[1].Int64(); isC && n == 4 {
						continue
					}
				}
				if rd.usesBr(&p.Events[k]) || callsStatic(&p.Events[k], rd.read) {
					okC, whyC = false, "transport read after the limit accounting on a data-frame path"
				}
			}
		}
		// limit exceeded path
		exceeded := false
		if sum != nil {
			for _, l := range p.Lits {
				if l.T.Kind == core.KLt && l.Pos && isW(p.X, sum)(l.T.Args[1]) {
					if _, isL := fieldLoad(l.T.Args[0], rd.readLimit); isL {
						exceeded = true
					}
				}
			}
		}
		if exceeded {
			n9++
			sent := false
			for i := storeIdx; i < len(p.Events); i++ {
				ev := &p.Events[i]
				if callsStatic(ev, rd.writeControl) && len(ev.Args) == 4 {
					d := ev.Args[2]
					if v, isC := ev.Args[1].Int64(); isC && v == closeMsg && d.Kind == core.KCall && d.Ref == interface{}(fcm) {
						if cv, isC2 := d.Args[0].Int64(); isC2 && cv == tooBig && tooBig == 1009 {
							sent = true
							// the reason text: a constant of at most 123 bytes (a longer payload makes WriteControl refuse
							// the frame, and then nothing is sent)
							if len(d.Args) >= 2 {
								if txt, isS := d.Args[1].StrVal(); !isS || len(txt) > 123 {
									ok9, why9 = false, "the 1009 close frame carries a reason ("+d.Args[1].String()+") that is not a constant of at most 123 bytes: a long reason (e.g. one embedding a 19-digit length) exceeds the 125-byte control payload, WriteControl refuses it and no close frame is sent"
								}
							}
							if !futureDeadline(ev.Args[3]) {
								ok9, why9 = false, "the 1009 close frame is sent with a deadline that is not now + a positive constant (it may already have passed, and then nothing is sent)"
							}
						}
					}
				}
				if rd.handlerCall(ev) != nil || rd.usesBr(ev) {
					ok9, why9 = false, "payload read or handler call after the limit was found exceeded"
				}
			}
			if !sent {
				ok9, why9 = false, "limit-exceeded path returning at "+c.P.Pos(p.Ret.Pos())+" does not send a close frame with status 1009"
			}
			es := strip(e)
			if !(es.Kind == core.KLoad && es.Args[0].Kind == core.KGlobal && es.Args[0].Ref == interface{}(errLimit)) {
				ok9, why9 = false, "limit-exceeded path does not return ErrReadLimit"
			}
			if v, isC := ft.Int64(); !isC || v != noFrame {
				ok9, why9 = false, "limit-exceeded path returns a frame"
			}
		}
	})
	if nData == 0 {
		okC, whyC = false, "no data-frame return path recognised"
	}
	if n9 == 0 {
		ok9, why9 = false, "no limit-exceeded path recognised"
	}
	r.Check("C06.check-before-payload", shortFn(rd.advance), "accumulate-overflow-compare", rd.advance.Pos(), okC, whyC)
	r.Check("C06.check-before-payload", shortFn(rd.advance), "only-data-frames-counted", rd.advance.Pos(), okO, whyO)
	r.Check("C06.close-1009", shortFn(rd.advance), "limit-exceeded-path", rd.advance.Pos(), ok9, why9)

	// ---- reset-per-message
	{
		okN, whyN := true, "every advanceFrame call in NextReader sees Conn.readLength == 0"
		nCalls := 0
		o := core.Opts{Unroll: 0, Inline: rd.inl()}
		o.Observe = func(x *core.Explorer, ev *core.Event) {
			if !callsStatic(ev, rd.advance) || len(ev.Args) < 1 {
				return
			}
			nCalls++
			cur, known := x.Peek(x.FieldAddrOf(ev.Args[0], rd.readLength))
			if z, isC := int64(0), false; known {
				z, isC = cur.Int64()
				if isC && z == 0 {
					return
				}
			}
			okN = false
			whyN = "advanceFrame is called at " + c.P.Pos(ev.Instr.Pos()) + " with a running sum that may be non-zero (frames of an abandoned message skipped by the loop are charged to the next message)"
		}
		c.explore("C06.reset-per-message", rd.nextReader, o, func(p *core.Path) {})
		switch {
		case nCalls == 0:
			r.Fail("C06.reset-per-message", shortFn(rd.nextReader), "readLength-zero-at-advanceFrame", rd.nextReader.Pos(), "NextReader does not call advanceFrame")
		case okN:
			r.Pass("C06.reset-per-message", shortFn(rd.nextReader), "readLength-zero-at-advanceFrame", rd.nextReader.Pos(), whyN)
		case resetInAdvance && okF:
			r.Pass("C06.reset-per-message", shortFn(rd.nextReader), "readLength-zero-at-advanceFrame", rd.nextReader.Pos(), whyF+" (inside advanceFrame)")
		default:
			r.Fail("C06.reset-per-message", shortFn(rd.nextReader), "readLength-zero-at-advanceFrame", rd.nextReader.Pos(), whyN)
		}
	}

	rd.remainingSign("C06.sign")

	// ---- no-claimed-alloc
	{
		readSide := []string{"(*Conn).advanceFrame", "(*Conn).read", "(*Conn).NextReader", "(*messageReader).Read", "(*Conn).ReadMessage", "(*Conn).setReadRemaining", "(*messageReader).Close", "(*Conn).handleProtocolError"}
		listed := map[string]bool{}
		for _, name := range readSide {
			c.fn(name) // anchors
			listed[name] = true
		}
		for _, fn := range c.P.FuncList { // every function of the package (ReadJSON, a new fast path, a helper): the claimed length sizes no allocation anywhere
			name := shortFn(fn)
			if fn.Synthetic != "" {
				continue
			}
			ok, why := true, "no allocation size depends on the claimed frame or message length"
			for _, b := range fn.Blocks {
				for _, in := range b.Instrs {
					var size ssa.Value
					switch v := in.(type) {
					case *ssa.MakeSlice:
						size = v.Len
						if dependsOnLength(v.Cap, rd, map[ssa.Value]bool{}) {
							size = v.Cap
						}
					case ssa.CallInstruction:
						if f := v.Common().StaticCallee(); f != nil && !c.P.InPkg(f) {
							n := extName(f)
							if n == "(*bytes.Buffer).Grow" || n == "bytes.NewBuffer" || n == "(*strings.Builder).Grow" || n == "slices.Grow" {
								size = v.Common().Args[len(v.Common().Args)-1]
							}
						}
					}
					if size != nil && dependsOnLength(size, rd, map[ssa.Value]bool{}) {
						ok, why = false, "allocation at "+c.P.Pos(in.Pos())+" is sized from the claimed frame/message length"
					}
				}
			}
			if listed[name] || !ok {
				r.Check("C06.no-claimed-alloc", name, "no-length-sized-allocation", fn.Pos(), ok, why)
			}
		}
		// peek sizes in advanceFrame
		ok, why := true, "every (*Conn).read(n) has n <= 125 on its path"
		nReads := 0
		c.explore("C06.no-claimed-alloc", rd.advance, opts, func(p *core.Path) {
			for i := range p.Events {
				ev := &p.Events[i]
				if !callsStatic(ev, rd.read) {
					continue
				}
				nReads++
				hi, has := p.X.Upper(ev.Args[1])
				if !has || hi > 125 {
					ok, why = false, "read("+ev.Args[1].String()+") at "+c.P.Pos(ev.Instr.Pos())+" peeks a number of bytes not bounded by 125 (memory depends on the claimed length)"
				}
			}
		})
		r.Check("C06.no-claimed-alloc", shortFn(rd.advance), "peek-size-bounded", rd.advance.Pos(), ok && nReads > 0, why)
		// skipping goes to io.Discard
		okS, whyS := true, "the remainder of a frame is skipped with io.CopyN(io.Discard, br, readRemaining)"
		nSkip := 0
		c.explore("C06.no-claimed-alloc", rd.advance, core.Opts{Unroll: 0, Inline: rd.inl()}, func(p *core.Path) {
			for i := range p.Events {
				ev := &p.Events[i]
				if ev.Kind == core.EvCall && ev.Static != nil && extName(ev.Static) == "io.CopyN" {
					nSkip++
					d := strip(ev.Args[0])
					if !(d.Kind == core.KLoad && d.Args[0].Kind == core.KGlobal && d.Args[0].Ref.(*ssa.Global).Name() == "Discard") {
						okS, whyS = false, "skipped payload is copied somewhere other than io.Discard"
					}
				}
			}
		})
		r.Check("C06.no-claimed-alloc", shortFn(rd.advance), "skip-to-discard", rd.advance.Pos(), okS && nSkip > 0, whyS)
	}
	// ---- limit owner
	for _, s := range c.P.FieldStoreSites(rd.readLimit) {
		_, isParam := s.Val.(*ssa.Parameter)
		// or the parameter clamped: 0 ("no limit") on the paths that know the parameter to be <= 0
		if !isParam && shortFn(s.Parent()) == "(*Conn).SetReadLimit" {
			fn := s.Parent()
			good, n := true, 0
			c.explore("C06.limit-owner", fn, core.Opts{}, func(p *core.Path) {
				for i := range p.Events {
					ev := &p.Events[i]
					if ev.Kind != core.EvStore || !isFieldAddr(ev.Addr, rd.readLimit) {
						continue
					}
					n++
					prm := p.X.ParamTerm(fn.Params[1])
					if ev.Val == prm {
						continue
					}
					if z, isC := ev.Val.Int64(); isC && z == 0 {
						if hi, has := p.X.Upper(prm); has && hi <= 0 {
							continue
						}
					}
					good = false
				}
			})
			isParam = good && n > 0
		}
		r.Check("C06.limit-owner", shortFn(s.Parent()), "store-readLimit", s.Pos(), isParam && shortFn(s.Parent()) == "(*Conn).SetReadLimit", "Conn.readLimit may only be assigned from the parameter of SetReadLimit")
	}
	r.Floor("C06.limit-owner", 1)
	// the running sum is touched only by the frame parser and by NextReader's per-message reset
	r.Rule("C06.control-frames-readable", "a message within the limit can be read in full whatever control frames of legal size are interleaved: the read buffer always holds a whole control payload (same rule as C08.read-buffer)")
	c08readBufferAs(c, rd, "C06.control-frames-readable")
	r.Rule("C06.limit-on-wire-bytes", "the limit is applied to payload bytes on the wire by the frame parser alone: ErrReadLimit is produced only by advanceFrame / setReadRemaining, the inflating reader passes the inflater's results through unchanged and NextReader installs exactly the negotiated decompressor (same rules as C03.eom for the wrapper, C03.inflate-iff-rsv1)")
	flateWrapperRule(c, "C06.limit-on-wire-bytes")
	rd.inflateWrap("C06.limit-on-wire-bytes")
	limitErrorOwners(c, rd, "C06.limit-on-wire-bytes")
	r.Rule("C06.close-1009-private", "the 1009 close frame is the frame WriteControl puts on the wire: it is assembled in memory private to the call, so a concurrent ping/pong WriteControl cannot overwrite it while it waits for or holds the write lock (same rule as C08.reply-private)")
	newTransport(c).noSharedBeforeLock("C06.close-1009-private")
	r.Rule("C06.error-reaches-reader", "ErrReadLimit reaches whoever reads the message: every Read method layered over the message reader passes inner errors other than io.EOF on (same rule as C05.reader-wrappers)")
	if c.readerWrappers("C06.error-reaches-reader") < 4 {
		r.Fail("C06.error-reaches-reader", "package", "floor", c.fn("(*joinReader).Read").Pos(), "fewer than the 4 known reader wrappers were analysed")
	}
	// the value whose sign is tested is the full 64-bit length the peer sent (no bit masked off before the test)
	rd.parserRules("C06.sign", "", "", "")
	rd.owners("C06.reset-per-message", rd.readLength, "(*Conn).advanceFrame", "(*Conn).NextReader")
	r.Floor("C06.no-claimed-alloc", 8)
}

// dependsOnLength: backward SSA closure of v reaches a load of readRemaining / readLength.
func dependsOnLength(v ssa.Value, rd *reader, seen map[ssa.Value]bool) bool {
	if v == nil || seen[v] {
		return false
	}
	seen[v] = true
	switch x := v.(type) {
	case *ssa.UnOp:
		if fa, ok := x.X.(*ssa.FieldAddr); ok {
			f := fieldOf(fa)
			if f == rd.readRemaining || f == rd.readLength {
				return true
			}
		}
		return dependsOnLength(x.X, rd, seen)
	case *ssa.BinOp:
		return dependsOnLength(x.X, rd, seen) || dependsOnLength(x.Y, rd, seen)
	case *ssa.Convert:
		return dependsOnLength(x.X, rd, seen)
	case *ssa.ChangeType:
		return dependsOnLength(x.X, rd, seen)
	case *ssa.Phi:
		for _, e := range x.Edges {
			if dependsOnLength(e, rd, seen) {
				return true
			}
		}
	case *ssa.Call:
		if bi, ok := x.Call.Value.(*ssa.Builtin); ok && (bi.Name() == "min" || bi.Name() == "max") {
			for _, a := range x.Call.Args {
				if dependsOnLength(a, rd, seen) {
					return true
				}
			}
		}
	}
	return false
}

func fieldOf(fa *ssa.FieldAddr) *types.Var {
	return fa.X.Type().Underlying().(*types.Pointer).Elem().Underlying().(*types.Struct).Field(fa.Field)
}

// limitErrorOwners: ErrReadLimit is referred to only by the frame parser (and
// helpers extracted from it): a second place that decides "over the limit"
// (the message reader, a counting wrapper around the inflater) disagrees with
// the parser at the boundary or counts other bytes.
func limitErrorOwners(c *Ctx, rd *reader, rule string) {
	g := c.P.Global("ErrReadLimit")
	allowed := map[*ssa.Function]bool{rd.advance: true, rd.setRem: true}
	users := map[string]bool{}
	ok := true
	for _, fn := range c.P.FuncList {
		if fn.Synthetic != "" {
			continue
		}
		uses := false
		for _, b := range fn.Blocks {
			for _, in := range b.Instrs {
				for _, op := range in.Operands(nil) {
					if *op == ssa.Value(g) {
						uses = true
					}
				}
			}
		}
		if !uses {
			continue
		}
		for _, h := range c.hostsOf(fn) {
			users[shortFn(h)] = true
			if !allowed[h] {
				ok = false
			}
		}
	}
	c.R.Check(rule, "ErrReadLimit", "produced-by-the-frame-parser-only", rd.advance.Pos(), ok && len(users) > 0, "ErrReadLimit is referred to by {"+joinNames(users)+"}; allowed {(*Conn).advanceFrame, (*Conn).setReadRemaining}")
}
