package rules

import (
	"go/types"

	"golang.org/x/tools/go/ssa"

	"wsverif/core"
)

// isReadSig: func(p []byte) (int, error)
func isReadSig(sig *types.Signature) bool {
	if sig.Params().Len() != 1 || sig.Results().Len() != 2 || !isErr(sig.Results().At(1).Type()) {
		return false
	}
	sl, ok := sig.Params().At(0).Type().Underlying().(*types.Slice)
	if !ok {
		return false
	}
	b, ok := sl.Elem().Underlying().(*types.Basic)
	return ok && b.Kind() == types.Uint8
}

// innerRead: the event is a call of some Read([]byte) (int, error) made by the function under analysis.
func innerRead(ev *core.Event) bool {
	if ev.Kind != core.EvCall || !own(ev) || ev.Deferred {
		return false
	}
	switch {
	case ev.Method != nil:
		sig, _ := ev.Method.Type().(*types.Signature)
		return ev.Method.Name() == "Read" && sig != nil && isReadSig(sig)
	case ev.Static != nil:
		return ev.Static.Name() == "Read" && ev.Static.Signature.Recv() != nil && isReadSig(ev.Static.Signature)
	}
	return false
}

func containsTerm(t, sub *core.Term) bool {
	if t == sub {
		return true
	}
	for _, a := range t.Args {
		if containsTerm(a, sub) {
			return true
		}
	}
	return false
}

// knownEOF: the path knows e == io.EOF.
func knownEOF(p *core.Path, e *core.Term) bool {
	return hasLit(p, len(p.Lits), true, func(x *core.Term) bool {
		return x.Kind == core.KEq && ((x.Args[0] == e && isEOFLoad(x.Args[1])) || (x.Args[1] == e && isEOFLoad(x.Args[0])))
	})
}

// readerWrappers checks every Read method of the package that reads from an
// inner reader (joinReader, flateReadWrapper, brNetConn, messageReader and any
// wrapper a change introduces) against the two obligations of a pass-through
// reader, on every path:
//
//	count:  the byte count an inner Read returned is the count the wrapper
//	        returns; it may be discarded (another inner Read issued, or a
//	        different count returned) only where the path knows it to be < 1 —
//	        bytes delivered together with io.EOF or an error are not dropped;
//	error:  an inner error that is not known to be nil or io.EOF reaches the
//	        caller: the wrapper returns it, or some non-nil error, or (the
//	        deferred-error idiom) returns the positive count now, so that the
//	        sticky inner error is seen by the next call.
func (c *Ctx) readerWrappers(rule string) (n int) {
	for _, fn := range c.P.FuncList {
		if fn.Name() != "Read" || fn.Signature.Recv() == nil || !isReadSig(fn.Signature) || fn.Blocks == nil {
			continue
		}
		okN, whyN := true, "the count of the inner Read is the count returned (never discarded unless known to be < 1)"
		okE, whyE := true, "an inner error other than io.EOF reaches the caller"
		inner := 0
		c.explore(rule, fn, core.Opts{Unroll: 0, RecordLoads: true}, func(p *core.Path) {
			var last *core.Event
			for i := range p.Events {
				ev := &p.Events[i]
				if !innerRead(ev) {
					continue
				}
				inner++
				if last != nil {
					ln := p.X.ExtractOf(last.Result, 0, nil)
					if !knownNoBytes(p, ln) {
						okN, whyN = false, "the count returned by the read at "+c.P.Pos(last.Instr.Pos())+" is discarded (another read is issued at "+c.P.Pos(ev.Instr.Pos())+") although the path does not know it to be 0: bytes delivered together with io.EOF or an error are dropped"
					}
				}
				last = ev
			}
			if p.End != core.EndReturn || len(p.Results) != 2 || last == nil {
				return
			}
			ln := p.X.ExtractOf(last.Result, 0, nil)
			le := p.X.ExtractOf(last.Result, 1, nil)
			retN, retE := p.Results[0], p.Results[1]
			lnZero := knownNoBytes(p, ln)
			if !containsTerm(retN, ln) && !lnZero {
				okN, whyN = false, "the path returning at "+c.P.Pos(p.Ret.Pos())+" returns the count "+retN.String()+" instead of the inner read's (bytes read are not reported)"
			}
			eNil := hasLit(p, len(p.Lits), true, func(x *core.Term) bool { return isEqNil(x, func(y *core.Term) bool { return y == le }) })
			if eNil || knownEOF(p, le) {
				return
			}
			if retE == le || strip(retE) == le || c.nonNilErr(retE) {
				return
			}
			if hasLit(p, len(p.Lits), false, func(x *core.Term) bool { return isEqNil(x, func(y *core.Term) bool { return y == retE }) }) {
				return
			}
			// deferred error: positive count returned now
			if containsTerm(retN, ln) && knowsGe(p, len(p.Lits), 1, func(t *core.Term) bool { return t == ln }) {
				return
			}
			okE, whyE = false, "the path returning at "+c.P.Pos(p.Ret.Pos())+" returns "+retE.String()+" although the inner read's error may be a fault other than io.EOF (a transport error is turned into a clean end or swallowed)"
		})
		if inner == 0 {
			continue
		}
		n++
		c.R.Check(rule, shortFn(fn), "inner-count-returned", fn.Pos(), okN, whyN)
		c.R.Check(rule, shortFn(fn), "inner-error-returned", fn.Pos(), okE, whyE)
	}
	return n
}

// knownNoBytes: the path knows the count to be < 1 (or == 0).
func knownNoBytes(p *core.Path, n *core.Term) bool {
	if isZero(n) || knowsLt(p, len(p.Lits), 1, is(n)) {
		return true
	}
	return hasLit(p, len(p.Lits), true, func(t *core.Term) bool { return isEqConst(t, 0, is(n)) })
}

func isZero(t *core.Term) bool {
	v, ok := t.Int64()
	return ok && v == 0
}

var _ = ssa.Value(nil)

// joinEOF: the end of one message is not the end of the joined stream: the
// error of the current message's reader is returned by joinReader.Read only
// where the path knows it is not io.EOF (io.Copy, bufio.Scanner and friends
// would otherwise stop after the first message whose reader reports its last
// bytes together with io.EOF).
func (c *Ctx) joinEOF(rule string) {
	fn := c.fn("(*joinReader).Read")
	rF := c.P.Field("joinReader", "r")
	ok, why := true, "io.EOF of a message's reader is replaced before Read returns"
	n := 0
	c.explore(rule, fn, core.Opts{Unroll: 0, RecordLoads: true}, func(p *core.Path) {
		if p.End != core.EndReturn || len(p.Results) != 2 {
			return
		}
		var last *core.Event
		for i := range p.Events {
			if ev := &p.Events[i]; innerRead(ev) {
				last = ev
			}
		}
		if last == nil {
			return
		}
		n++
		le := p.X.ExtractOf(last.Result, 1, nil)
		// a reader that reported io.EOF is finished: it is dropped in the same call (reading it again is not
		// guaranteed to report io.EOF again: the inflating reader answers io.ErrClosedPipe after its end)
		if knownEOF(p, le) {
			dropped := false
			for i := range p.Events {
				if ev := &p.Events[i]; ev.Kind == core.EvStore && ev.Addr.Kind == core.KFieldAddr && ev.Addr.Var == rF && ev.Val.IsNil() {
					dropped = true
				}
			}
			if !dropped {
				ok, why = false, "the path returning at "+c.P.Pos(p.Ret.Pos())+" keeps the message reader although it has reported io.EOF: the next call reads a finished reader again"
			}
		}
		if strip(p.Results[1]) != le {
			return
		}
		notEOF := hasLit(p, len(p.Lits), false, func(x *core.Term) bool {
			return x.Kind == core.KEq && ((x.Args[0] == le && isEOFLoad(x.Args[1])) || (x.Args[1] == le && isEOFLoad(x.Args[0])))
		})
		isNil := hasLit(p, len(p.Lits), true, func(x *core.Term) bool { return isEqNil(x, func(y *core.Term) bool { return y == le }) })
		if !notEOF && !isNil {
			ok, why = false, "the path returning at "+c.P.Pos(p.Ret.Pos())+" hands the message reader's error to the caller without knowing it is not io.EOF: the end of one message ends the joined stream"
		}
	})
	c.R.Check(rule, shortFn(fn), "message-eof-not-stream-eof", fn.Pos(), ok && n > 0, why)
}

// joinTerm: JoinMessages appends the terminator completely after every
// message, whatever the size of the caller's buffer.  Accepted mechanisms: the
// terminator is read through its own reader (io.MultiReader(msg,
// strings.NewReader(term)): library contract), or — when it is copied by hand —
// the path knows the copy to have taken all of it.
func (c *Ctx) joinTerm(rule string) {
	fn := c.fn("(*joinReader).Read")
	term := c.P.Field("joinReader", "term")
	ok, why := true, "the terminator is delivered through its own reader, or copied only where the copy is known to be complete"
	uses := 0
	c.explore(rule, fn, core.Opts{Unroll: 0, RecordLoads: true}, func(p *core.Path) {
		for i := range p.Events {
			ev := &p.Events[i]
			if ev.Kind != core.EvCall || len(ev.Args) == 0 {
				continue
			}
			usesTerm := false
			for _, a := range ev.Args {
				if _, is := fieldLoad(strip(a), term); is {
					usesTerm = true
				}
			}
			if !usesTerm {
				continue
			}
			uses++
			if ev.Builtin == "copy" {
				res := ev.Result
				full := hasLit(p, len(p.Lits), true, func(t *core.Term) bool {
					return t.Kind == core.KEq && ((t.Args[0] == res && t.Args[1].Kind == core.KLen) || (t.Args[1] == res && t.Args[0].Kind == core.KLen))
				}) || hasLit(p, len(p.Lits), false, func(t *core.Term) bool { return t.Kind == core.KLt && t.Args[0] == res && t.Args[1].Kind == core.KLen })
				if !full {
					ok, why = false, "the terminator is copied into the caller's buffer at "+c.P.Pos(ev.Instr.Pos())+" without knowing that all of it fitted: with a read buffer shorter than the terminator part of it is silently dropped (the result depends on how the application sizes its reads)"
				}
			}
		}
	})
	c.R.Check(rule, shortFn(fn), "terminator-delivered-completely", fn.Pos(), ok && uses > 0, why)
}

// readerSiblings: the reader types of the package deliver message bytes
// through Read alone; the rules above decide Read.  A further method of one of
// these types that pulls data from the inner reader (WriteTo, ReadByte, ...)
// is a second delivery path that io.Copy, bufio and friends prefer over Read
// and that no rule has decided: it is reported as undecided rather than
// assumed to agree with Read.
func (c *Ctx) readerSiblings(rule string) {
	types_ := []string{"messageReader", "joinReader", "flateReadWrapper", "brNetConn"}
	known := map[string]bool{"Read": true, "Close": true, "NetConn": true}
	nextReader := c.P.FuncOpt("(*Conn).NextReader")
	bad := ""
	var badFn *ssa.Function
	n := 0
	for _, fn := range c.P.FuncList {
		recv := fn.Signature.Recv()
		if recv == nil || fn.Synthetic != "" || fn.Parent() != nil {
			continue
		}
		rt := recv.Type()
		if pt, ok := rt.(*types.Pointer); ok {
			rt = pt.Elem()
		}
		nt, ok := rt.(*types.Named)
		if !ok {
			continue
		}
		match := false
		for _, t := range types_ {
			if nt == c.P.Named(t) { // through the anchor: a renamed type is re-bound
				match = true
			}
		}
		if !match {
			continue
		}
		n++
		if known[fn.Name()] {
			continue
		}
		if o := fn.Object(); o == nil || !o.Exported() {
			continue // an unexported helper is reachable only through the methods the rules decide
		}
		// does it read?  a call of some Read([]byte), of NextReader, or of a library copier
		reads := false
		for _, b := range fn.Blocks {
			for _, in := range b.Instrs {
				ci, isCall := in.(ssa.CallInstruction)
				if !isCall {
					continue
				}
				cc := ci.Common()
				if cc.IsInvoke() && cc.Method.Name() == "Read" {
					reads = true
				}
				if f := cc.StaticCallee(); f != nil {
					switch {
					case f == nextReader, f.Name() == "Read" && f.Signature.Recv() != nil:
						reads = true
					case f.Pkg != nil && f.Pkg.Pkg.Path() == "io" && (f.Name() == "Copy" || f.Name() == "CopyN" || f.Name() == "CopyBuffer" || f.Name() == "ReadFull" || f.Name() == "ReadAll" || f.Name() == "ReadAtLeast"):
						reads = true
					case extName(f) == "(*bufio.Reader).WriteTo" || extName(f) == "(*bufio.Reader).ReadByte" || extName(f) == "(*bufio.Reader).Peek" || extName(f) == "(*bufio.Reader).Discard":
						reads = true
					}
				}
			}
		}
		if reads {
			bad, badFn = shortFn(fn), fn
		}
	}
	why := "the reader types deliver data through Read only"
	pos := c.fn("(*messageReader).Read").Pos()
	if bad != "" {
		why = bad + " is a second way of pulling message data out of a reader type (preferred over Read by io.Copy / bufio): its end-of-message, error and terminator behaviour is not decided by any rule and is not assumed to agree with Read"
		pos = badFn.Pos()
	}
	c.R.Check(rule, "package", "no-undecided-delivery-method", pos, bad == "" && n >= 4, why)
}

// readJSONRule: ReadJSON is NextReader + Decode and nothing else decides the
// outcome: a message the decoder accepted is returned without error, and an
// error of the decoder (a CloseError or handler error raised between
// fragments, a transport error, a syntax error) is returned as that very value
// (io.EOF excepted, which becomes io.ErrUnexpectedEOF).
func readJSONRule(c *Ctx, rule string) {
	fn := c.fn("(*Conn).ReadJSON")
	ok, why := true, "nil after a successful Decode; the decoder's own error value otherwise"
	n := 0
	c.explore(rule, fn, core.Opts{}, func(p *core.Path) {
		if p.End != core.EndReturn || len(p.Results) != 1 {
			return
		}
		var dec *core.Event
		for i := range p.Events {
			ev := &p.Events[i]
			if ev.Kind == core.EvCall && ev.Static != nil && extName(ev.Static) == "(*encoding/json.Decoder).Decode" {
				dec = ev
			}
		}
		if dec == nil {
			return
		}
		n++
		de := dec.Result
		res := p.Results[0]
		isNil := hasLit(p, len(p.Lits), true, func(t *core.Term) bool { return isEqNil(t, func(y *core.Term) bool { return y == de }) })
		if isNil {
			if !res.IsNil() && strip(res) != de {
				ok, why = false, "ReadJSON returns "+res.String()+" at "+c.P.Pos(p.Ret.Pos())+" although the decoder accepted the message (a second look at the reader is not guaranteed to see io.EOF again: the inflating reader reports a different error after its end)"
			}
			return
		}
		if strip(res) == de {
			return
		}
		if knownEOF(p, de) {
			return // replaced by io.ErrUnexpectedEOF: C05.readjson
		}
		ok, why = false, "ReadJSON returns "+res.String()+" at "+c.P.Pos(p.Ret.Pos())+" instead of the error the decoder got from the connection: a *CloseError or a handler's error is no longer recognisable"
	})
	c.R.Check(rule, shortFn(fn), "outcome-is-the-decoders", fn.Pos(), ok && n > 0, why)
}
