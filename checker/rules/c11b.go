package rules

import (
	"fmt"

	"golang.org/x/tools/go/ssa"

	"wsverif/core"
)

func c11atomic(c *Ctx) {
	r := c.R
	t := newTransport(c)
	t.classify("C11.atomic")
	t.deadlineUnderLock("C11.atomic")
	wr := c.fn("(*Conn).write")
	for _, fn := range c.P.FuncList {
		if !t.sites[fn] || t.unprot[fn] {
			continue
		}
		ok, why := true, "one transport write per critical section, covering the whole frame; no nested section"
		n := 0
		c.explore("C11.atomic", fn, t.opts(), func(p *core.Path) {
			if p.End == core.EndCut {
				return
			}
			writes := 0
			var last *core.Event
			for i := range p.Events {
				ev := &p.Events[i]
				if !own(ev) {
					continue
				}
				if _, is := t.writeEvent(ev); is {
					writes++
					last = ev
				}
				if ev.Kind == core.EvCall && ev.Static != nil && t.sites[ev.Static] && !t.unprot[ev.Static] {
					ok, why = false, "a critical-section function calls another one ("+shortFn(ev.Static)+"): the frame is written under two lock acquisitions (another writer can interleave) or self-deadlocks"
				}
			}
			if writes > 1 {
				ok, why = false, fmt.Sprintf("%d transport writes inside one critical section on a path", writes)
			}
			if writes == 1 {
				n++
				// in write: the single write covers buf0 and, if non-empty, buf1
				if fn == wr {
					covers := func(param int) bool {
						prm := fn.Params[param]
						// local allocations reachable from the arguments of the write (varargs arrays, slice headers, net.Buffers values)
						reach := map[*core.Term]bool{}
						var addRoots func(t *core.Term)
						addRoots = func(t *core.Term) {
							t.Walk(func(y *core.Term) bool {
								if y.Kind == core.KAlloc {
									reach[y] = true
								}
								return true
							})
						}
						direct := false
						for _, a := range append(append([]*core.Term{}, last.Args...), last.Recv) {
							if a == nil {
								continue
							}
							a.Walk(func(y *core.Term) bool {
								if y.Kind == core.KParam && y.Ref == prm {
									direct = true
								}
								return !direct
							})
							addRoots(a)
						}
						if direct {
							return true
						}
						for round := 0; round < 3; round++ {
							for k := range p.Events {
								e := &p.Events[k]
								if e.Kind != core.EvStore {
									continue
								}
								root := e.Addr
								for root != nil && (root.Kind == core.KIndexAddr || root.Kind == core.KFieldAddr || root.Kind == core.KSlice) {
									root = root.Args[0]
								}
								if root == nil || !reach[root] {
									continue
								}
								hit := false
								e.Val.Walk(func(y *core.Term) bool {
									if y.Kind == core.KParam && y.Ref == prm {
										hit = true
									}
									return !hit
								})
								if hit {
									return true
								}
								addRoots(e.Val)
							}
						}
						return false
					}
					if !covers(3) {
						ok, why = false, "the transport write does not include buf0"
					}
					empty1 := hasLit(p, last.NLits, true, func(t *core.Term) bool {
						return isEqConst(t, 0, func(y *core.Term) bool {
							return y.Kind == core.KLen && y.Args[0].Kind == core.KParam && y.Args[0].Ref == fn.Params[4]
						})
					})
					if !empty1 && !covers(4) {
						ok, why = false, "a frame with a second buffer is not written in one transport operation together with its header"
					}
				}
			}
		})
		r.Check("C11.atomic", shortFn(fn), "one-write-per-section", fn.Pos(), ok && n > 0, why)
	}
	// frame builders call write at most once per path
	for _, name := range []string{"(*messageWriter).flushFrame", "(*Conn).WritePreparedMessage"} {
		fn := c.fn(name)
		ok, why := true, "at most one write call per invocation"
		n := 0
		c.explore("C11.atomic", fn, core.Opts{Unroll: 0, Pure: c.pureSet("isControl", "isData")}, func(p *core.Path) {
			k := 0
			for i := range p.Events {
				if callsStatic(&p.Events[i], wr) {
					k++
				}
			}
			if k > 1 {
				ok, why = false, fmt.Sprintf("%d calls of write for one frame", k)
			}
			if k == 1 {
				n++
			}
		})
		r.Check("C11.atomic", name, "one-write-call-per-frame", fn.Pos(), ok && n > 0, why)
	}
	r.Floor("C11.atomic", 4)
}

func c11timeout(c *Ctx) {
	r := c.R
	t := newTransport(c)
	fn := c.fn("(*Conn).WriteControl")
	errTO := c.P.Global("errWriteTimeout")
	deadlineP := fn.Params[3]
	ok, why := true, "timeout returns have touched nothing; select = {<-mu, <-timer(time.Until(deadline))}; zero deadline blocks on mu"
	nTO, nSel, nZero := 0, 0, 0
	c.explore("C11.timeout-paths", fn, core.Opts{Pure: c.pureSet("isControl", "isData")}, func(p *core.Path) {
		if p.End != core.EndReturn || len(p.Results) != 1 {
			return
		}
		res := strip(p.Results[0])
		isTO := res.Kind == core.KLoad && res.Args[0].Kind == core.KGlobal && res.Args[0].Ref == interface{}(errTO)
		for i := range p.Events {
			ev := &p.Events[i]
			if ev.Kind == core.EvSelect && ev.Blocking {
				nSel++
				muCase, timerCase := false, false
				for _, s := range ev.States {
					if _, is := fieldLoad(s.Chan, t.mu); is && !s.Send {
						muCase = true
					} else if !s.Send {
						// timer.C of time.NewTimer(time.Until(deadline))
						ch := s.Chan
						if ch.Kind == core.KLoad && ch.Args[0].Kind == core.KFieldAddr && ch.Args[0].Var.Name() == "C" {
							tm := ch.Args[0].Args[0]
							if tm.Kind == core.KCall {
								if f, isF := tm.Ref.(*ssa.Function); isF && extName(f) == "time.NewTimer" {
									d := tm.Args[0]
									if d.Kind == core.KCall {
										if g, isG := d.Ref.(*ssa.Function); isG && extName(g) == "time.Until" && d.Args[0].Kind == core.KParam && d.Args[0].Ref == deadlineP {
											timerCase = true
										}
									}
								}
							}
						}
					}
				}
				if !muCase || !timerCase || len(ev.States) != 2 {
					ok, why = false, "the blocking select of WriteControl is not {receive on Conn.mu, timer for time.Until(deadline)}"
				}
			}
			if ev.Kind == core.EvRecv {
				if _, is := fieldLoad(ev.Addr, t.mu); is {
					// plain blocking receive: only for a zero deadline
					zero := hasLit(p, ev.NLits, true, func(t *core.Term) bool {
						if t.Kind != core.KCall || len(t.Args) != 1 {
							return false
						}
						f, isF := t.Ref.(*ssa.Function)
						return isF && extName(f) == "(time.Time).IsZero" && t.Args[0].Kind == core.KParam && t.Args[0].Ref == deadlineP
					})
					if zero {
						nZero++
					} else {
						ok, why = false, "WriteControl blocks on Conn.mu without a timeout although the deadline is not zero"
					}
				}
			}
		}
		if isTO {
			nTO++
		}
		if _, acquired := muAcquire(p, t.mu, len(p.Events)); acquired {
			if isTO {
				ok, why = false, "a timeout is returned at "+c.P.Pos(p.Ret.Pos())+" after Conn.mu was acquired"
			}
			return
		}
		// every return that gave up without the lock (timeout or invalid request) must have touched nothing
		for i := range p.Events {
			ev := &p.Events[i]
			if _, is := t.writeEvent(ev); is {
				ok, why = false, "a timeout path writes to the transport"
			}
			if callsStatic(ev, t.writeFatal) {
				ok, why = false, "a WriteControl that merely timed out waiting for the connection poisons it (writeFatal) at "+c.P.Pos(ev.Instr.Pos())
			}
			if ev.Kind == core.EvSend {
				ok, why = false, "a timeout path releases Conn.mu it never acquired"
			}
			if ev.Kind == core.EvStore && ev.Addr.Kind == core.KFieldAddr {
				ok, why = false, "a timeout path modifies connection state"
			}
			if ev.Kind == core.EvCall && ev.Static == nil && ev.Method != nil && t.isConnLoad(ev.Recv) {
				ok, why = false, "a timeout path touches the transport"
			}
		}
	})
	r.Check("C11.timeout-paths", shortFn(fn), "timeout-leaves-no-trace", fn.Pos(), ok && nTO >= 2 && nSel > 0 && nZero > 0, why)
	t.noSharedBeforeLock("C11.timeout-paths")
}

// noSharedBeforeLock: WriteControl builds its frame in memory private to the
// call; nothing reachable from the Conn is written before Conn.mu is held.
func (t *transport) noSharedBeforeLock(rule string) {
	c, r := t.c, t.c.R
	fn := c.fn("(*Conn).WriteControl")
	// state before the lock: WriteControl must not write shared fields before acquiring mu
	ok2, why2 := true, "no Conn field is written before Conn.mu is held"
	c.explore(rule, fn, core.Opts{Pure: c.pureSet("isControl", "isData")}, func(p *core.Path) {
		acq, has := muAcquire(p, t.mu, len(p.Events))
		end := len(p.Events)
		if has {
			end = acq
		}
		for i := 0; i < end; i++ {
			ev := &p.Events[i]
			if ev.Kind == core.EvStore && addrRootIsConnField(ev.Addr) {
				ok2, why2 = false, "WriteControl writes connection state at "+c.P.Pos(ev.Instr.Pos())+" before holding Conn.mu (concurrent callers race)"
			}
			if ev.Kind == core.EvCall && ev.Builtin == "append" && len(ev.Args) == 2 && mentionsConnField(ev.Args[0]) {
				ok2, why2 = false, "WriteControl builds its frame in memory owned by the Conn before holding Conn.mu (concurrent callers overwrite each other's frame)"
			}
		}
	})
	r.Check(rule, shortFn(fn), "no-shared-writes-before-lock", fn.Pos(), ok2, why2)
}

func addrRootIsConnField(a *core.Term) bool {
	for a != nil {
		switch a.Kind {
		case core.KFieldAddr:
			if a.Args[0].Kind == core.KParam || a.Args[0].Kind == core.KLoad {
				return true
			}
			a = a.Args[0]
		case core.KIndexAddr, core.KSlice:
			a = a.Args[0]
		default:
			return false
		}
	}
	return false
}

func mentionsConnField(t *core.Term) bool {
	found := false
	t.Walk(func(x *core.Term) bool {
		if x.Kind == core.KFieldAddr && (x.Args[0].Kind == core.KParam || (x.Args[0].Kind == core.KLoad && x.Args[0].Args[0].Kind == core.KAlloc)) {
			found = true
		}
		return !found
	})
	return found
}

func c11close(c *Ctx) {
	r := c.R
	fn := c.fn("(*Conn).Close")
	conn := c.P.Field("Conn", "conn")
	m := c.P.Mod(fn)
	ok, why := true, "reads Conn.conn only and calls its Close"
	for f := range m.Writes {
		ok, why = false, "Conn.Close writes "+f.Name()+" (it may run concurrently with the reader and the writer)"
	}
	for f := range m.Reads {
		if f != conn {
			ok, why = false, "Conn.Close reads "+f.Name()
		}
	}
	closes := 0
	c.explore("C11.close", fn, core.Opts{}, func(p *core.Path) {
		for i := range p.Events {
			ev := &p.Events[i]
			if ev.Kind != core.EvCall {
				continue
			}
			if ev.Static == nil && ev.Method != nil && ev.Method.Name() == "Close" {
				if _, is := fieldLoad(strip(ev.Recv), conn); is {
					closes++
					continue
				}
			}
			ok, why = false, "Conn.Close does more than closing the transport: "+c.P.EventString(ev)
		}
	})
	r.Check("C11.close", shortFn(fn), "touches-only-transport", fn.Pos(), ok && closes > 0, why)
}

func c11prepared(c *Ctx) {
	// reuse C19.cache under this property's rule name
	r := c.R
	before := len(r.Obs)
	saved := r.Obs
	sub := &Ctx{P: c.P, R: core.NewResult("C19", c.P), Tier: c.Tier}
	func() {
		defer func() { recover() }()
		c19(sub)
	}()
	sub.R.Finish()
	r.Obs = saved[:before]
	n := 0
	for _, o := range sub.R.Obs {
		if o.Rule == "C19.cache" {
			o.Rule = "C11.prepared"
			r.Obs = append(r.Obs, o)
			n++
		}
	}
	for f := range sub.R.Analysed {
		r.Analysed[f] = true
	}
	r.PathsSeen += sub.R.PathsSeen
	if n == 0 {
		r.Fail("C11.prepared", "(*PreparedMessage).frame", "cache-rule", c.fn("(*PreparedMessage).frame").Pos(), "cache rule produced no obligation")
	}
}
