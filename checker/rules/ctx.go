// Package rules instantiates the shared analyses with this repository's
// anchors: one file per property.
package rules

import (
	"go/types"
	"reflect"
	"fmt"
	"go/token"
	"os"
	"runtime/debug"
	"sort"
	"strings"

	"golang.org/x/tools/go/ssa"

	"wsverif/core"
)

// Ctx is handed to every property function.
type Ctx struct {
	P    *core.Prog
	R    *core.Result
	Tier string
	// borrowing: rule sets currently running (outermost first), see borrow
	borrowing []uintptr
}

// curProg: the program being analysed (for name lookups of re-bound fields in free helper functions).
var curProg *core.Prog

// fieldName: the name the rules know a field by (see core.Prog.OldFieldName).
func fieldName(v *types.Var) string {
	if curProg != nil {
		return curProg.OldFieldName(v)
	}
	return v.Name()
}

// PropFunc decides one property on one loaded variant.
type PropFunc func(c *Ctx)

var registry = map[string]PropFunc{}
var descr = map[string]string{}

func register(id, what string, f PropFunc) { registry[id] = f; descr[id] = what }

// Props lists the registered property ids.
func Props() []string {
	var ids []string
	for id := range registry {
		ids = append(ids, id)
	}
	sort.Strings(ids)
	return ids
}

func Descr(id string) string { return descr[id] }

// Run executes the rules of property id; analyser panics and unresolved
// anchors become failed obligations.
func Run(id string, p *core.Prog, tier string) (res *core.Result) {
	res = core.NewResult(id, p)
	f := registry[id]
	if f == nil {
		res.Fail(id+".registered", "", "property", token.NoPos, "no rules registered for this property")
		return res
	}
	defer func() {
		if r := recover(); r != nil {
			if os.Getenv("WSVERIF_DEBUG") != "" {
				fmt.Fprintf(os.Stderr, "panic: %v\n%s\n", r, debug.Stack())
			}
			if ae, ok := r.(core.AnchorErr); ok {
				res.Fail(id+".anchor-unresolved", "", ae.What, token.NoPos, "rule slot cannot be resolved in the current tree: "+ae.What)
			} else {
				res.Fail(id+".analyser-panic", "", fmt.Sprint(r), token.NoPos, fmt.Sprintf("analyser panicked: %v", r))
			}
			res.Finish()
		}
	}()
	curProg = p
	if p.Converted == nil {
		names := make([]string, 0, len(knownFuncs))
		for n := range knownFuncs {
			names = append(names, n)
		}
		sort.Strings(names)
		p.AliasConverted(names)
		// pure renames of functions, methods and fields (see core/shapes.go)
		p.AliasRenamedTypes(knownTypeShapes)
		p.AliasRenamed(knownFuncShapes, knownFuncs)
		p.AliasRenamedFields(knownFieldShapes)
		p.AliasRenamedGlobals(knownGlobalShapes)
	}
	f(&Ctx{P: p, R: res, Tier: tier, borrowing: []uintptr{reflect.ValueOf(f).Pointer()}})
	res.Finish()
	return res
}

// ---- small helpers shared by the rule files ----

func (c *Ctx) fn(name string) *ssa.Function { return c.P.Func(name) }

// explore enumerates paths of fn; a path-cap overflow is a failed obligation.
func (c *Ctx) explore(rule string, fn *ssa.Function, o core.Opts, cb func(*core.Path)) int {
	n, err := c.exploreErr(fn, o, cb)
	if err != nil {
		c.R.Fail(rule, core.FuncName(fn), "path-enumeration", fn.Pos(), "path enumeration incomplete: "+err.Error())
	}
	return n
}

// exploreErr is explore without the report of an incomplete enumeration (for
// callers that have a fallback).
func (c *Ctx) exploreErr(fn *ssa.Function, o core.Opts, cb func(*core.Path)) (int, error) {
	// small unexported functions that did not exist when the rules were written are helpers
	// extracted by a later refactoring: inline them so the rule sees the same events and literals
	user := o.Inline
	o.Inline = func(f *ssa.Function, depth int) bool {
		if user != nil && user(f, depth) {
			return true
		}
		return c.isNewHelper(f, depth)
	}
	x := core.NewExplorer(c.P)
	n, err := x.Paths(fn, o, cb)
	c.R.PathsSeen += n
	c.R.Analysed[core.FuncName(fn)] = true
	return n, err
}

// inlineSet builds an Inline predicate from function names (all must exist).
func (c *Ctx) inlineSet(names ...string) func(*ssa.Function, int) bool {
	set := map[*ssa.Function]bool{}
	for _, n := range names {
		set[c.fn(n)] = true
	}
	return func(f *ssa.Function, depth int) bool { return set[f] }
}

func (c *Ctx) pureSet(names ...string) func(*ssa.Function) bool {
	set := map[*ssa.Function]bool{}
	for _, n := range names {
		set[c.fn(n)] = true
	}
	return func(f *ssa.Function) bool { return set[f] }
}

// isNewHelper: an in-package, unexported, small function that is not in the
// list of functions known when the rules were written.
func (c *Ctx) isNewHelper(f *ssa.Function, depth int) bool {
	if f == nil || !c.P.InPkg(f) || depth > 3 || len(f.Blocks) > 60 {
		return false
	}
	if knownFuncs[core.FuncName(f)] || c.P.Converted[f] != "" {
		return false
	}
	if f.Parent() != nil {
		return true // a closure the rules do not know: part of the function that creates it
	}
	if o := f.Object(); o != nil && o.Exported() {
		return false
	}
	return true
}

// borrow runs another property's rule set on the same program and adopts the
// obligations of the rules named in rename (old rule id -> rule id under the
// current property).  Used where one property's clause is decided by exactly
// the construct another property already analyses.
func (c *Ctx) borrow(f PropFunc, rename map[string]string) {
	// properties borrow from each other in both directions (C09 <-> C19): a rule set that is already
	// running further up is not entered again
	id := reflect.ValueOf(f).Pointer()
	for _, on := range c.borrowing {
		if on == id {
			return
		}
	}
	sub := core.NewResult(c.R.Prop, c.P)
	f(&Ctx{P: c.P, R: sub, Tier: c.Tier, borrowing: append(append([]uintptr{}, c.borrowing...), id)})
	c.R.PathsSeen += sub.PathsSeen
	n := 0
	for _, o := range sub.Obs {
		to, ok := rename[o.Rule]
		if !ok {
			continue
		}
		o.Rule = to
		c.R.Obs = append(c.R.Obs, o)
		if o.Func != "" {
			c.R.Analysed[o.Func] = true
		}
		n++
	}
	if n == 0 {
		for _, to := range rename {
			c.R.Fail(to, "", "borrowed-rule-produced-no-obligation", token.NoPos, "the rule this clause is shared with produced no obligation")
		}
	}
}

// hostsOf: the functions in whose exploration the code of f is seen.  f itself
// when it is a function the rules know; for a helper extracted by a later
// refactoring (which explore() inlines into its callers) the callers,
// transitively.
func (c *Ctx) hostsOf(f *ssa.Function) []*ssa.Function {
	seen := map[*ssa.Function]bool{}
	var out []*ssa.Function
	var visit func(g *ssa.Function, depth int)
	visit = func(g *ssa.Function, depth int) {
		if seen[g] || depth > 4 {
			return
		}
		seen[g] = true
		if !c.isNewHelper(g, 1) {
			out = append(out, g)
			return
		}
		n := 0
		for _, h := range c.P.FuncList {
			if h == g {
				continue
			}
			if c.P.Mod(h).Callees[g] && callsDirectly(h, g) {
				n++
				visit(h, depth+1)
			}
		}
		if n == 0 {
			out = append(out, g) // no caller: judge it on its own
		}
	}
	visit(f, 0)
	return out
}

func callsDirectly(h, g *ssa.Function) bool {
	for _, b := range h.Blocks {
		for _, in := range b.Instrs {
			if ci, ok := in.(ssa.CallInstruction); ok && ci.Common().StaticCallee() == g {
				return true
			}
		}
	}
	return false
}

// returnedFunc: the function value a constructor-like function returns on
// every path: the closure's function, or — when the closure became a struct
// with a method (`return dd.dialContext`) — the method behind the bound-method
// wrapper.  Unresolvable shapes are anchor errors.
func (c *Ctx) returnedFunc(wrapper string) *ssa.Function {
	w := c.fn(wrapper)
	var out *ssa.Function
	for _, b := range w.Blocks {
		for _, in := range b.Instrs {
			ret, ok := in.(*ssa.Return)
			if !ok || len(ret.Results) == 0 {
				continue
			}
			v := ret.Results[0]
			for {
				if ct, isCT := v.(*ssa.ChangeType); isCT {
					v = ct.X
					continue
				}
				break
			}
			mc, isMC := v.(*ssa.MakeClosure)
			if !isMC {
				continue
			}
			f := mc.Fn.(*ssa.Function)
			if strings.HasPrefix(f.Synthetic, "bound method wrapper") {
				for _, bb := range f.Blocks {
					for _, ii := range bb.Instrs {
						if ci, isCall := ii.(ssa.CallInstruction); isCall {
							if g := ci.Common().StaticCallee(); g != nil && c.P.InPkg(g) {
								f = g
							}
						}
					}
				}
			}
			if out != nil && out != f {
				panic(core.AnchorErr{What: "function returned by " + wrapper + " (several)"})
			}
			out = f
		}
	}
	if out == nil {
		panic(core.AnchorErr{What: "function returned by " + wrapper})
	}
	return out
}

// isCapturedState: t is state the function fn carries from its constructor: a
// captured variable of a closure (or a load of one), or a field of the
// method's receiver.
func isCapturedState(fn *ssa.Function, t *core.Term) bool {
	t = strip(t)
	if t.Kind == core.KFree || (t.Kind == core.KLoad && t.Args[0].Kind == core.KFree) {
		return true
	}
	if t.Kind == core.KLoad && t.Args[0].Kind == core.KFieldAddr && fn.Signature.Recv() != nil && len(fn.Params) > 0 {
		b := strip(t.Args[0].Args[0])
		return b.Kind == core.KParam && b.Ref == fn.Params[0]
	}
	return false
}

// GenShapes renders rules/known_shapes.go for the loaded tree (maintenance aid: run on the tree the rules were written for).
func GenShapes(p *core.Prog) string {
	var b strings.Builder
	b.WriteString("package rules\n\n// Code generated by `wsverif -gen-shapes`; fingerprints of the anchor functions and of all struct fields on the\n// tree the rules were written for (see core/shapes.go).  Not a rule: used only to re-bind an anchor after a pure rename.\n\nvar knownFuncShapes = map[string]string{\n")
	names := make([]string, 0, len(knownFuncs))
	for n := range knownFuncs {
		names = append(names, n)
	}
	sort.Strings(names)
	for _, n := range names {
		if strings.Contains(n, "$") {
			continue
		}
		if f := p.FuncOpt(n); f != nil {
			fmt.Fprintf(&b, "\t%q: %q,\n", n, p.FuncShape(f))
		}
	}
	b.WriteString("}\n\nvar knownFieldShapes = map[string]string{\n")
	scope := p.Types.Scope()
	tnames := scope.Names()
	sort.Strings(tnames)
	for _, tn := range tnames {
		o, ok := scope.Lookup(tn).(*types.TypeName)
		if !ok {
			continue
		}
		st, ok := o.Type().Underlying().(*types.Struct)
		if !ok {
			continue
		}
		for i := 0; i < st.NumFields(); i++ {
			fmt.Fprintf(&b, "\t%q: %q,\n", tn+"."+st.Field(i).Name(), p.FieldShape(tn, st.Field(i)))
		}
	}
	b.WriteString("}\n\nvar knownTypeShapes = map[string]string{\n")
	for _, tn := range tnames {
		o, ok := scope.Lookup(tn).(*types.TypeName)
		if !ok || o.IsAlias() {
			continue
		}
		if n, isN := o.Type().(*types.Named); isN {
			if _, isSt := n.Underlying().(*types.Struct); isSt {
				fmt.Fprintf(&b, "\t%q: %q,\n", tn, p.TypeShape(n))
			}
		}
	}
	b.WriteString("}\n\nvar knownGlobalShapes = map[string]string{\n")
	gnames := make([]string, 0, len(p.SPkg.Members))
	for n := range p.SPkg.Members {
		gnames = append(gnames, n)
	}
	sort.Strings(gnames)
	for _, n := range gnames {
		if g, ok := p.SPkg.Members[n].(*ssa.Global); ok && !strings.HasPrefix(n, "init$") {
			fmt.Fprintf(&b, "\t%q: %q,\n", n, p.GlobalShape(g))
		}
	}
	b.WriteString("}\n")
	return b.String()
}
