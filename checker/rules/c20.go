package rules

import (
	"go/types"

	"golang.org/x/tools/go/ssa"

	"wsverif/core"
)

func init() {
	register("C20", "Decides the typestate of the pooled write buffer: taken only by beginMessage after validation and only when none is held, returned exactly once by endMessage which also forgets it, every message end (final flush, error, invalid control frame) passes through endMessage with a non-nil error so the writer is dead afterwards, no writer method touches the buffer after a call that may have released it, and a buffer is held between messages only when no pool is configured.", c20)
}

type writerA struct {
	c                                                      *Ctx
	begin, end, flush, ncopy, mwWrite, mwWS, mwRF, mwClose *ssa.Function
	writeFatal, nextWriter, writeMessage                   *ssa.Function
	writeBuf, writePool, writer, mwErr, mwC, mwPos         *types.Var
}

func newWriterA(c *Ctx) *writerA {
	w := &writerA{c: c}
	w.begin, w.end, w.flush = c.fn("(*Conn).beginMessage"), c.fn("(*messageWriter).endMessage"), c.fn("(*messageWriter).flushFrame")
	w.ncopy, w.mwWrite, w.mwWS = c.fn("(*messageWriter).ncopy"), c.fn("(*messageWriter).Write"), c.fn("(*messageWriter).WriteString")
	w.mwRF, w.mwClose = c.fn("(*messageWriter).ReadFrom"), c.fn("(*messageWriter).Close")
	w.writeFatal, w.nextWriter, w.writeMessage = c.fn("(*Conn).writeFatal"), c.fn("(*Conn).NextWriter"), c.fn("(*Conn).WriteMessage")
	w.writeBuf, w.writePool, w.writer = c.P.Field("Conn", "writeBuf"), c.P.Field("Conn", "writePool"), c.P.Field("Conn", "writer")
	w.mwErr, w.mwC, w.mwPos = c.P.Field("messageWriter", "err"), c.P.Field("messageWriter", "c"), c.P.Field("messageWriter", "pos")
	return w
}

// poolCall: invoke of BufferPool.Get / Put on a load of Conn.writePool.
func (w *writerA) poolCall(ev *core.Event, name string) bool {
	if ev.Kind != core.EvCall || ev.Static != nil || ev.Method == nil || ev.Method.Name() != name {
		return false
	}
	_, ok := fieldLoad(strip(ev.Recv), w.writePool)
	return ok
}

func c20(c *Ctx) {
	r := c.R
	w := newWriterA(c)
	pure := c.pureSet("isControl", "isData")
	r.Rule("C20.owners", "BufferPool.Get (on any value of the BufferPool type: Conn.writePool, Upgrader/Dialer.WriteBufferPool, copies) is called only in beginMessage and Put only in endMessage (or private helpers called only from them)")
	r.Rule("C20.get-after-validate", "in beginMessage the pool is consulted only after the message type and the sticky write error were checked, and only when Conn.writeBuf is nil")
	r.Rule("C20.put-once", "in endMessage Put is guarded by the first-call test (w.err == nil) and writePool != nil, passes the current Conn.writeBuf, and the field is set to nil afterwards; w.err is set on that path")
	r.Rule("C20.end-nonnil", "every argument given to endMessage is non-nil by construction or by a path literal (otherwise the writer would stay alive after its buffer was released)")
	r.Rule("C20.all-exits", "every path of flushFrame that returns an error, or returns after the final frame, has passed endMessage; a successful non-final flush has not")
	r.Rule("C20.no-use-after", "every access to Conn.writeBuf in the message-writer methods happens while the writer is known alive: w.err == nil at entry, or the last call that may release the buffer returned a nil error")
	r.Rule("C20.held-only-without-pool", "newConn allocates a connection-lifetime buffer only when no pool is given; Upgrade hands over the hijacked buffer only when no pool is configured")
	r.Rule("C20.implicit-close", "beginMessage closes a still-open previous writer before anything else; NextWriter/WriteMessage install the new writer only after beginMessage succeeded")
	r.Assume("the application's BufferPool implementation is correct (Get returns a value previously Put or nil)")
	r.Table("flateWriteWrapper.Close 'unexpected bytes at end of flate stream' return: skips the inner Close; reachable only if compress/flate's sync flush did not end in 00 00 ff ff (library guarantee), reviewed")

	// ---- owners
	for _, fn := range c.P.FuncList {
		for _, b := range fn.Blocks {
			for _, in := range b.Instrs {
				ci, ok := in.(ssa.CallInstruction)
				if !ok || !ci.Common().IsInvoke() {
					continue
				}
				m := ci.Common().Method.Name()
				if m != "Get" && m != "Put" {
					continue
				}
				// any value of the BufferPool interface type: Conn.writePool, but also Upgrader.WriteBufferPool
				// or Dialer.WriteBufferPool used directly, a local copy, a parameter
				if nt, isN := ci.Common().Value.Type().(*types.Named); !isN || nt.Obj().Pkg() != c.P.Pkg.Types || nt.Obj().Name() != "BufferPool" {
					continue
				}
				want := w.begin
				if m == "Put" {
					want = w.end
				}
				r.Check("C20.owners", shortFn(fn), "writePool."+m, in.Pos(), fn == want || c.privateHelperOf(fn, want), "writePool."+m+" may only be called from "+shortFn(want))
			}
		}
	}
	r.Floor("C20.owners", 2)

	// ---- get-after-validate
	{
		ok, why := true, "Get is dominated by the type guard, [writeErr == nil] and [writeBuf == nil]"
		n := 0
		writeErr := c.P.Field("Conn", "writeErr")
		c.explore("C20.get-after-validate", w.begin, core.Opts{Pure: pure, RecordLoads: true}, func(p *core.Path) {
			for i := range p.Events {
				ev := &p.Events[i]
				if !w.poolCall(ev, "Get") {
					continue
				}
				n++
				g1 := hasLit(p, ev.NLits, true, func(t *core.Term) bool { return t.Kind == core.KApp })
				g2 := hasLit(p, ev.NLits, true, func(t *core.Term) bool {
					return isEqNil(t, func(y *core.Term) bool { _, is := fieldLoad(y, writeErr); return is })
				})
				g3 := hasLit(p, ev.NLits, true, func(t *core.Term) bool {
					return isEqNil(t, func(y *core.Term) bool { _, is := fieldLoad(y, w.writeBuf); return is })
				})
				if !g1 {
					ok, why = false, "a pool buffer is taken before the message type was validated"
				}
				if !g2 {
					ok, why = false, "a pool buffer is taken before the sticky write error was checked (a dead connection would take and keep a buffer)"
				}
				if !g3 {
					ok, why = false, "a pool buffer is taken although the connection may already hold one"
				}
			}
			// every error return leaves the buffer state untouched
			if p.End == core.EndReturn && len(p.Results) == 1 && !p.Results[0].IsNil() {
				for i := range p.Events {
					if ev := &p.Events[i]; ev.Kind == core.EvStore && isFieldAddr(ev.Addr, w.writeBuf) {
						ok, why = false, "beginMessage fails after having installed a write buffer"
					}
				}
			}
		})
		r.Check("C20.get-after-validate", shortFn(w.begin), "Get-dominated-by-guards", w.begin.Pos(), ok && n > 0, why)
	}

	// ---- put-once
	{
		ok, why := true, "Put(writePoolData{buf: c.writeBuf}) under [w.err == nil] and [writePool != nil], then writeBuf = nil; w.err = err"
		n := 0
		c.explore("C20.put-once", w.end, core.Opts{RecordLoads: true}, func(p *core.Path) {
			if p.End != core.EndReturn {
				return
			}
			errSet := false
			for i := range p.Events {
				ev := &p.Events[i]
				if ev.Kind == core.EvStore && isFieldAddr(ev.Addr, w.mwErr) && ev.Val.Kind == core.KParam {
					errSet = true
				}
				if !w.poolCall(ev, "Put") {
					continue
				}
				n++
				first := hasLit(p, ev.NLits, true, func(t *core.Term) bool {
					return isEqNil(t, func(y *core.Term) bool { _, is := fieldLoad(y, w.mwErr); return is })
				})
				if !first {
					ok, why = false, "Put is not guarded by the first-call test [w.err == nil] (the buffer could be returned twice)"
				}
				if !mentionsFieldLoad(ev.Args[0], w.writeBuf) {
					ok, why = false, "the value put into the pool is not the connection's current write buffer"
				}
			}
			firstCall := hasLit(p, len(p.Lits), true, func(t *core.Term) bool {
				return isEqNil(t, func(y *core.Term) bool { _, is := fieldLoad(y, w.mwErr); return is })
			})
			poolSet := hasLit(p, len(p.Lits), false, func(t *core.Term) bool {
				return isEqNil(t, func(y *core.Term) bool { _, is := fieldLoad(y, w.writePool); return is })
			})
			if firstCall && !errSet {
				ok, why = false, "endMessage does not mark the writer dead (w.err) on its first call"
			}
			if firstCall && poolSet {
				put := false
				for i := range p.Events {
					if w.poolCall(&p.Events[i], "Put") {
						put = true
					}
				}
				if !put {
					ok, why = false, "a message ends with a pool configured but the buffer is not returned"
				}
			}
			// c.writer cleared
			if firstCall {
				cleared := false
				for i := range p.Events {
					if ev := &p.Events[i]; ev.Kind == core.EvStore && isFieldAddr(ev.Addr, w.writer) && ev.Val.IsNil() {
						cleared = true
					}
				}
				if !cleared {
					ok, why = false, "endMessage does not clear Conn.writer"
				}
			}
		})
		r.Check("C20.put-once", shortFn(w.end), "Put-guarded-and-complete", w.end.Pos(), ok && n > 0, why)
		c.poolTypestate("C20.put-once", "(*messageWriter).endMessage")
	}

	// ---- end-nonnil
	{
		for _, g := range c.P.FuncList {
			calls := false
			for _, b := range g.Blocks {
				for _, in := range b.Instrs {
					if ci, ok := in.(ssa.CallInstruction); ok && ci.Common().StaticCallee() == w.end {
						calls = true
					}
				}
			}
			if !calls {
				continue
			}
			ok, why := true, "every endMessage argument is non-nil"
			c.explore("C20.end-nonnil", g, core.Opts{Pure: pure, Unroll: 0}, func(p *core.Path) {
				for i := range p.Events {
					ev := &p.Events[i]
					if !callsStatic(ev, w.end) || len(ev.Args) != 2 {
						continue
					}
					a := ev.Args[1]
					if c.nonNilErr(a) {
						continue
					}
					if a.Kind == core.KCall && a.Ref == interface{}(w.writeFatal) && len(a.Args) == 2 && c.nonNilErr(a.Args[1]) {
						continue
					}
					if hasLit(p, ev.NLits, false, func(t *core.Term) bool { return isEqNil(t, func(y *core.Term) bool { return y == a }) }) {
						continue
					}
					ok, why = false, "endMessage("+a.String()+") at "+c.P.Pos(ev.Instr.Pos())+": the argument may be nil, which releases the buffer but leaves the writer usable"
				}
			})
			r.Check("C20.end-nonnil", shortFn(g), "endMessage-argument-non-nil", g.Pos(), ok, why)
		}
		r.Floor("C20.end-nonnil", 1)
	}

	w.allExits("C20.all-exits")
	w.localWriters("C20.all-exits")

	w.noUseAfter()
	w.heldOnlyWithoutPool()
	w.poolPlumbing()
	w.bufferIdentity()
	w.writeErrorEndsMessage()
	w.implicitClose()
}

// privateHelperOf: fn is unexported, never used as a value, and all its static
// callers are owner (or private helpers of owner).
func (c *Ctx) privateHelperOf(fn, owner *ssa.Function) bool {
	if fn.Object() != nil && fn.Object().Exported() {
		return false
	}
	callers := 0
	for _, g := range c.P.FuncList {
		for _, b := range g.Blocks {
			for _, in := range b.Instrs {
				for _, op := range in.Operands(nil) {
					if *op != ssa.Value(fn) {
						continue
					}
					ci, isCall := in.(ssa.CallInstruction)
					if !isCall || ci.Common().Value != ssa.Value(fn) {
						return false
					}
					if _, isGo := in.(*ssa.Go); isGo {
						return false
					}
					if g != owner && !(g != fn && c.privateHelperOf(g, owner)) {
						return false
					}
					callers++
				}
			}
		}
	}
	return callers > 0
}

// allExits: every path of flushFrame that returns an error, or returns after
// the final frame, has passed endMessage (the writer is detached from the
// connection and whatever it buffered can never be flushed later); a
// successful non-final flush has not.
func (w *writerA) allExits(rule string) {
	c, r := w.c, w.c.R
	pure := c.pureSet("isControl", "isData")
	ok, why := true, "error returns and final-frame returns pass endMessage; successful non-final flushes do not"
	n := 0
	c.explore(rule, w.flush, core.Opts{Pure: pure}, func(p *core.Path) {
		if p.End != core.EndReturn || len(p.Results) != 1 {
			return
		}
		n++
		ended := false
		for i := range p.Events {
			if callsStatic(&p.Events[i], w.end) {
				ended = true
			}
		}
		final := hasLit(p, len(p.Lits), true, func(t *core.Term) bool { return t.Kind == core.KParam && t.Ref == w.flush.Params[1] })
		notFinal := hasLit(p, len(p.Lits), false, func(t *core.Term) bool { return t.Kind == core.KParam && t.Ref == w.flush.Params[1] })
		res := p.Results[0]
		switch {
		case !res.IsNil() && !ended:
			ok, why = false, "flushFrame returns an error at "+c.P.Pos(p.Ret.Pos())+" without ending the message (the pooled buffer stays with a dead writer)"
		case res.IsNil() && final && !ended:
			ok, why = false, "flushFrame returns after the final frame without ending the message"
		case res.IsNil() && notFinal && ended:
			ok, why = false, "flushFrame ends the message after a non-final frame"
		case res.IsNil() && !final && !notFinal && !ended:
			ok, why = false, "flushFrame success path does not depend on 'final'"
		}
	})
	r.Check(rule, shortFn(w.flush), "endMessage-on-every-message-end", w.flush.Pos(), ok && n > 5, why)
}
