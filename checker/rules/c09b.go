package rules

import (
	"go/token"
	"go/types"

	"golang.org/x/tools/go/ssa"

	"wsverif/core"
)

// opcodeLeaf: the single non-constant leaf of a byte expression built from a
// value by conversions and |/& with constants (byte(x) | finalBit | rsv1Bit).
func opcodeLeaf(t *core.Term) *core.Term {
	switch t.Kind {
	case core.KConv:
		return opcodeLeaf(t.Args[0])
	case core.KBin:
		if t.Op == token.OR || t.Op == token.AND || t.Op == token.XOR || t.Op == token.ADD {
			a, b := t.Args[0], t.Args[1]
			if b.IsConst() {
				return opcodeLeaf(a)
			}
			if a.IsConst() {
				return opcodeLeaf(b)
			}
		}
		return nil
	case core.KConst:
		return nil
	}
	return t
}

// storedAt finds the value last stored to base[idx] before event index upTo.
func storedAt(p *core.Path, base, idx *core.Term, upTo int) *core.Term {
	var v *core.Term
	for k := 0; k < upTo; k++ {
		e := &p.Events[k]
		if e.Kind == core.EvStore && e.Addr.Kind == core.KIndexAddr && e.Addr.Args[0] == base && e.Addr.Args[1] == idx {
			v = e.Val
		}
	}
	return v
}

// firstAppended finds the first byte appended to an empty buffer in an append chain.
func firstAppended(p *core.Path, buf *core.Term, upTo int) *core.Term {
	for buf.Kind == core.KAppend {
		inner := buf.Args[0]
		if inner.Kind != core.KAppend {
			elems := buf.Args[1]
			if elems.Kind == core.KSlice && elems.Args[0].Kind == core.KAlloc {
				x := p.X
				return storedAt(p, elems.Args[0], x.T.Int(0), upTo)
			}
			return nil
		}
		buf = inner
	}
	return nil
}

// madeBuffer: make([]byte, n[, cap]) as go/ssa shows it (a make term, or a slice of a fresh array).
func madeBuffer(t *core.Term) bool {
	return t.Kind == core.KMake || (t.Kind == core.KSlice && t.Args[0].Kind == core.KAlloc && t.Args[1].Kind == core.KNone)
}

func (t *transport) opcodeAgrees() {
	c, r := t.c, t.c.R
	closeCmp := func(p *core.Path, from int) *core.Term { // term compared with CloseMessage after literal index from
		for k := from; k < len(p.Lits); k++ {
			l := p.Lits[k]
			if l.T.Kind == core.KEq {
				if v, ok := l.T.Args[1].Int64(); ok && v == t.closeMsg {
					return l.T.Args[0]
				}
			}
		}
		return nil
	}
	for _, fn := range c.P.FuncList {
		if !t.sites[fn] || t.unprot[fn] {
			continue
		}
		name := shortFn(fn)
		ok, why := true, ""
		var paramIdx = -1
		seen := 0
		c.explore("C09.opcode-agrees", fn, t.opts(), func(p *core.Path) {
			for i := range p.Events {
				ev := &p.Events[i]
				if _, is := t.writeEvent(ev); !is || !own(ev) || !t.writeSucceeded(p, ev) {
					continue
				}
				x := closeCmp(p, ev.NLits)
				if x == nil {
					continue // close-recorded handles paths without the comparison
				}
				seen++
				// direct write of a locally built buffer: byte 0 must carry x
				if direct, _ := t.writeEvent(ev); direct && len(ev.Args) == 1 && (ev.Args[0].Kind == core.KAppend || madeBuffer(ev.Args[0])) {
					b0 := firstAppended(p, ev.Args[0], i)
					if madeBuffer(ev.Args[0]) { // built by indexed stores
						b0 = storedAt(p, ev.Args[0], p.X.T.Int(0), i)
					}
					if b0 == nil || opcodeLeaf(b0) != x {
						ok, why = false, "the value compared with CloseMessage after the write is not the opcode stored in byte 0 of the written buffer"
					} else if why == "" {
						why = "byte 0 of the written buffer is built from the value compared with CloseMessage"
					}
				} else if x.Kind == core.KParam {
					// the buffer comes from the caller: agreement is an obligation of each call site
					for k, prm := range fn.Params {
						if prm == x.Ref.(*ssa.Parameter) {
							paramIdx = k
						}
					}
				} else {
					ok, why = false, "cannot relate the value compared with CloseMessage ("+x.String()+") to the frame written"
				}
			}
		})
		if seen == 0 {
			continue
		}
		if ok && why == "" {
			why = "compared value is parameter #" + itoa(paramIdx) + "; agreement established at the call sites"
		}
		r.Check("C09.opcode-agrees", name, "compared-value-is-frame-opcode", fn.Pos(), ok, why)
		if paramIdx >= 0 {
			t.callersAgree(fn, paramIdx)
		}
	}
	r.Floor("C09.opcode-agrees", 4)
}

func itoa(n int) string {
	if n < 0 {
		return "-" + itoa(-n)
	}
	if n < 10 {
		return string(rune('0' + n))
	}
	return itoa(n/10) + string(rune('0'+n%10))
}

// callersAgree: each call of the section function passes, as frame type, the
// opcode of the frame contained in the buffer argument.
func (t *transport) callersAgree(section *ssa.Function, paramIdx int) {
	c, r := t.c, t.c.R
	writeBuf := c.P.Field("Conn", "writeBuf")
	pmType := c.P.Field("PreparedMessage", "messageType")
	hosts := map[*ssa.Function]bool{}
	for _, g := range c.P.FuncList {
		if callsDirectly(g, section) {
			for _, h := range c.hostsOf(g) { // a wrapper extracted around the call is judged inside its callers
				hosts[h] = true
			}
		}
	}
	for _, g := range c.P.FuncList {
		if !hosts[g] {
			continue
		}
		ok, why := true, ""
		c.explore("C09.opcode-agrees", g, core.Opts{Unroll: 0, Pure: c.pureSet("isControl", "isData")}, func(p *core.Path) {
			for i := range p.Events {
				ev := &p.Events[i]
				if !callsStatic(ev, section) || !own(ev) || paramIdx >= len(ev.Args) {
					continue
				}
				ft := ev.Args[paramIdx]
				var buf *core.Term
				for _, a := range ev.Args {
					if a.Type != nil {
						if sl, isSl := a.Type.Underlying().(*types.Slice); isSl {
							if bt, isB := sl.Elem().Underlying().(*types.Basic); isB && bt.Kind() == types.Byte {
								buf = a
								break
							}
						}
					}
				}
				switch {
				case buf != nil && buf.Kind == core.KSlice && func() bool { _, y := fieldLoad(buf.Args[0], writeBuf); return y }():
					b0 := storedAt(p, buf.Args[0], buf.Args[1], i)
					if b0 == nil {
						ok, why = false, "no store to byte 0 of the frame handed to "+shortFn(section)
					} else if opcodeLeaf(b0) != ft {
						ok, why = false, "frame type passed to "+shortFn(section)+" ("+ft.String()+") is not the opcode stored in byte 0 of the frame ("+b0.String()+")"
					} else if why == "" {
						why = "frame type argument equals the opcode stored at writeBuf[framePos]"
					}
				case buf != nil && buf.Kind == core.KExtract && ft.Kind == core.KExtract && buf.Args[0] == ft.Args[0] && ft.Args[0].Kind == core.KCall:
					// both come from one call (PreparedMessage.frame): that function must return the type it rendered with
					callee, _ := ft.Args[0].Ref.(*ssa.Function)
					if callee == nil || !t.frameReturnsRenderedType(callee, ft.N, pmType) {
						ok, why = false, "frame type and data come from "+ft.Args[0].String()+" but it does not return the message type it rendered the frame with"
					} else if why == "" {
						why = "frame type and frame bytes come from one call of " + shortFn(callee) + ", which returns the type it rendered with"
					}
				default:
					ok, why = false, "cannot establish that the frame type passed to "+shortFn(section)+" is the opcode of the buffer it is given"
				}
			}
		})
		r.Check("C09.opcode-agrees", shortFn(g), "frame-type-argument-of-"+shortFn(section), g.Pos(), ok, why)
	}
}

// frameReturnsRenderedType: callee returns, at result index ri, a load of
// PreparedMessage.messageType, and every WriteMessage call in its closures
// renders with a load of the same field.
func (t *transport) frameReturnsRenderedType(callee *ssa.Function, ri int, pmType *types.Var) bool {
	c := t.c
	good := true
	c.explore("C09.opcode-agrees", callee, core.Opts{}, func(p *core.Path) {
		if p.End != core.EndReturn || ri >= len(p.Results) {
			return
		}
		if _, ok := fieldLoad(p.Results[ri], pmType); !ok {
			good = false
		}
	})
	wm := c.fn("(*Conn).WriteMessage")
	nRender := 0
	for _, an := range callee.AnonFuncs {
		c.explore("C09.opcode-agrees", an, core.Opts{}, func(p *core.Path) {
			for i := range p.Events {
				ev := &p.Events[i]
				if callsStatic(ev, wm) && len(ev.Args) >= 2 {
					nRender++
					if _, ok := fieldLoad(ev.Args[1], pmType); !ok {
						good = false
					}
				}
			}
		})
	}
	return good && nRender > 0
}

// stickyWrite: writeErr is only ever set from nil to a non-nil value, under writeErrMu.
func (t *transport) stickyWrite() {
	c, r := t.c, t.c.R
	sites := c.P.FieldStoreSites(t.writeErr)
	fns := map[*ssa.Function]bool{}
	for _, s := range sites {
		fns[s.Parent()] = true
	}
	for _, fn := range c.P.FuncList {
		if !fns[fn] {
			continue
		}
		ok, why := true, "store is guarded by [writeErr == nil] on the current value, inside writeErrMu"
		n := 0
		c.explore("C09.sticky-write", fn, core.Opts{RecordLoads: true}, func(p *core.Path) {
			for i := range p.Events {
				ev := &p.Events[i]
				if ev.Kind != core.EvStore || !isFieldAddr(ev.Addr, t.writeErr) {
					continue
				}
				n++
				if ev.Val.IsNil() {
					ok, why = false, "Conn.writeErr is cleared (nil stored) at "+c.P.Pos(ev.Instr.Pos())
					continue
				}
				var cur *core.Term
				locked := false
				for k := 0; k < i; k++ {
					e := &p.Events[k]
					if e.Kind == core.EvLoad && e.Addr == ev.Addr {
						cur = e.Val
					}
					if callsExt(e, "(*sync.Mutex).Lock") && len(e.Args) == 1 && isFieldAddr(e.Args[0], t.writeErrMu) {
						locked = true
						cur = nil
					}
					if callsExt(e, "(*sync.Mutex).Unlock") && len(e.Args) == 1 && isFieldAddr(e.Args[0], t.writeErrMu) {
						locked = false
					}
				}
				if !locked {
					ok, why = false, "store to Conn.writeErr at "+c.P.Pos(ev.Instr.Pos())+" outside writeErrMu"
				} else if cur == nil || !hasLit(p, ev.NLits, true, func(x *core.Term) bool { return isEqNil(x, func(y *core.Term) bool { return y == cur }) }) {
					ok, why = false, "store to Conn.writeErr at "+c.P.Pos(ev.Instr.Pos())+" may overwrite a non-nil sticky error (no [writeErr == nil] test on the value read under the lock)"
				}
			}
		})
		if n > 0 {
			r.Check("C09.sticky-write", shortFn(fn), "store-writeErr", fn.Pos(), ok, why)
		}
	}
	r.Floor("C09.sticky-write", 1)
	// writeFatal's argument must never be the nil constant
	for _, g := range c.P.FuncList {
		for _, b := range g.Blocks {
			for _, in := range b.Instrs {
				if ci, ok := in.(ssa.CallInstruction); ok && ci.Common().StaticCallee() == t.writeFatal {
					a := ci.Common().Args[1]
					if k, isC := a.(*ssa.Const); isC && k.Value == nil {
						r.Fail("C09.sticky-write", shortFn(g), "writeFatal(nil)", in.Pos(), "writeFatal called with a nil error")
					}
				}
			}
		}
	}
}

// earlyCheck: beginMessage fails with the sticky error before preparing anything.
func (t *transport) earlyCheck() {
	c, r := t.c, t.c.R
	fn := c.fn("(*Conn).beginMessage")
	ok, why := true, "every nil return carries [writeErr == nil]; the non-nil branch returns the loaded error"
	c.explore("C09.early-check", fn, core.Opts{RecordLoads: true, Pure: c.pureSet("isControl", "isData")}, func(p *core.Path) {
		if p.End != core.EndReturn || len(p.Results) != 1 {
			return
		}
		var loaded *core.Term
		for i := range p.Events {
			if e := &p.Events[i]; e.Kind == core.EvLoad && isFieldAddr(e.Addr, t.writeErr) {
				loaded = e.Val
			}
		}
		if p.Results[0].IsNil() {
			if loaded == nil || !hasLit(p, len(p.Lits), true, func(x *core.Term) bool { return isEqNil(x, func(y *core.Term) bool { return y == loaded }) }) {
				ok, why = false, "beginMessage can succeed without having found Conn.writeErr nil (return at "+c.P.Pos(p.Ret.Pos())+")"
			}
		} else if loaded != nil && hasLit(p, len(p.Lits), false, func(x *core.Term) bool { return isEqNil(x, func(y *core.Term) bool { return y == loaded }) }) {
			if p.Results[0] != loaded {
				ok, why = false, "beginMessage does not return the sticky error it found"
			}
		}
	})
	r.Check("C09.early-check", shortFn(fn), "sticky-error-before-message", fn.Pos(), ok, why)
}

// deadlineUnderLock: the transport's write deadline belongs to whoever holds
// Conn.mu.  Every SetWriteDeadline / SetDeadline invoked on Conn.conn happens
// after the write lock was acquired on the path (or in an unexported helper
// whose callers hold it): a setter that reaches the transport directly would
// overwrite the deadline of a write another goroutine has in flight.
func (t *transport) deadlineUnderLock(rule string) {
	c, r := t.c, t.c.R
	n := 0
	for _, fn := range t.candidates() {
		if t.unprot[fn] {
			continue // judged at its callers (C09.writers)
		}
		ok, why := true, "every write-deadline call on the transport is made while holding Conn.mu"
		seen := false
		c.explore(rule, fn, t.opts(), func(p *core.Path) {
			for i := range p.Events {
				ev := &p.Events[i]
				if ev.Kind != core.EvCall || ev.Static != nil || ev.Method == nil || !t.isConnLoad(ev.Recv) {
					continue
				}
				if m := ev.Method.Name(); m != "SetWriteDeadline" && m != "SetDeadline" {
					continue
				}
				seen = true
				if _, held := muAcquire(p, t.mu, i); !held {
					ok, why = false, "the transport's write deadline is set at "+c.P.Pos(ev.Instr.Pos())+" without holding Conn.mu: it replaces the deadline of a frame another goroutine is writing (a bounded WriteControl can block for ever, or a long write times out and poisons the connection)"
				}
			}
		})
		if seen {
			n++
			r.Check(rule, shortFn(fn), "write-deadline-under-lock", fn.Pos(), ok, why)
		}
	}
	if n < 2 {
		r.Fail(rule, "", "floor-write-deadline-sites", token.NoPos, "fewer than 2 functions set the transport write deadline (rule blind)")
	}
}
