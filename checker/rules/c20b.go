package rules

import (
	"go/types"
	"golang.org/x/tools/go/ssa"

	"wsverif/core"
)

// noUseAfter: accesses to Conn.writeBuf only while the writer is alive.
func (w *writerA) noUseAfter() {
	c, r := w.c, w.c.R
	for _, fn := range []*ssa.Function{w.mwWrite, w.mwWS, w.mwRF, w.ncopy, w.mwClose, w.flush} {
		ok, why := true, "every access to Conn.writeBuf is preceded by [w.err == nil] at entry or by a nil error from the last call that may release the buffer"
		nAcc := 0
		c.explore("C20.no-use-after", fn, core.Opts{Unroll: 0, RecordLoads: true, Pure: c.pureSet("isControl", "isData")}, func(p *core.Path) {
			lastRelease := -1 // index of last call that may run endMessage
			var lastErr *core.Term
			for i := range p.Events {
				ev := &p.Events[i]
				if ev.Kind == core.EvCall && !ev.Inlined && ev.Static != nil && c.P.InPkg(ev.Static) && (ev.Static == w.end || c.P.Mod(ev.Static).Writes[w.mwErr]) {
					lastRelease = i
					lastErr = errOf(p.X, ev.Result)
					continue
				}
				isAcc := ev.Kind == core.EvLoad && isFieldAddr(ev.Addr, w.writeBuf)
				if !isAcc {
					continue
				}
				nAcc++
				if lastRelease < 0 {
					if fn == w.flush || fn == w.ncopy {
						continue // called only by methods that checked w.err (their callers are checked here too)
					}
					if !hasLit(p, ev.NLits, true, func(t *core.Term) bool {
						return isEqNil(t, func(y *core.Term) bool { _, is := fieldLoad(y, w.mwErr); return is })
					}) {
						ok, why = false, "Conn.writeBuf is accessed at "+c.P.LoadPos(p, i)+" without first checking that the writer is still open (w.err == nil)"
					}
					continue
				}
				le := lastErr
				if le == nil || !hasLit(p, ev.NLits, true, func(t *core.Term) bool { return isEqNil(t, func(y *core.Term) bool { return y == le }) }) {
					ok, why = false, "Conn.writeBuf is accessed after "+c.P.EventString(&p.Events[lastRelease])+" without knowing that call succeeded (the buffer may already be back in the pool)"
				}
			}
		})
		r.Check("C20.no-use-after", shortFn(fn), "writeBuf-access-while-alive", fn.Pos(), ok, why)
	}
	// ncopy / flushFrame are only called from methods that verified w.err == nil (or from WriteMessage's fast path right after beginMessage)
	for _, callee := range []*ssa.Function{w.ncopy, w.flush} {
		hosts := map[*ssa.Function]bool{}
		for _, g := range c.P.FuncList {
			if callsDirectly(g, callee) {
				for _, h := range c.hostsOf(g) { // an extracted helper is judged inside its callers
					hosts[h] = true
				}
			}
		}
		for _, g := range c.P.FuncList {
			calls := hosts[g]
			if !calls {
				continue
			}
			ok, why := true, "called only with a live writer"
			c.explore("C20.no-use-after", g, core.Opts{Unroll: 0, RecordLoads: true}, func(p *core.Path) {
				var lastErr *core.Term
				seenRelease := false
				begun := false
				for i := range p.Events {
					ev := &p.Events[i]
					if callsStatic(ev, w.begin) {
						be := errOf(p.X, ev.Result)
						begun = hasLit(p, len(p.Lits), true, func(t *core.Term) bool { return isEqNil(t, func(y *core.Term) bool { return y == be }) })
					}
					if callsStatic(ev, callee) {
						alive := begun || hasLit(p, ev.NLits, true, func(t *core.Term) bool {
							return isEqNil(t, func(y *core.Term) bool { _, is := fieldLoad(y, w.mwErr); return is })
						})
						if seenRelease {
							le := lastErr
							alive = le != nil && hasLit(p, ev.NLits, true, func(t *core.Term) bool { return isEqNil(t, func(y *core.Term) bool { return y == le }) })
						}
						if g == w.ncopy || g == w.flush {
							alive = true // internal: their own callers carry the obligation
						}
						if !alive {
							ok, why = false, shortFn(callee)+" is called at "+c.P.Pos(ev.Instr.Pos())+" without knowing that the writer is still open"
						}
					}
					if ev.Kind == core.EvCall && !ev.Inlined && ev.Static != nil && c.P.InPkg(ev.Static) && c.P.Mod(ev.Static).Writes[w.mwErr] {
						seenRelease = true
						lastErr = errOf(p.X, ev.Result)
					}
				}
			})
			r.Check("C20.no-use-after", shortFn(g), "calls-"+shortFn(callee)+"-with-live-writer", g.Pos(), ok, why)
		}
	}
	r.Floor("C20.no-use-after", 10)
}

// heldOnlyWithoutPool: connection-lifetime buffers exist only without a pool.
func (w *writerA) heldOnlyWithoutPool() {
	c, r := w.c, w.c.R
	nc := c.fn("newConn")
	poolParam, bufParam := nc.Params[4], nc.Params[6]
	ok, why := true, "newConn stores a non-nil writeBuf only when it was given one or when no pool is configured"
	c.explore("C20.held-only-without-pool", nc, core.Opts{}, func(p *core.Path) {
		if p.End != core.EndReturn {
			return
		}
		for i := range p.Events {
			ev := &p.Events[i]
			if ev.Kind != core.EvStore || !isFieldAddr(ev.Addr, w.writeBuf) {
				continue
			}
			v := ev.Val
			if v.IsNil() || (v.Kind == core.KParam && v.Ref == bufParam) {
				continue
			}
			if !hasLit(p, ev.NLits, true, func(t *core.Term) bool {
				return isEqNil(t, func(y *core.Term) bool { return strip(y).Kind == core.KParam && strip(y).Ref == poolParam })
			}) {
				ok, why = false, "newConn allocates a connection-lifetime write buffer although a pool is configured"
			}
		}
	})
	r.Check("C20.held-only-without-pool", shortFn(nc), "allocate-only-without-pool", nc.Pos(), ok, why)
	// callers of newConn: a non-nil writeBuf argument requires the pool argument to be known nil
	for _, g := range c.P.FuncList {
		for _, b := range g.Blocks {
			for _, in := range b.Instrs {
				ci, isCall := in.(ssa.CallInstruction)
				if !isCall || ci.Common().StaticCallee() != nc {
					continue
				}
				bufArg := ci.Common().Args[6]
				if k, isC := bufArg.(*ssa.Const); isC && k.Value == nil {
					r.Pass("C20.held-only-without-pool", shortFn(g), "newConn-writeBuf-argument", in.Pos(), "passes a nil write buffer")
					continue
				}
				// path check
				okc, whyc := true, "a hijacked buffer is handed over only under [WriteBufferPool == nil]"
				wbp := c.P.Field("Upgrader", "WriteBufferPool")
				c.explore("C20.held-only-without-pool", g, core.Opts{Unroll: 0, NonNilOnNilErr: true, MaxPaths: 400000, Stop: func(x *core.Explorer, ev *core.Event) bool { return callsStatic(ev, nc) }}, func(p *core.Path) {
					if p.End != core.EndStop {
						return
					}
					ev := &p.Events[len(p.Events)-1]
					if ev.Args[6].IsNil() {
						return
					}
					if !hasLit(p, ev.NLits, true, func(t *core.Term) bool {
						return isEqNil(t, func(y *core.Term) bool { _, is := fieldLoad(strip(y), wbp); return is })
					}) {
						okc, whyc = false, "a connection-lifetime write buffer is handed to newConn although a pool may be configured"
					}
				})
				r.Check("C20.held-only-without-pool", shortFn(g), "newConn-writeBuf-argument", in.Pos(), okc, whyc)
			}
		}
	}
}

// poolPlumbing: the pool reaches the connection through newConn and nowhere
// else: Conn.writePool is stored only by newConn (from its parameter), and
// Upgrade / DialContext pass their configured WriteBufferPool as that
// parameter.  A connection that receives its pool later has already allocated
// a buffer of its own, which it then holds between messages and finally puts
// into the pool.
func (w *writerA) poolPlumbing() {
	c, r := w.c, w.c.R
	nc := c.fn("newConn")
	for _, st := range c.P.FieldStoreSites(w.writePool) {
		okS := false
		for _, h := range c.hostsOf(st.Parent()) {
			okS = h == nc
		}
		if p, isP := st.Val.(*ssa.Parameter); okS && st.Parent() == nc && !(isP && p == nc.Params[4]) {
			okS = false
		}
		r.Check("C20.held-only-without-pool", shortFn(st.Parent()), "writer-of-writePool", st.Pos(), okS, "Conn.writePool is assigned only by newConn, from its pool parameter")
	}
	n := 0
	for _, g := range c.P.FuncList {
		if !callsDirectly(g, nc) || g.Synthetic != "" {
			continue
		}
		var cfg *types.Var
		for _, h := range c.hostsOf(g) {
			switch shortFn(h) {
			case "(*Upgrader).Upgrade":
				cfg = c.P.Field("Upgrader", "WriteBufferPool")
			case "(*Dialer).DialContext":
				cfg = c.P.Field("Dialer", "WriteBufferPool")
			}
		}
		if cfg == nil {
			continue
		}
		ok, why := true, "newConn is given the configured WriteBufferPool"
		seen := 0
		c.explore("C20.held-only-without-pool", g, core.Opts{Unroll: 0, NonNilOnNilErr: true, MaxPaths: 400000, Stop: func(x *core.Explorer, ev *core.Event) bool { return callsStatic(ev, nc) }}, func(p *core.Path) {
			if p.End != core.EndStop {
				return
			}
			seen++
			ev := &p.Events[len(p.Events)-1]
			if _, is := fieldLoad(strip(ev.Args[4]), cfg); !is {
				ok, why = false, "newConn is called at "+c.P.Pos(ev.Instr.Pos())+" with the pool argument "+ev.Args[4].String()+" instead of the configured WriteBufferPool: the connection allocates and keeps a buffer of its own"
			}
		})
		if seen > 0 {
			n++
			r.Check("C20.held-only-without-pool", shortFn(g), "newConn-pool-argument", g.Pos(), ok, why)
		}
	}
	if n < 2 {
		r.Fail("C20.held-only-without-pool", "", "newConn-callers", nc.Pos(), "fewer than the 2 known configuration-carrying callers of newConn were analysed")
	}
}

// bufferIdentity: between beginMessage (Get) and endMessage (Put) Conn.writeBuf
// is the same slice: the field is assigned only by newConn, beginMessage and
// endMessage (and by the function that builds a private rendering Conn in a
// literal).  A writer method that swaps in another buffer hands the pool a
// buffer it never gave out and drops the one it did.
func (w *writerA) bufferIdentity() {
	c, r := w.c, w.c.R
	allowed := map[*ssa.Function]bool{c.fn("newConn"): true, w.begin: true, w.end: true}
	n := 0
	for _, st := range c.P.FieldStoreSites(w.writeBuf) {
		n++
		okS := true
		for _, h := range c.hostsOf(st.Parent()) {
			if allowed[h] {
				continue
			}
			// a Conn allocated by the storing function itself (the private rendering connection of a PreparedMessage)
			if fa, isFA := st.Addr.(*ssa.FieldAddr); isFA {
				if _, isNew := fa.X.(*ssa.Alloc); isNew {
					continue
				}
			}
			okS = false
		}
		r.Check("C20.put-once", shortFn(st.Parent()), "writer-of-Conn.writeBuf", st.Pos(), okS, "Conn.writeBuf is assigned only by newConn, beginMessage and endMessage: the buffer taken from the pool is the one returned to it")
	}
	if n < 3 {
		r.Fail("C20.put-once", "", "writers-of-Conn.writeBuf", w.begin.Pos(), "fewer than 3 stores of Conn.writeBuf found")
	}
}

// writeErrorEndsMessage: WriteMessage (and applications following the
// io.Writer contract) give up on a message when Write fails, without calling
// Close: every non-nil error returned by Write / WriteString / ReadFrom is
// either the error the message already ended with (w.err) or comes from a path
// that has passed endMessage, so the pooled buffer is back in the pool.
func (w *writerA) writeErrorEndsMessage() {
	c, r := w.c, w.c.R
	inl := func(f *ssa.Function, depth int) bool { return f == w.ncopy || f == w.flush }
	for _, fn := range []*ssa.Function{w.mwWrite, w.mwWS, w.mwRF} {
		ok, why := true, "a failing write has ended the message (endMessage on the path, or the error is w.err)"
		n := 0
		c.explore("C20.all-exits", fn, core.Opts{Unroll: 0, Inline: inl, MaxPaths: 400000}, func(p *core.Path) {
			if p.End != core.EndReturn || len(p.Results) != 2 {
				return
			}
			e := p.Results[1]
			if e.IsNil() || hasLit(p, len(p.Lits), true, func(t *core.Term) bool { return isEqNil(t, is(e)) }) {
				return
			}
			n++
			if _, is := fieldLoad(strip(e), w.mwErr); is {
				return
			}
			for i := range p.Events {
				if callsStatic(&p.Events[i], w.end) {
					return
				}
			}
			// a read error of ReadFrom's source leaves the message open on purpose (the caller still has to Close)
			if fn == w.mwRF {
				if s := strip(e); s.Kind == core.KExtract && s.Args[0].Kind == core.KCall {
					if _, isF := s.Args[0].Ref.(*ssa.Function); !isF {
						return
					}
				}
			}
			ok, why = false, "the path returning at "+c.P.Pos(p.Ret.Pos())+" returns the error "+e.String()+" without the message having ended: WriteMessage returns without closing the writer and the pooled buffer stays with the connection"
		})
		r.Check("C20.all-exits", shortFn(fn), "write-error-ends-message", fn.Pos(), ok && n > 0, why)
	}
}

// sameObject strips conversions, boxing and interface-to-interface type
// assertions (w.(io.StringWriter) is w).
func sameObject(t *core.Term) *core.Term {
	for t != nil {
		switch {
		case t.Kind == core.KConv || t.Kind == core.KMakeIface:
			t = t.Args[0]
		case t.Kind == core.KTypeAssert:
			t = t.Args[0]
		case t.Kind == core.KExtract && t.N == 0 && t.Args[0].Kind == core.KTypeAssert:
			t = t.Args[0].Args[0]
		default:
			return t
		}
	}
	return t
}

// implicitClose: previous writer closed first; new writer installed after success.
func (w *writerA) implicitClose() {
	c, r := w.c, w.c.R
	ok, why := true, "a still-open previous writer is closed and Conn.writer cleared before the new message is validated"
	c.explore("C20.implicit-close", w.begin, core.Opts{Pure: c.pureSet("isControl", "isData"), RecordLoads: true}, func(p *core.Path) {
		if p.End != core.EndReturn {
			return
		}
		open := hasLit(p, len(p.Lits), false, func(t *core.Term) bool {
			return isEqNil(t, func(y *core.Term) bool { _, is := fieldLoad(y, w.writer); return is })
		})
		if !open {
			none := hasLit(p, len(p.Lits), true, func(t *core.Term) bool {
				return isEqNil(t, func(y *core.Term) bool { _, is := fieldLoad(y, w.writer); return is })
			})
			if !none {
				ok, why = false, "beginMessage returns at "+c.P.Pos(p.Ret.Pos())+" without having looked at the previous writer: a writer the application left open keeps its pooled buffer for good when the connection has failed through another path"
			}
			return
		}
		closedAt := -1
		for i := range p.Events {
			ev := &p.Events[i]
			if ev.Kind == core.EvCall && ev.Static == nil && ev.Method != nil && ev.Method.Name() == "Close" {
				if _, is := fieldLoad(strip(ev.Recv), w.writer); is {
					closedAt = i
				}
			}
		}
		if closedAt < 0 {
			ok, why = false, "beginMessage starts a new message while a previous writer is still open (its buffer would be reused or leaked)"
			return
		}
		for i := 0; i < closedAt; i++ {
			ev := &p.Events[i]
			if w.poolCall(ev, "Get") || (ev.Kind == core.EvStore && ev.Addr.Kind == core.KFieldAddr && ev.Addr.Var != w.writer) {
				ok, why = false, "beginMessage prepares the new message before closing the previous writer"
			}
		}
	})
	r.Check("C20.implicit-close", shortFn(w.begin), "previous-writer-closed-first", w.begin.Pos(), ok, why)
	for _, g := range []*ssa.Function{w.nextWriter, w.writeMessage} {
		ok2, why2 := true, "Conn.writer is assigned only after beginMessage returned nil"
		c.explore("C20.implicit-close", g, core.Opts{Pure: c.pureSet("isControl", "isData")}, func(p *core.Path) {
			var be *core.Term
			for i := range p.Events {
				ev := &p.Events[i]
				if callsStatic(ev, w.begin) {
					be = errOf(p.X, ev.Result)
				}
				if ev.Kind == core.EvStore && isFieldAddr(ev.Addr, w.writer) && own(ev) && !ev.Val.IsNil() {
					b := be
					if b == nil || !hasLit(p, ev.NLits, true, func(t *core.Term) bool { return isEqNil(t, func(y *core.Term) bool { return y == b }) }) {
						ok2, why2 = false, "Conn.writer is installed at "+c.P.Pos(ev.Instr.Pos())+" although beginMessage may have failed"
					}
				}
			}
		})
		r.Check("C20.implicit-close", shortFn(g), "writer-installed-after-begin", g.Pos(), ok2, why2)
	}
}

// localWriters: a function that opens a message for its own use (WriteMessage,
// WriteJSON, ...) ends it on every path: after a successful NextWriter the
// returned writer is closed, unless the path returns on the error of a Write
// on that very writer (the message writer ends the message itself when a frame
// write fails: C20.all-exits); after a successful beginMessage on a local
// messageWriter the path goes through flushFrame on it.
func (w *writerA) localWriters(rule string) {
	c, r := w.c, w.c.R
	n := 0
	cands := map[*ssa.Function]bool{}
	for _, g := range c.P.FuncList {
		if g == w.nextWriter || g.Blocks == nil {
			continue
		}
		if callsDirectly(g, w.nextWriter) || callsDirectly(g, w.begin) {
			for _, h := range c.hostsOf(g) { // an extracted helper is judged inside its callers
				if h != w.nextWriter {
					cands[h] = true
				}
			}
		}
	}
	for _, g := range c.P.FuncList {
		if !cands[g] {
			continue
		}
		// the writer is handed to the caller: not this function's to close
		handsOut := false
		for i := 0; i < g.Signature.Results().Len(); i++ {
			if types.Implements(g.Signature.Results().At(i).Type(), ioWriterIface(c)) {
				handsOut = true
			}
		}
		if handsOut {
			continue
		}
		ok, why := true, "every message this function opens is ended on every path"
		nOpen := 0
		c.explore(rule, g, core.Opts{Unroll: 0, Pure: c.pureSet("isControl", "isData")}, func(p *core.Path) {
			if p.End != core.EndReturn {
				return
			}
			for i := range p.Events {
				ev := &p.Events[i]
				switch {
				case callsStatic(ev, w.nextWriter) && own(ev):
					e := errOf(p.X, ev.Result)
					if !hasLit(p, len(p.Lits), true, func(t *core.Term) bool { return isEqNil(t, is(e)) }) {
						continue
					}
					nOpen++
					wr := p.X.ExtractOf(ev.Result, 0, nil)
					closed, writeFailed := false, false
					for k := i + 1; k < len(p.Events); k++ {
						e2 := &p.Events[k]
						// io.WriteString(w, s) / fmt.Fprint*(w, ..) fail only when the writer fails
						if e2.Kind == core.EvCall && e2.Static != nil && len(e2.Args) > 0 && strip(e2.Args[0]) == wr {
							switch extName(e2.Static) {
							case "io.WriteString", "fmt.Fprint", "fmt.Fprintf", "fmt.Fprintln":
								we := errOf(p.X, e2.Result)
								if we != nil && hasLit(p, len(p.Lits), false, func(t *core.Term) bool { return isEqNil(t, is(we)) }) {
									writeFailed = true
								}
							}
						}
						if e2.Kind != core.EvCall || e2.Static != nil || e2.Method == nil || sameObject(e2.Recv) != wr {
							continue
						}
						switch e2.Method.Name() {
						case "Close":
							closed = true
						case "Write", "WriteString", "ReadFrom":
							we := errOf(p.X, e2.Result)
							if we != nil && hasLit(p, len(p.Lits), false, func(t *core.Term) bool { return isEqNil(t, is(we)) }) {
								writeFailed = true
							}
						}
					}
					if !closed && !writeFailed {
						ok, why = false, "the path returning at "+c.P.Pos(p.Ret.Pos())+" leaves the writer obtained at "+c.P.Pos(ev.Instr.Pos())+" open (no Close, and no failed Write on it): the message is never ended and a pooled buffer stays with the connection"
					}
				case callsStatic(ev, w.begin) && own(ev) && len(ev.Args) >= 2:
					e := errOf(p.X, ev.Result)
					if !hasLit(p, len(p.Lits), true, func(t *core.Term) bool { return isEqNil(t, is(e)) }) {
						continue
					}
					nOpen++
					mw := ev.Args[1]
					flushed := false
					for k := i + 1; k < len(p.Events); k++ {
						e2 := &p.Events[k]
						if (callsStatic(e2, w.flush) || callsStatic(e2, w.end)) && len(e2.Args) > 0 && e2.Args[0] == mw {
							flushed = true
						}
					}
					if !flushed {
						ok, why = false, "the path returning at "+c.P.Pos(p.Ret.Pos())+" leaves the message begun at "+c.P.Pos(ev.Instr.Pos())+" without flushFrame/endMessage: the pooled buffer taken by beginMessage is never put back"
					}
				}
			}
		})
		if nOpen > 0 {
			n++
			r.Check(rule, shortFn(g), "opened-message-ended-on-every-path", g.Pos(), ok, why)
		}
	}
	if n < 2 {
		r.Fail(rule, "", "floor-local-writers", w.writeMessage.Pos(), "fewer than 2 functions that open a message for their own use were found (rule blind)")
	}
}

func ioWriterIface(c *Ctx) *types.Interface {
	return c.P.ExtFunc("io", "Copy").Pkg().Scope().Lookup("Writer").Type().Underlying().(*types.Interface)
}
