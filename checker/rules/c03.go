package rules

import (
	"fmt"
	"go/constant"
	"go/types"

	"golang.org/x/tools/go/ssa"

	"wsverif/core"
)

func init() {
	register("C03", "Decides the reader's bookkeeping that every conformant stream relies on: conformant headers are never refused, extended lengths are read with the right width and byte order, the mask key and running key position are threaded correctly through frames and reads, FIN/remaining-bytes/compression flags are updated exactly where the protocol says, end of message is signalled only at the true end, and NextReader skips non-message frames. Decoded-payload equality is not decided.", c03)
}

// b1Values: the values of header byte 1 compatible with the evaluable literals of the path.
func (rd *reader) b1Values(p *core.Path) (vals []int, P *core.Term) {
	first := -1
	for i := range p.Events {
		if ev := &p.Events[i]; callsStatic(ev, rd.read) {
			P = p.X.ExtractOf(ev.Result, 0, nil)
			first = i
			break
		}
	}
	if first < 0 {
		return nil, nil
	}
	isLeaf := rd.isHdrLeaf(P)
	var lits []core.Lit
	for _, l := range p.Lits[p.Events[first].NLits:] {
		if core.Evaluable(l.T, isLeaf) && mentionsB1(l.T, P) {
			lits = append(lits, l)
		}
	}
	for b1 := 0; b1 < 256; b1++ {
		any := false
		for st := 0; st < 8 && !any; st++ {
			s := &hdrState{b1: b1, readFinal: st&1 != 0, isServer: st&2 != 0, hasDecomp: st&4 != 0}
			good := true
			for b0 := 0; b0 < 256 && good; b0 += 255 { // literals mentioning byte 1 rarely mention byte 0; sample both extremes
				s.b0 = b0
				lf := rd.hdrLeaf(P, s)
				for _, l := range lits {
					v, ok := p.X.Eval(l.T, lf)
					if ok && constant.BoolVal(v) != l.Pos {
						good = false
						break
					}
				}
			}
			any = good
		}
		if any {
			vals = append(vals, b1)
		}
	}
	return vals, P
}

// accepted: the path returns a frame (nil error) or delivers it to a handler.
func acceptedPath(p *core.Path) bool {
	return p.End == core.EndReturn && len(p.Results) == 2 && (p.Results[1].IsNil() || strip(p.Results[1]).Kind == core.KAlloc)
}

func c03(c *Ctx) {
	r := c.R
	rd := newReader(c)
	r.Rule("C03.accept-table", "no header that RFC 6455 allows in the current protocol state is refused at the header stage (same exhaustive table as C04.header-guards, accept side)")
	r.Rule("C03.len-classes", "7-bit length 126 is followed by read(2) decoded with big-endian Uint16, 127 by read(8) decoded with big-endian Uint64, anything else by no extension; the decoded value becomes the remaining-byte count")
	r.Rule("C03.mask-thread", "masked frames: the 4 key bytes read after the length are copied into readMaskKey and readMaskPos is reset to 0 on the same path, unmasked frames do neither; messageReader.Read unmasks exactly the n bytes just read with the stored key at the carried position and stores the new position, iff the connection is a server; both fields are written nowhere else")
	r.Rule("C03.final-flag", "readFinal is stored only on data/continuation paths and equals this frame's FIN bit; newConn starts with readFinal = true")
	r.Rule("C03.remaining", "readRemaining is written only by setReadRemaining; Read never asks the transport for more than readRemaining bytes and subtracts exactly the count returned; the skip of step 1 discards exactly readRemaining bytes")
	r.Rule("C03.eom", "io.EOF leaves messageReader.Read only at the true end of the message or for a stale reader (C05.eof-provenance)")
	r.Rule("C03.skip-loop", "NextReader returns a reader only for text/binary frames, installs a fresh messageReader for it, and every transport access of messageReader.Read is guarded by the stale-reader test")
	r.Rule("C03.inflate-iff-rsv1", "every accepted frame stores readDecompress := (RSV1 of this frame); NextReader wraps the reader with the decompressor iff readDecompress")
	r.Rule("C03.reader-wrappers", "every Read method that reads from an inner reader (joinReader, flateReadWrapper, brNetConn, messageReader, ...) returns the inner count (bytes delivered together with io.EOF or an error are not dropped; a count is discarded only where known to be 0) and lets inner errors other than io.EOF reach the caller")
	if c.readerWrappers("C03.reader-wrappers") < 4 {
		r.Fail("C03.reader-wrappers", "package", "floor", c.fn("(*joinReader).Read").Pos(), "fewer than the 4 known reader wrappers were analysed")
	}
	r.Rule("C03.early-bytes", "the byte stream handed to the frame reader is the peer's stream: bytes buffered by the HTTP server before the upgrade are replayed first and completely (same rule as C17.brnetconn)")
	c.borrow(c17, map[string]string{"C17.brnetconn": "C03.early-bytes", "C17.reader-stable": "C03.early-bytes"})
	r.Rule("C03.control-frames", "control frames of every legal size between fragments are read and dispatched to their handler without touching the message state (same rules as C08.read-buffer, C08.dispatch)")
	c.borrow(c08, map[string]string{"C08.read-buffer": "C03.control-frames", "C08.dispatch": "C03.control-frames", "C08.defaults": "C03.control-frames"})
	c.joinTerm("C03.reader-wrappers")
	c.joinEOF("C03.reader-wrappers")
	r.Rule("C03.errors-final", "a failed frame read is final: the frame parser discards what it had consumed of a header, so reading on after an error (a timeout included) would continue in the middle of a frame and deliver wrong messages (same rule as C05.sticky)")
	rd.sticky("C03.errors-final")
	c.readerSiblings("C03.reader-wrappers")
	readJSONRule(c, "C03.reader-wrappers")
	r.Rule("C03.inflater-exclusive", "an inflater returned to flateReaderPool is forgotten by the wrapper in the same step (never used or returned twice), so two connections never share one decompressor")
	r.Assume("bufio.Reader.Read returns 0 <= n <= len(p)")

	// ---- accept-table
	{
		_, acceptBad, nStates, nPaths := rd.headerTable("C03.accept-table")
		ok, why := acceptBad == "", fmt.Sprintf("no conformant header is refused (%d header x state points, %d validator paths)", nStates, nPaths)
		if !ok {
			why = acceptBad
		}
		r.Check("C03.accept-table", shortFn(rd.advance), "conformant-headers-pass-validator", rd.advance.Pos(), ok, why)
	}
	rd.lateRefusals("C03.accept-table")

	rd.parserRules("C03.len-classes", "C03.mask-thread", "C03.final-flag", "C03.inflate-iff-rsv1")
	rd.readUnmask("C03.mask-thread")
	rd.owners("C03.mask-thread", rd.readMaskPos, "(*Conn).advanceFrame", "(*messageReader).Read")
	rd.owners("C03.mask-thread", rd.readMaskKey, "(*Conn).advanceFrame")
	rd.ownersOr("C03.remaining", rd.readRemaining, rd.storesNonNeg, "(*Conn).setReadRemaining")
	rd.owners("C03.final-flag", rd.readFinal, "(*Conn).advanceFrame", "newConn")
	rd.remainingRule("C03.remaining")
	rd.eofProvenance("C03.eom")
	rd.unexpectedEOFProvenance("C03.eom")
	flateWrapperRule(c, "C03.eom") // the inflate wrapper reports end of message exactly when the inflater does
	rd.acceptsEveryLength("C03.remaining")
	rd.skipLoop("C03.skip-loop")
	rd.inflateWrap("C03.inflate-iff-rsv1")
	if c.poolTypestate("C03.inflater-exclusive", "(*flateReadWrapper).Close", "(*flateReadWrapper).Read") < 1 {
		r.Fail("C03.inflater-exclusive", "(*flateReadWrapper).Close", "pool-put-site", c.fn("(*flateReadWrapper).Close").Pos(), "no Put of the inflater found")
	}
	// newConn: readFinal = true
	{
		ok := false
		for _, s := range c.P.FieldStoreSites(rd.readFinal) {
			if shortFn(s.Parent()) == "newConn" {
				if k, isC := s.Val.(*ssa.Const); isC && k.Value != nil && constant.BoolVal(k.Value) {
					ok = true
				}
			}
		}
		r.Check("C03.final-flag", "newConn", "initial-readFinal-true", c.fn("newConn").Pos(), ok, "a new connection must start outside a message (readFinal = true)")
	}
}

// b0Compatible: is header byte 0 = b0 compatible with the path's byte-0 literals in some state?
func (rd *reader) b0Compatible(p *core.Path, P *core.Term, b0 int) bool {
	isLeaf := rd.isHdrLeaf(P)
	for st := 0; st < 8; st++ {
		s := &hdrState{b0: b0, readFinal: st&1 != 0, isServer: st&2 != 0, hasDecomp: st&4 != 0}
		lf := rd.hdrLeaf(P, s)
		good := true
		for _, l := range p.Lits {
			if !core.Evaluable(l.T, isLeaf) || mentionsB1(l.T, P) {
				continue
			}
			v, ok := p.X.Eval(l.T, lf)
			if ok && constant.BoolVal(v) != l.Pos {
				good = false
				break
			}
		}
		if good {
			return true
		}
	}
	return false
}

// owners: field f is stored (or copied into) only inside the named functions.
func (rd *reader) owners(rule string, f *types.Var, allowed ...string) {
	rd.ownersOr(rule, f, nil, allowed...)
}

// storesNonNeg: every store of fn into f stores a value that the facts of its
// path bound below by 0 (what setReadRemaining guarantees by its test; a
// function that inlines it must establish the same).
func (rd *reader) storesNonNeg(rule string, fn *ssa.Function, f *types.Var) bool {
	c := rd.c
	ok, n := true, 0
	c.explore(rule, fn, core.Opts{Unroll: 0, Inline: rd.inl(), MaxPaths: 400000}, func(p *core.Path) {
		for i := range p.Events {
			e := &p.Events[i]
			if e.Kind != core.EvStore || !isFieldAddr(e.Addr, f) {
				continue
			}
			n++
			if lo, has := p.X.Lower(e.Val); !has || lo < 0 {
				ok = false
			}
		}
	})
	return ok && n > 0
}

// ownersOr: as owners, but a writer outside the list is accepted when alt
// proves the invariant the owner exists to keep.
func (rd *reader) ownersOr(rule string, f *types.Var, alt func(rule string, fn *ssa.Function, f *types.Var) bool, allowed ...string) {
	c, r := rd.c, rd.c.R
	allow := map[string]bool{}
	for _, a := range allowed {
		allow[a] = true
	}
	writers := map[string]bool{}
	for _, fn := range c.P.FuncList {
		if fn.Synthetic != "" {
			continue
		}
		direct := false
		for _, b := range fn.Blocks {
			for _, in := range b.Instrs {
				switch v := in.(type) {
				case *ssa.Store:
					if fa, ok := v.Addr.(*ssa.FieldAddr); ok && fieldOf(fa) == f {
						direct = true
					}
					if ia, ok := v.Addr.(*ssa.IndexAddr); ok {
						if fa, ok := ia.X.(*ssa.FieldAddr); ok && fieldOf(fa) == f {
							direct = true
						}
					}
				case ssa.CallInstruction:
					if bi, ok := v.Common().Value.(*ssa.Builtin); ok && bi.Name() == "copy" {
						if s, ok := v.Common().Args[0].(*ssa.Slice); ok {
							if fa, ok := s.X.(*ssa.FieldAddr); ok && fieldOf(fa) == f {
								direct = true
							}
						}
					}
				}
			}
		}
		if direct {
			// a helper extracted by a later refactoring writes on behalf of the functions it is inlined into
			for _, h := range c.hostsOf(fn) {
				if alt != nil && !allow[shortFn(h)] && alt(rule, h, f) {
					allow[shortFn(h)] = true
				}
				writers[shortFn(h)] = true
			}
		}
	}
	ok := true
	for w := range writers {
		if !allow[w] {
			ok = false
		}
	}
	r.Check(rule, "", "writers-of-"+f.Name(), rd.advance.Pos(), ok && len(writers) > 0, "Conn."+f.Name()+" is written by {"+joinNames(writers)+"}, allowed {"+joinNames(allow)+"}")
}

// parserRules checks, on every accepted path of advanceFrame: extended-length
// decoding, mask-key threading, the FIN flag and the RSV1 flag.
func (rd *reader) parserRules(ruleLen, ruleMask, ruleFin, ruleDec string) {
	c, r := rd.c, rd.c.R
	full := core.Opts{Unroll: 0, RecordLoads: true, Inline: rd.inl(), ConstLoops: true}
	// length facts of (*Conn).read / Peek (len(p) == n after a successful read) so that loops over the bytes just
	// read have constant trip counts
	lf := &c07state{c: c, read: rd.read}
	full.AfterCall, full.OnFact = lf.libFacts, lf.factConsequences

	// ---- len-classes, mask-thread(a), final-flag, inflate-iff-rsv1(a) on accepted paths of advanceFrame
	okL, whyL := true, "extension width and decoder agree with the 7-bit length class on every accepted path"
	okM, whyM := true, "mask key copy and position reset happen exactly on masked-frame paths"
	okF, whyF := true, "readFinal := FIN bit exactly on data/continuation paths"
	okD, whyD := true, "readDecompress := RSV1 bit on every accepted path"
	nAcc := 0
	c.explore(ruleLen, rd.advance, full, func(p *core.Path) {
		if !acceptedPath(p) {
			return
		}
		vals, P := rd.b1Values(p)
		if P == nil || len(vals) == 0 {
			return
		}
		nAcc++
		// --- length class
		cls := map[int]bool{}
		masked := map[bool]bool{}
		for _, v := range vals {
			switch v & 0x7f {
			case 126:
				cls[126] = true
			case 127:
				cls[127] = true
			default:
				cls[0] = true
			}
			masked[v&0x80 != 0] = true
		}
		// reads after the header read, in order
		var reads []*core.Event
		for i := range p.Events {
			if ev := &p.Events[i]; callsStatic(ev, rd.read) {
				reads = append(reads, ev)
			}
		}
		reads = reads[1:]
		// stores to readRemaining after the first one
		var remStores []*core.Term
		for i := range p.Events {
			if ev := &p.Events[i]; ev.Kind == core.EvStore && isFieldAddr(ev.Addr, rd.readRemaining) {
				remStores = append(remStores, ev.Val)
			}
		}
		if len(cls) != 1 {
			okL, whyL = false, "a path of advanceFrame does not distinguish the 7-bit length classes (0-125 / 126 / 127)"
		} else {
			want, width, dec := 0, int64(0), ""
			switch {
			case cls[126]:
				want, width, dec = 126, 2, "(encoding/binary.bigEndian).Uint16"
			case cls[127]:
				want, width, dec = 127, 8, "(encoding/binary.bigEndian).Uint64"
			}
			if want != 0 {
				if len(reads) == 0 {
					okL, whyL = false, fmt.Sprintf("7-bit length %d is not followed by a read of the extended length", want)
				} else {
					ext := reads[0]
					if n, isC := ext.Args[1].Int64(); !isC || n != width {
						okL, whyL = false, fmt.Sprintf("7-bit length %d is followed by read(%s), want read(%d)", want, ext.Args[1], width)
					}
					extP := p.X.ExtractOf(ext.Result, 0, nil)
					found := false
					for _, v := range remStores {
						s := strip(v)
						if s.Kind == core.KCall && len(s.Args) > 0 && s.Args[len(s.Args)-1] == extP {
							if f, isF := s.Ref.(*ssa.Function); isF && extName(f) == dec {
								found = true
							}
						}
					}
					if !found {
						// a hand-written decoder (shift/or over the bytes, executed concretely by the engine): the stored
						// value must evaluate to the big-endian integer of the bytes just read, for sample byte strings
						for _, v := range remStores {
							if bigEndianOf(p.X, strip(v), extP, int(width)) {
								found = true
							}
						}
					}
					if !found {
						okL, whyL = false, fmt.Sprintf("the extended length after 7-bit length %d is not decoded with %s from the bytes just read and stored as the remaining count (stores: %v, bytes: %v)", want, dec, remStores, extP)
					}
					reads = reads[1:]
				}
			} else if len(remStores) > 0 {
				// first store must be the 7-bit value of byte 1
				first := remStores[0]
				if !core.Evaluable(first, rd.isHdrLeaf(P)) {
					okL, whyL = false, "the 7-bit payload length is not taken from header byte 1"
				} else {
					for _, b1 := range []int{0, 1, 125, 0x80 | 77} {
						s := &hdrState{b1: b1}
						v, ok := p.X.Eval(first, rd.hdrLeaf(P, s))
						if got, _ := constant.Int64Val(v); !ok || got != int64(b1&0x7f) {
							okL, whyL = false, "the 7-bit payload length is not byte1 & 0x7f"
						}
					}
				}
			}
		}
		// --- mask key
		var keyCopy *core.Event
		posReset := false
		for i := range p.Events {
			ev := &p.Events[i]
			if ev.Kind == core.EvCall && ev.Builtin == "copy" && len(ev.Args) == 2 && addrUnder(ev.Args[0], rd.readMaskKey) {
				keyCopy = ev
			}
			if ev.Kind == core.EvStore && isFieldAddr(ev.Addr, rd.readMaskPos) {
				if z, isC := ev.Val.Int64(); isC && z == 0 {
					posReset = true
				} else {
					okM, whyM = false, "advanceFrame stores a non-zero value to readMaskPos"
				}
			}
		}
		// element-wise key copy (for i := range key { key[i] = p[i] }), executed concretely
		elemCopy := false
		if keyCopy == nil && len(reads) > 0 {
			kp := p.X.ExtractOf(reads[0].Result, 0, nil)
			got := 0
			for i := range p.Events {
				ev := &p.Events[i]
				if ev.Kind != core.EvStore || ev.Addr.Kind != core.KIndexAddr || !addrUnder(ev.Addr, rd.readMaskKey) {
					continue
				}
				k, isC := ev.Addr.Args[1].Int64()
				v := strip(ev.Val)
				if isC && v.Kind == core.KLoad && v.Args[0].Kind == core.KIndexAddr && v.Args[0].Args[0] == kp {
					if j, isJ := v.Args[0].Args[1].Int64(); isJ && j == k && k >= 0 && k < 4 {
						got |= 1 << uint(k)
						continue
					}
				}
				got = -1 << 8 // a store of something else into the key
			}
			elemCopy = got == 15
			// c.readMaskKey = [4]byte(p): the whole array stored at once from the 4 bytes read
			for i := range p.Events {
				ev := &p.Events[i]
				if ev.Kind != core.EvStore || !isFieldAddr(ev.Addr, rd.readMaskKey) {
					continue
				}
				v := ev.Val
				if v.Kind == core.KLoad && strip(v.Args[0]) == kp {
					if at, isArr := v.Type.Underlying().(*types.Array); isArr && at.Len() == 4 {
						elemCopy = true
					}
				}
			}
		}
		switch {
		case len(masked) != 1:
			okM, whyM = false, "an accepted path of advanceFrame does not branch on the MASK bit"
		case masked[true] && elemCopy:
			if n, isC := reads[0].Args[1].Int64(); !isC || n != 4 {
				okM, whyM = false, "mask key read is not 4 bytes"
			}
			if !posReset {
				okM, whyM = false, "masked frame accepted without resetting readMaskPos to 0 on the same path (the next frame would be unmasked from a rotated key position)"
			}
		case masked[true]:
			if keyCopy == nil || len(reads) == 0 {
				okM, whyM = false, "masked frame accepted without copying its key into readMaskKey"
			} else {
				kr := reads[0]
				if n, isC := kr.Args[1].Int64(); !isC || n != 4 {
					okM, whyM = false, "mask key read is not 4 bytes"
				}
				if keyCopy.Args[1] != p.X.ExtractOf(kr.Result, 0, nil) {
					okM, whyM = false, "bytes copied into readMaskKey are not the 4 bytes read after the length"
				}
			}
			if !posReset {
				okM, whyM = false, "masked frame accepted without resetting readMaskPos to 0 on the same path (the next frame would be unmasked from a rotated key position)"
			}
		default:
			if keyCopy != nil {
				okM, whyM = false, "unmasked frame path overwrites readMaskKey"
			}
		}
		// --- FIN flag and RSV1 flag
		ops := rd.pathOpcodes(p)
		var finStore, decStore *core.Term
		for i := range p.Events {
			ev := &p.Events[i]
			if ev.Kind == core.EvStore && isFieldAddr(ev.Addr, rd.readFinal) {
				finStore = ev.Val
			}
			if ev.Kind == core.EvStore && isFieldAddr(ev.Addr, rd.readDecompress) {
				decStore = ev.Val
			}
		}
		isCtl := ops[8] || ops[9] || ops[10]
		isDat := ops[0] || ops[1] || ops[2]
		bitIs := func(t *core.Term, mask int, what string) string {
			if t == nil {
				return "no store of " + what
			}
			if b, isB := t.BoolVal(); isB {
				// constant: only acceptable if every compatible byte0 has that bit value
				for b0 := 0; b0 < 256; b0++ {
					if !ops[b0&15] {
						continue
					}
					if rd.b0Compatible(p, P, b0) && (b0&mask != 0) != b {
						return fmt.Sprintf("%s is the constant %v on a path compatible with header byte %#02x", what, b, b0)
					}
				}
				return ""
			}
			if !core.Evaluable(t, rd.isHdrLeaf(P)) {
				return what + " is not a function of header byte 0"
			}
			for b0 := 0; b0 < 256; b0++ {
				if !ops[b0&15] || !rd.b0Compatible(p, P, b0) {
					continue // the path is not taken for this header byte
				}
				s := &hdrState{b0: b0, hasDecomp: true}
				v, ok := p.X.Eval(t, rd.hdrLeaf(P, s))
				if !ok || constant.BoolVal(v) != (b0&mask != 0) {
					return fmt.Sprintf("%s does not equal bit %#02x of header byte 0 (byte %#02x)", what, mask, b0)
				}
			}
			return ""
		}
		if isDat && !isCtl {
			if msg := bitIs(finStore, 0x80, "readFinal"); msg != "" {
				okF, whyF = false, "data/continuation path: "+msg
			}
		}
		if isCtl && !isDat && finStore != nil {
			okF, whyF = false, "a control frame modifies readFinal (a ping between fragments would end or restart the message)"
		}
		if msg := bitIs(decStore, 0x40, "readDecompress"); msg != "" {
			okD, whyD = false, "accepted path returning at "+c.P.Pos(p.Ret.Pos())+": "+msg
		}
	})
	if nAcc < 10 {
		okL, whyL = false, fmt.Sprintf("only %d accepted paths recognised", nAcc)
	}
	r.Check(ruleLen, shortFn(rd.advance), "extended-length-decoding", rd.advance.Pos(), okL, whyL)
	if ruleMask != "" {
		r.Check(ruleMask, shortFn(rd.advance), "key-copy-and-position-reset", rd.advance.Pos(), okM, whyM)
	}
	if ruleFin != "" {
		r.Check(ruleFin, shortFn(rd.advance), "readFinal-is-FIN-of-data-frames", rd.advance.Pos(), okF, whyF)
	}
	if ruleDec != "" {
		r.Check(ruleDec, shortFn(rd.advance), "readDecompress-is-RSV1", rd.advance.Pos(), okD, whyD)
	}

}

// bigEndianOf: term v, evaluated with the bytes of slice p replaced by sample
// values, equals the big-endian integer of p[0:n] (as a 64-bit pattern).
func bigEndianOf(x *core.Explorer, v, p *core.Term, n int) bool {
	samples := [][]uint64{{0x01, 0x02, 0x03, 0x04, 0x05, 0x06, 0x07, 0x08}, {0xff, 0x00, 0x80, 0x7f, 0x10, 0xfe, 0x01, 0xaa}, {0x00, 0x00, 0x00, 0x00, 0x00, 0x01, 0x00, 0x00}, {0x7f, 0xff, 0xff, 0xff, 0xff, 0xff, 0xff, 0xff}}
	used := false
	for _, smp := range samples {
		leaf := func(t *core.Term) (constant.Value, bool) {
			if t.Kind == core.KLoad && t.Args[0].Kind == core.KIndexAddr && t.Args[0].Args[0] == p {
				if i, isC := t.Args[0].Args[1].Int64(); isC && i >= 0 && int(i) < n {
					used = true
					return constant.MakeUint64(smp[i]), true
				}
			}
			return nil, false
		}
		got, ok := x.Eval(v, leaf)
		if !ok {
			return false
		}
		want := uint64(0)
		for i := 0; i < n; i++ {
			want = want<<8 | smp[i]
		}
		g, exact := constant.Uint64Val(constant.ToInt(got))
		if !exact {
			// negative int64 results (top bit set): compare as two's complement
			if gi, isI := constant.Int64Val(constant.ToInt(got)); isI {
				g = uint64(gi)
			} else {
				return false
			}
		}
		if g != want {
			return false
		}
	}
	return used
}
