package rules

import "golang.org/x/tools/go/ssa"

func (st *c07state) explicitPanics(scope map[*ssa.Function]bool) {}
func (st *c07state) progress(scope map[*ssa.Function]bool)       {}
func (st *c07state) alloc(scope map[*ssa.Function]bool)          {}
