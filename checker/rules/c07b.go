package rules

import (
	"fmt"
	"go/token"
	"go/types"
	"os"
	"sort"

	"golang.org/x/tools/go/ssa"

	"wsverif/core"
)

// ---- explicit panics ----

func (st *c07state) explicitPanics(scope map[*ssa.Function]bool) {
	c, r := st.c, st.c.R
	cnt := c.P.Field("Conn", "readErrCount")
	n := 0
	var fns []*ssa.Function
	for fn := range scope {
		fns = append(fns, fn)
	}
	sort.Slice(fns, func(i, j int) bool { return shortFn(fns[i]) < shortFn(fns[j]) })
	for _, fn := range fns {
		has := false
		for _, b := range fn.Blocks {
			for _, in := range b.Instrs {
				if _, ok := in.(*ssa.Panic); ok {
					has = true
				}
			}
		}
		if !has {
			continue
		}
		type verdict struct {
			ok  bool
			why string
		}
		sites := map[ssa.Instruction]*verdict{}
		c.explore("C07.panic-sites", fn, core.Opts{Unroll: 0, RecordLoads: true, NonNilOnNilErr: true, MaxPaths: 400000}, func(p *core.Path) {
			if p.End != core.EndPanic {
				return
			}
			ev := &p.Events[len(p.Events)-1]
			v := sites[ev.Instr]
			if v == nil {
				v = &verdict{ok: true}
				sites[ev.Instr] = v
			}
			msg, _ := strip(ev.Val).StrVal()
			switch {
			case msg == "blocking select matched no case":
				v.why = "synthetic default of a blocking select: unreachable by construction"
			case knowsGe(p, len(p.Lits), 1000, func(y *core.Term) bool {
				// readErrCount (after increment) >= 1000
				found := false
				y.Walk(func(t *core.Term) bool {
					if _, is := fieldLoad(t, cnt); is {
						found = true
					}
					return !found
				})
				return found
			}):
				v.why = "the documented panic after 1000 reads on a failed connection"
			default:
				v.ok = false
				v.why = "explicit panic reachable from network input: " + ev.Val.String()
			}
		})
		for in, v := range sites {
			n++
			r.Check("C07.panic-sites", shortFn(fn), "explicit-panic", in.Pos(), v.ok, v.why)
		}
	}
	if n < 1 {
		r.Fail("C07.panic-sites", "", "explicit-panics", c.fn("(*Conn).NextReader").Pos(), "the documented NextReader panic was not found (rule blind)")
	}
}

// ---- nil result with nil error ----

// nilOrError: a function in the network-input scope that returns (T, error)
// with T a pointer or interface never returns (nil, nil): its callers test the
// error and then use the value (DialContext writes the handshake to the
// net.Conn a dialer returned).  On every return path whose first result is
// the nil literal the error result is known to be non-nil.
func (st *c07state) nilOrError(scope map[*ssa.Function]bool) {
	c, r := st.c, st.c.R
	var fns []*ssa.Function
	for fn := range scope {
		res := fn.Signature.Results()
		if res.Len() < 2 || !isErr(res.At(res.Len()-1).Type()) {
			continue
		}
		switch res.At(0).Type().Underlying().(type) {
		case *types.Pointer, *types.Interface:
		default:
			continue
		}
		if shortFn(fn) == "(*Dialer).DialContext" {
			continue // (nil, resp, err): decided by C14.reply-guards / C16.conn-pairing on its own path set
		}
		fns = append(fns, fn)
	}
	sort.Slice(fns, func(i, j int) bool { return shortFn(fns[i]) < shortFn(fns[j]) })
	n := 0
	for _, fn := range fns {
		ok, why := true, "every return of a nil value carries an error known to be non-nil"
		seen := 0
		_, err := c.exploreErr(fn, core.Opts{Unroll: 0, NonNilOnNilErr: true, MaxPaths: 200000}, func(p *core.Path) {
			if p.End != core.EndReturn || len(p.Results) < 2 || !p.Results[0].IsNil() {
				return
			}
			seen++
			e := p.Results[len(p.Results)-1]
			if c.nonNilErr(e) {
				return
			}
			if v, decided := p.X.Decide(p.X.Eq(e, p.X.T.Const(nil, e.Type))); decided && !v {
				return
			}
			ok, why = false, "the path returning at "+c.P.Pos(p.Ret.Pos())+" returns a nil "+fn.Signature.Results().At(0).Type().String()+" together with an error that may be nil ("+e.String()+"): the caller goes on to use the nil value"
		})
		if err != nil || seen == 0 {
			continue
		}
		n++
		r.Check("C07.nil-result", shortFn(fn), "nil-value-implies-error", fn.Pos(), ok, why)
	}
	if n < 3 {
		r.Fail("C07.nil-result", "", "floor", c.fn("(*httpProxyDialer).DialContext").Pos(), fmt.Sprintf("only %d functions returning (value, error) analysed", n))
	}
}

// ---- progress ----

type lenRel int

const (
	relUnknown lenRel = iota
	relLessEq
	relLess
)

func minRel(a, b lenRel) lenRel {
	if a < b {
		return a
	}
	return b
}

// suffixSummary: for in-package function f, result k is never longer than parameter j.
type sumKey struct {
	f    *ssa.Function
	k, j int
}

func (st *c07state) lenRelOf(x *core.Explorer, t, base *core.Term, sums map[sumKey]bool, depth int) lenRel {
	if t == base {
		return relLessEq
	}
	if depth > 60 {
		return relUnknown
	}
	if s, isS := t.StrVal(); isS && s == "" {
		return relLessEq
	}
	switch t.Kind {
	case core.KFresh:
		if n := x.Note(t); n != nil {
			return minRel(relLessEq, st.lenRelOf(x, n, base, sums, depth+1))
		}
		return relUnknown
	case core.KSlice:
		r := st.lenRelOf(x, t.Args[0], base, sums, depth+1)
		if r == relUnknown {
			return relUnknown
		}
		if t.Args[1].Kind != core.KNone {
			if lo, has := x.Lower(t.Args[1]); has && lo >= 1 {
				return relLess
			}
		}
		return r
	case core.KConv:
		return st.lenRelOf(x, t.Args[0], base, sums, depth+1)
	case core.KExtract, core.KCall:
		call, k := t, 0
		if t.Kind == core.KExtract {
			call, k = t.Args[0], t.N
		}
		if call.Kind != core.KCall {
			return relUnknown
		}
		f, isF := call.Ref.(*ssa.Function)
		if !isF {
			return relUnknown
		}
		if f.Blocks == nil {
			switch extName(f) {
			case "strings.TrimLeft", "strings.TrimRight", "strings.TrimSpace", "strings.Trim", "strings.TrimPrefix", "strings.TrimSuffix":
				return minRel(relLessEq, st.lenRelOf(x, call.Args[0], base, sums, depth+1))
			}
			return relUnknown
		}
		best := relUnknown
		for j, a := range call.Args {
			if sums[sumKey{f, k, j}] {
				if r := st.lenRelOf(x, a, base, sums, depth+1); r > best {
					best = r
				}
			}
		}
		return best
	}
	return relUnknown
}

// stringSummaries computes "result k no longer than parameter j" for in-package functions with string params/results.
func (st *c07state) stringSummaries(scope map[*ssa.Function]bool) map[sumKey]bool {
	sums := map[sumKey]bool{}
	var cand []*ssa.Function
	for fn := range scope {
		sig := fn.Signature
		hasS := false
		for i := 0; i < sig.Results().Len(); i++ {
			if isStringType(sig.Results().At(i).Type()) {
				hasS = true
			}
		}
		if hasS && fn.Parent() == nil {
			cand = append(cand, fn)
		}
	}
	sort.Slice(cand, func(i, j int) bool { return shortFn(cand[i]) < shortFn(cand[j]) })
	for round := 0; round < 3; round++ {
		for _, fn := range cand {
			sig := fn.Signature
			for k := 0; k < sig.Results().Len(); k++ {
				if !isStringType(sig.Results().At(k).Type()) {
					continue
				}
				for j, prm := range fn.Params {
					if !isStringType(prm.Type()) || sums[sumKey{fn, k, j}] {
						continue
					}
					holds, n := true, 0
					o := st.opts()
					o.OnInstr = nil
					// loops inside the helper (for s != "" && ... { s = s[1:] }): string loop variables are assumed
					// no longer than their value at loop entry, and every back edge has to re-establish that
					o.OnGeneralise = func(x *core.Explorer, f *ssa.Function, head *ssa.BasicBlock, phi *ssa.Phi, incoming, fresh *core.Term) {
						if isStringType(phi.Type()) {
							x.SetNote(fresh, incoming)
						}
					}
					o.OnBackEdge = func(x *core.Explorer, f *ssa.Function, head *ssa.BasicBlock, phis []*ssa.Phi, old, nw []*core.Term, eval func(ssa.Value) *core.Term) {
						for i, phi := range phis {
							if isStringType(phi.Type()) && st.lenRelOf(x, nw[i], old[i], sums, 0) == relUnknown {
								holds = false
							}
						}
					}
					st.c.explore("C07.progress", fn, o, func(p *core.Path) {
						if p.End != core.EndReturn || k >= len(p.Results) {
							return
						}
						n++
						if st.lenRelOf(p.X, p.Results[k], p.X.ParamTerm(prm), sums, 0) == relUnknown {
							holds = false
						}
					})
					if holds && n > 0 {
						sums[sumKey{fn, k, j}] = true
					}
				}
			}
		}
	}
	return sums
}

func isStringType(t types.Type) bool {
	b, ok := t.Underlying().(*types.Basic)
	return ok && b.Info()&types.IsString != 0
}

func (st *c07state) progress(scope map[*ssa.Function]bool) {
	c, r := st.c, st.c.R
	sums := st.stringSummaries(scope)
	nextReader := c.P.FuncOpt("(*Conn).NextReader")
	if os.Getenv("WSVERIF_DEBUG") != "" {
		for k := range sums {
			fmt.Fprintf(os.Stderr, "summary: %s result %d <= param %d\n", shortFn(k.f), k.k, k.j)
		}
	}
	rd := newReader(c)
	var fns []*ssa.Function
	for fn := range scope {
		fns = append(fns, fn)
	}
	sort.Slice(fns, func(i, j int) bool { return shortFn(fns[i]) < shortFn(fns[j]) })
	nLoops := 0
	for _, fn := range fns {
		heads := loopHeads(fn)
		if len(heads) == 0 {
			continue
		}
		// dynamic information from the exploration: per head, was every back edge a strict shrink of some string phi / a consuming read?
		type info struct {
			edges      int
			shrinkAll  map[*ssa.Phi]bool // phi -> strictly shorter on every back edge seen
			consumeAll bool
		}
		infos := map[*ssa.BasicBlock]*info{}
		for _, h := range heads {
			infos[h] = &info{shrinkAll: map[*ssa.Phi]bool{}, consumeAll: true}
		}
		// string phis assumed non-increasing in length (coinductive invariant, checked below and refined to a fixpoint)
		assumed := map[*ssa.Phi]bool{}
		for _, h := range heads {
			for _, ins := range h.Instrs {
				if phi, ok := ins.(*ssa.Phi); ok && isCursorType(phi.Type()) {
					assumed[phi] = true
				}
			}
		}
		// string loop variables of helpers that explore() inlines into fn (extracted by a later refactoring)
		{
			seenH := map[*ssa.Function]bool{fn: true}
			var addHelpers func(g *ssa.Function, depth int)
			addHelpers = func(g *ssa.Function, depth int) {
				for callee := range c.P.Mod(g).Callees {
					if seenH[callee] || !c.isNewHelper(callee, depth) {
						continue
					}
					seenH[callee] = true
					for _, h := range loopHeads(callee) {
						for _, ins := range h.Instrs {
							if phi, ok := ins.(*ssa.Phi); ok && isCursorType(phi.Type()) {
								assumed[phi] = true
							}
						}
					}
					addHelpers(callee, depth+1)
				}
			}
			addHelpers(fn, 1)
		}
		nonIncr := map[*ssa.Phi]bool{}
		o := st.opts()
		o.OnInstr = nil
		o.OnGeneralise = func(x *core.Explorer, f *ssa.Function, head *ssa.BasicBlock, phi *ssa.Phi, incoming, fresh *core.Term) {
			if assumed[phi] {
				x.SetNote(fresh, incoming)
			}
		}
		o.OnBackEdge = func(x *core.Explorer, f *ssa.Function, head *ssa.BasicBlock, phis []*ssa.Phi, old, nw []*core.Term, eval func(ssa.Value) *core.Term) {
			in := infos[head]
			if f == fn && in != nil {
				in.edges++
			}
			for i, phi := range phis {
				if isCursorType(phi.Type()) && st.lenRelOf(x, nw[i], old[i], sums, 0) == relUnknown {
					if os.Getenv("WSVERIF_DEBUG") != "" {
						fmt.Fprintf(os.Stderr, "  unknown: %s new=%v old=%v\n", phi.Name(), nw[i], old[i])
						t := nw[i]
						for d := 0; d < 8 && t != nil; d++ {
							fmt.Fprintf(os.Stderr, "     chain: %v (kind %d) note=%v\n", t, t.Kind, x.Note(t))
							switch {
							case t.Kind == core.KFresh:
								t = x.Note(t)
							case len(t.Args) > 0:
								if t.Kind == core.KCall {
									t = t.Args[len(t.Args)-1]
								} else {
									t = t.Args[0]
								}
							default:
								t = nil
							}
						}
					}
					nonIncr[phi] = false
				} else if _, seen := nonIncr[phi]; !seen && isCursorType(phi.Type()) {
					nonIncr[phi] = true
				}
			}
			if f != fn || in == nil {
				return // a loop of an inlined helper: only its string invariants matter here
			}
			for i, phi := range phis {
				if !isCursorType(phi.Type()) {
					continue
				}
				strict := st.lenRelOf(x, nw[i], old[i], sums, 0) == relLess
				if prev, seen := in.shrinkAll[phi]; seen {
					in.shrinkAll[phi] = prev && strict
				} else {
					in.shrinkAll[phi] = strict
				}
			}
			// consuming read since the head was entered: a successful advanceFrame / read in the prefix events after the last visit of head
			consumed := false
			pre := x.Prefix()
			lits := x.PrefixLits()
			for i := len(pre) - 1; i >= 0; i-- {
				ev := &pre[i]
				if ev.Kind == core.EvCall && (ev.Static == rd.advance || ev.Static == rd.read || (ev.Static == nextReader && nextReader != nil)) {
					e := errOf(x, ev.Result)
					for _, l := range lits {
						if l.Pos && isEqNil(l.T, is(e)) {
							consumed = true
						}
					}
					break
				}
			}
			if !consumed && !st.guardAlreadyFalse(x, head, eval) {
				in.consumeAll = false
			}
		}
		runOnce := func() {
			for _, h := range heads {
				infos[h] = &info{shrinkAll: map[*ssa.Phi]bool{}, consumeAll: true}
			}
			for k := range nonIncr {
				delete(nonIncr, k)
			}
			if shortFn(fn) == "(*Dialer).DialContext" {
				// analysed in two regions like the panic sites
				sites := c.acquireSites(fn)
				if len(sites) == 1 {
					a := o
					a.Stop = func(x *core.Explorer, ev *core.Event) bool { return ev.Instr == ssa.Instruction(sites[0]) }
					c.explore("C07.progress", fn, a, func(p *core.Path) {})
					b := o
					b.Start = sites[0]
					c.explore("C07.progress", fn, b, func(p *core.Path) {})
				}
			} else {
				c.explore("C07.progress", fn, o, func(p *core.Path) {})
			}
		}
		for round := 0; round < 4; round++ {
			runOnce()
			if os.Getenv("WSVERIF_DEBUG") != "" {
				for phi, v := range nonIncr {
					fmt.Fprintf(os.Stderr, "%s round %d: phi %s (%s) non-increasing=%v assumed=%v\n", shortFn(fn), round, phi.Name(), phi.Comment, v, assumed[phi])
				}
			}
			changed := false
			for phi := range assumed {
				if v, seen := nonIncr[phi]; seen && !v {
					delete(assumed, phi)
					changed = true
				}
			}
			if !changed {
				break
			}
		}
		for _, h := range heads {
			nLoops++
			kind, why := classifyLoop(c, fn, h)
			in := infos[h]
			if kind == "" {
				for phi, strict := range in.shrinkAll {
					if strict && in.edges > 0 {
						kind, why = "shrinking-string", "string cursor "+phi.Comment+" is strictly shorter on every back edge ("+fmt.Sprint(in.edges)+" back-edge arrivals examined)"
					}
				}
			}
			if kind == "" && in.consumeAll && in.edges > 0 {
				kind, why = "consumes-input", "every back edge follows a successful frame/header read (at least 2 bytes of input consumed per iteration)"
			}
			pos := h.Instrs[0].Pos()
			for _, ins := range h.Instrs {
				if ins.Pos().IsValid() {
					pos = ins.Pos()
					break
				}
			}
			if !pos.IsValid() {
				pos = fn.Pos()
			}
			if kind == "" {
				r.Check("C07.progress", shortFn(fn), "loop#"+fmt.Sprint(h.Index), pos, false, "no progress argument found for this loop: no counter bounded by its test, no range, no strictly shrinking string cursor on every back edge, no consumed input (a crafted input can make it spin)")
			} else {
				r.Check("C07.progress", shortFn(fn), "loop#"+fmt.Sprint(h.Index), pos, true, kind+": "+why)
			}
		}
	}
	// advanceFrame returns a nil error only after a successful header read
	{
		ok, why := true, "a nil error implies a successful read(2)"
		c.explore("C07.progress", rd.advance, core.Opts{Unroll: 0, Inline: rd.inl()}, func(p *core.Path) {
			if p.End != core.EndReturn || len(p.Results) != 2 || !p.Results[1].IsNil() {
				return
			}
			good := false
			for i := range p.Events {
				ev := &p.Events[i]
				if callsStatic(ev, rd.read) {
					e := errOf(p.X, ev.Result)
					if hasLit(p, len(p.Lits), true, func(t *core.Term) bool { return isEqNil(t, is(e)) }) {
						good = true
					}
				}
			}
			if !good {
				ok, why = false, "advanceFrame can report success without having consumed a frame header"
			}
		})
		r.Check("C07.progress", shortFn(rd.advance), "success-consumes-header", rd.advance.Pos(), ok, why)
	}
	// NextReader returns a nil error only after a successful advanceFrame (so a loop around it consumes input too)
	if nextReader != nil {
		ok, why := true, "a nil error implies a successful advanceFrame"
		n := 0
		c.explore("C07.progress", nextReader, core.Opts{Unroll: 0}, func(p *core.Path) {
			if p.End != core.EndReturn || len(p.Results) != 3 || !p.Results[2].IsNil() {
				return
			}
			n++
			good := false
			for i := range p.Events {
				ev := &p.Events[i]
				if callsStatic(ev, rd.advance) {
					e := errOf(p.X, ev.Result)
					if hasLit(p, len(p.Lits), true, func(t *core.Term) bool { return isEqNil(t, is(e)) }) {
						good = true
					}
				}
			}
			if !good {
				ok, why = false, "NextReader can report success without a frame having been read"
			}
		})
		r.Check("C07.progress", shortFn(nextReader), "success-consumes-frame", nextReader.Pos(), ok && n > 0, why)
	}
	r.Floor("C07.progress", 20)
	_ = nLoops
}

// loopHeads lists the loop heads of fn (targets of back edges).
func loopHeads(fn *ssa.Function) []*ssa.BasicBlock {
	seen := map[*ssa.BasicBlock]bool{}
	var out []*ssa.BasicBlock
	for _, u := range fn.Blocks {
		for _, v := range u.Succs {
			if v.Dominates(u) && !seen[v] {
				seen[v] = true
				out = append(out, v)
			}
		}
	}
	sort.Slice(out, func(i, j int) bool { return out[i].Index < out[j].Index })
	return out
}

// classifyLoop recognises counter loops and range loops structurally.
func classifyLoop(c *Ctx, fn *ssa.Function, h *ssa.BasicBlock) (kind, why string) {
	// range over map/string: the head calls next()
	for _, in := range h.Instrs {
		if _, ok := in.(*ssa.Next); ok {
			return "range", "range over a map or string (terminates when the collection is exhausted)"
		}
	}
	iff, ok := h.Instrs[len(h.Instrs)-1].(*ssa.If)
	if !ok {
		return "", ""
	}
	cmp, ok := iff.Cond.(*ssa.BinOp)
	if !ok || cmp.Op != token.LSS {
		return "", ""
	}
	body := loopBody(h)
	if !body[h.Succs[0]] || body[h.Succs[1]] {
		return "", ""
	}
	// tested value: phi or phi+1 computed in the head
	var phi *ssa.Phi
	switch l := cmp.X.(type) {
	case *ssa.Phi:
		phi = l
	case *ssa.BinOp:
		if p, isP := l.X.(*ssa.Phi); isP && l.Op == token.ADD {
			phi = p
		}
	}
	if phi == nil || phi.Block() != h {
		return "", ""
	}
	for i, e := range phi.Edges {
		if !body[h.Preds[i]] {
			continue
		}
		lo, _, ok := stepOfSSA(e, phi, 0, map[ssa.Value]bool{})
		if !ok || lo < 1 {
			return "", ""
		}
	}
	// bound must not be assigned inside the loop (len of a loop-invariant value is fine)
	if bi, isI := cmp.Y.(ssa.Instruction); isI && body[bi.Block()] {
		call, isCall := cmp.Y.(*ssa.Call)
		if !isCall {
			return "", ""
		}
		b, isB := call.Call.Value.(*ssa.Builtin)
		if !isB || b.Name() != "len" {
			return "", ""
		}
		if ai, isAI := call.Call.Args[0].(ssa.Instruction); isAI && body[ai.Block()] {
			// len(x.f) re-read in the head: fine if nothing in the loop writes field f
			ld, isLd := call.Call.Args[0].(*ssa.UnOp)
			if !isLd {
				return "", ""
			}
			fa, isFA := ld.X.(*ssa.FieldAddr)
			if !isFA {
				return "", ""
			}
			f := fieldOf(fa)
			for blk := range body {
				for _, in := range blk.Instrs {
					if st, isSt := in.(*ssa.Store); isSt {
						if a, isA := st.Addr.(*ssa.FieldAddr); isA && fieldOf(a) == f {
							return "", ""
						}
					}
					if ci, isCall := in.(ssa.CallInstruction); isCall {
						ins, _ := c.P.Callees(ci)
						for _, g := range ins {
							if c.P.Mod(g).Writes[f] {
								return "", ""
							}
						}
					}
				}
			}
		}
	}
	return "counter", "counter advances by at least 1 on every back edge towards a loop-invariant bound"
}

func loopBody(h *ssa.BasicBlock) map[*ssa.BasicBlock]bool {
	body := map[*ssa.BasicBlock]bool{h: true}
	for _, u := range h.Parent().Blocks {
		for _, v := range u.Succs {
			if v == h && h.Dominates(u) {
				stack := []*ssa.BasicBlock{u}
				for len(stack) > 0 {
					n := stack[len(stack)-1]
					stack = stack[:len(stack)-1]
					if body[n] {
						continue
					}
					body[n] = true
					stack = append(stack, n.Preds...)
				}
			}
		}
	}
	return body
}

func stepOfSSA(e ssa.Value, phi *ssa.Phi, depth int, seen map[ssa.Value]bool) (lo, hi int64, ok bool) {
	if e == ssa.Value(phi) {
		return 0, 0, true
	}
	if depth > 6 || seen[e] {
		return 0, 0, false
	}
	seen[e] = true
	defer delete(seen, e) // on-stack marking only: shared sub-values of a DAG are fine, cycles are not
	switch v := e.(type) {
	case *ssa.BinOp:
		if v.Op != token.ADD {
			return 0, 0, false
		}
		var base ssa.Value
		var kc *ssa.Const
		if c, isC := v.Y.(*ssa.Const); isC {
			base, kc = v.X, c
		} else if c, isC := v.X.(*ssa.Const); isC {
			base, kc = v.Y, c
		}
		if kc == nil || kc.Value == nil {
			return 0, 0, false
		}
		l, h, ok := stepOfSSA(base, phi, depth+1, seen)
		return l + kc.Int64(), h + kc.Int64(), ok
	case *ssa.Phi:
		first := true
		for _, ed := range v.Edges {
			l, h, ok := stepOfSSA(ed, phi, depth+1, seen)
			if !ok {
				return 0, 0, false
			}
			if first || l < lo {
				lo = l
			}
			if first || h > hi {
				hi = h
			}
			first = false
		}
		return lo, hi, !first
	}
	return 0, 0, false
}

// ---- allocation ----

// inflaterReleased: the decompressor of a finished message goes back to its
// pool.  Conn.reader is written by NextReader only, and it is set to nil only
// after Close was called on the value it held; otherwise every compressed
// message that is not read to io.EOF allocates a new 40 KB decompressor.
func (st *c07state) inflaterReleased(rd *reader) {
	c := st.c
	f := c.P.Field("Conn", "reader")
	rd.owners("C07.alloc", f, "(*Conn).NextReader")
	nr := c.fn("(*Conn).NextReader")
	ok, why := true, "Conn.reader is cleared only after Close was called on the reader it held"
	n := 0
	c.explore("C07.alloc", nr, core.Opts{Unroll: 0, RecordLoads: true}, func(p *core.Path) {
		for i := range p.Events {
			ev := &p.Events[i]
			if ev.Kind != core.EvStore || !isFieldAddr(ev.Addr, f) || !ev.Val.IsNil() {
				continue
			}
			n++
			closed := false
			for k := 0; k < i; k++ {
				e := &p.Events[k]
				if e.Kind == core.EvCall && e.Method != nil && e.Method.Name() == "Close" {
					recv := e.Recv
					if recv == nil && len(e.Args) > 0 {
						recv = e.Args[0]
					}
					if recv != nil {
						if _, is := fieldLoad(recv, f); is {
							closed = true
						}
					}
				}
			}
			if !closed {
				ok, why = false, "Conn.reader is set to nil at "+c.P.Pos(ev.Instr.Pos())+" without Close having been called on it: the decompressor is never returned to its pool"
			}
		}
	})
	c.R.Check("C07.alloc", shortFn(nr), "inflater-closed-before-forgotten", nr.Pos(), ok && n > 0, why)
}

func (st *c07state) alloc(scope map[*ssa.Function]bool) {
	c, r := st.c, st.c.R
	rd := newReader(c)
	st.inflaterReleased(rd)
	var fns []*ssa.Function
	for fn := range scope {
		fns = append(fns, fn)
	}
	sort.Slice(fns, func(i, j int) bool { return shortFn(fns[i]) < shortFn(fns[j]) })
	n := 0
	for _, fn := range fns {
		for _, b := range fn.Blocks {
			for _, in := range b.Instrs {
				var size ssa.Value
				what := ""
				switch v := in.(type) {
				case *ssa.MakeSlice:
					size, what = v.Len, "make"
					if _, isC := v.Cap.(*ssa.Const); !isC && v.Cap != v.Len {
						size = v.Cap
					}
				case ssa.CallInstruction:
					if f := v.Common().StaticCallee(); f != nil && !c.P.InPkg(f) {
						switch extName(f) {
						case "(*bytes.Buffer).Grow", "(*strings.Builder).Grow", "slices.Grow", "bytes.NewBuffer":
							size, what = v.Common().Args[len(v.Common().Args)-1], extName(f)
						}
					}
				}
				if size == nil {
					continue
				}
				n++
				ok, why := true, "size is a constant or derived from the length of data already held"
				if dependsOnLength(size, rd, map[ssa.Value]bool{}) || dependsOnDecodedInt(size, map[ssa.Value]bool{}) {
					ok, why = false, what+" is sized from a length claimed by the peer (frame header / decoded integer), not from bytes received"
				}
				r.Check("C07.alloc", shortFn(fn), what+"-size", in.Pos(), ok, why)
			}
		}
	}
	r.Floor("C07.alloc", 3)
}

// dependsOnDecodedInt: the value derives from binary.BigEndian.UintNN of received bytes or from a header byte.
func dependsOnDecodedInt(v ssa.Value, seen map[ssa.Value]bool) bool {
	if v == nil || seen[v] {
		return false
	}
	seen[v] = true
	switch x := v.(type) {
	case *ssa.Call:
		if f := x.Call.StaticCallee(); f != nil {
			switch extName(f) {
			case "(encoding/binary.bigEndian).Uint16", "(encoding/binary.bigEndian).Uint32", "(encoding/binary.bigEndian).Uint64", "strconv.Atoi", "strconv.ParseInt", "strconv.ParseUint":
				return true
			}
		}
		if b, ok := x.Call.Value.(*ssa.Builtin); ok && (b.Name() == "min" || b.Name() == "max") {
			for _, a := range x.Call.Args {
				if dependsOnDecodedInt(a, seen) {
					return true
				}
			}
		}
	case *ssa.BinOp:
		return dependsOnDecodedInt(x.X, seen) || dependsOnDecodedInt(x.Y, seen)
	case *ssa.Convert:
		return dependsOnDecodedInt(x.X, seen)
	case *ssa.Phi:
		for _, e := range x.Edges {
			if dependsOnDecodedInt(e, seen) {
				return true
			}
		}
	case *ssa.UnOp:
		if x.Op == token.MUL {
			if _, isIdx := x.X.(*ssa.IndexAddr); isIdx {
				if b, ok := x.Type().Underlying().(*types.Basic); ok && b.Kind() == types.Uint8 {
					return true // a received byte used as a size
				}
			}
		}
	}
	return false
}

// guardAlreadyFalse: the loop head tests `x.f == nil` (continue while nil) and
// the path has just made x.f non-nil: the next evaluation of the guard leaves the loop.
func (st *c07state) guardAlreadyFalse(x *core.Explorer, head *ssa.BasicBlock, eval func(ssa.Value) *core.Term) bool {
	iff, ok := head.Instrs[len(head.Instrs)-1].(*ssa.If)
	if !ok {
		return false
	}
	cmp, ok := iff.Cond.(*ssa.BinOp)
	if !ok || (cmp.Op != token.EQL && cmp.Op != token.NEQ) {
		return false
	}
	k, isC := cmp.Y.(*ssa.Const)
	if !isC || k.Value != nil {
		return false
	}
	ld, isLd := cmp.X.(*ssa.UnOp)
	if !isLd || ld.Op != token.MUL {
		return false
	}
	fa, isFA := ld.X.(*ssa.FieldAddr)
	if !isFA {
		return false
	}
	body := loopBody(head)
	if body[head.Succs[0]] == body[head.Succs[1]] {
		return false
	}
	cur, known := x.Peek(x.FieldAddrOf(eval(fa.X), fieldOf(fa)))
	if !known {
		return false
	}
	v, decided := x.Decide(x.Eq(cur, x.T.Const(nil, cur.Type)))
	if !decided {
		return false
	}
	// the successor the test selects in the current state: `for f == nil {` and
	// `for { if f != nil { return } ...` are the same guard
	next := head.Succs[1]
	if v == (cmp.Op == token.EQL) {
		next = head.Succs[0]
	}
	return !body[next]
}

// isCursorType: strings and byte slices can serve as shrinking cursors of a loop.
func isCursorType(t types.Type) bool {
	if isStringType(t) {
		return true
	}
	if sl, ok := t.Underlying().(*types.Slice); ok {
		if b, isB := sl.Elem().Underlying().(*types.Basic); isB && b.Kind() == types.Uint8 {
			return true
		}
	}
	return false
}
