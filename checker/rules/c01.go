package rules

import (
	"go/token"
	"go/types"

	"golang.org/x/tools/go/ssa"

	"wsverif/core"
)

func init() {
	register("C01", "Decides the structural conditions of round-trip fidelity that are visible in the code: the writer's and the reader's frame codecs agree (length classes, byte order, header position, mask key threading), the encoded length is exactly the bytes handed to the transport, every write API advances one cursor by exactly what it copied, the unbuffered 'extra' path is server-only, the RFC 7692 tail the writer strips is the one the reader re-appends, and a compressed message is closed through its flate writer. Byte-identical payloads, flate/json round trips and chunking independence are value properties and are not decided.", c01)
}

func c01(c *Ctx) {
	r := c.R
	w := newWriterA(c)
	rd := newReader(c)
	r.Rule("C01.writer-codec", "writer: header class/extension/position and encoded length == bytes handed to write (same rule as C02.frame-header), masking of exactly the payload with the key in the header")
	r.Rule("C01.reader-codec", "reader: extension width/decoder per class, key copy + position reset per masked frame, FIN/RSV1 flags (same rules as C03.len-classes / mask-thread / final-flag)")
	r.Rule("C01.reader-cursor", "reader: Read asks for at most readRemaining bytes, subtracts exactly n, unmasks exactly b[:n] at the carried key position")
	r.Rule("C01.cursor-siblings", "Write, WriteString, ReadFrom and the WriteMessage fast path: the number of bytes copied into writeBuf[w.pos:] is the amount added to w.pos (on every path, including reads that return data together with an error), the unbuffered remainder is exactly the source after the copied prefix, and every flush goes through flushFrame")
	r.Rule("C01.extra-server-only", "flushFrame receives a non-nil extra slice only on paths that know Conn.isServer (the client branch would poison the connection)")
	r.Rule("C01.deflate-tail", "decompressNoContextTakeover appends 00 00 ff ff followed by a final empty stored block; flateWriteWrapper.Close checks the withheld bytes against 00 00 ff ff; truncWriter withholds exactly 4 bytes")
	r.Rule("C01.compress-writer", "a compressed message is written through the compressing writer installed as Conn.writer (same rule as C02.rsv1) and the wrapper's Close flushes flate and closes the message writer")

	r.Rule("C01.control-undisturbing", "control frames arriving between data frames do not end the data stream: the default ping/pong/close handlers are the documented ones and the default ping and pong handlers return nil whatever WriteControl reports (same rule as C08.defaults)")
	c08defaults(c, rd, "C01.control-undisturbing")
	r.Rule("C01.early-bytes", "frames the client pipelined behind its handshake reach the frame reader exactly once: brNetConn.Read hands out the hijacked reader's bytes first and detaches it only once it is drained (same rule as C17.brnetconn)")
	r.Rule("C01.compression-agreed", "both ends agree on whether messages are compressed: the reply's extension header is examined on every field line (same rule as C15.all-header-lines)")
	allHeaderLines(c, "C01.compression-agreed", "parseExtensions")
	c.borrow(c17, map[string]string{"C17.brnetconn": "C01.early-bytes", "C17.client-reader": "C01.early-bytes", "C17.reader-stable": "C01.early-bytes"})
	r.Rule("C01.inflater-exclusive", "a decompressor returned to the pool is forgotten in the same step, so two connections never inflate through one flate reader (same rule as C03.inflater-exclusive)")
	if c.poolTypestate("C01.inflater-exclusive", "(*flateReadWrapper).Close", "(*flateReadWrapper).Read") < 1 {
		r.Fail("C01.inflater-exclusive", "(*flateReadWrapper).Close", "pool-put-site", c.fn("(*flateReadWrapper).Close").Pos(), "no Put of the inflater found")
	}
	if c.poolTypestate("C01.inflater-exclusive", "(*flateWriteWrapper).Close") < 1 {
		r.Fail("C01.inflater-exclusive", "(*flateWriteWrapper).Close", "pool-put-site", c.fn("(*flateWriteWrapper).Close").Pos(), "no Put of the deflater found")
	}
	r.Rule("C01.message-boundaries", "the reader ends a message exactly at its true end, skips abandoned messages without surfacing their frames, and inflates exactly the messages whose first frame had RSV1 (same rules as C03.eom, C03.skip-loop, C03.inflate-iff-rsv1, C03.reader-wrappers)")
	c.borrow(c03, map[string]string{"C03.eom": "C01.message-boundaries", "C03.skip-loop": "C01.message-boundaries", "C03.inflate-iff-rsv1": "C01.message-boundaries", "C03.reader-wrappers": "C01.message-boundaries"})
	r.Rule("C01.frames-whole", "frames of different messages never interleave or follow a partially written frame, and every message after the first frame continues with continuation frames (same rules as C02.whole-frames, C02.continuation)")
	c.borrow(c02, map[string]string{"C02.whole-frames": "C01.frames-whole", "C02.continuation": "C01.frames-whole"})
	r.Rule("C01.buffer-exclusive", "the write buffer a message is built in belongs to one connection until the message ended: pooled buffers are taken and returned only by beginMessage/endMessage, put back once and never touched afterwards (same rules as C20.owners, C20.put-once, C20.no-use-after, C20.all-exits)")
	c.borrow(c20, map[string]string{"C20.owners": "C01.buffer-exclusive", "C20.put-once": "C01.buffer-exclusive", "C20.no-use-after": "C01.buffer-exclusive", "C20.all-exits": "C01.buffer-exclusive", "C20.implicit-close": "C01.frames-whole"})
	c.borrow(c19, map[string]string{"C19.payload-copy": "C01.buffer-exclusive", "C19.single-frame": "C01.buffer-exclusive", "C19.key-complete": "C01.buffer-exclusive"})
	r.Rule("C01.no-stale-deadline", "the connection Dial returns carries no deadline left over from the handshake (HandshakeTimeout or the caller's context): otherwise a later read fails with a timeout and the echoed message is lost (same rule as C16.deadline-cleared)")
	c.borrow(c16, map[string]string{"C16.deadline-cleared": "C01.no-stale-deadline"})
	r.Rule("C01.control-timeout-harmless", "a WriteControl that gives up waiting for the connection has written nothing and does not record a write error, so the data messages sent afterwards are still accepted (same rule as C11.timeout-paths)")
	c.borrow(c11, map[string]string{"C11.timeout-paths": "C01.control-timeout-harmless"})
	r.Rule("C01.control-frames-readable", "control frames of every legal size between data frames are read and dispatched without disturbing the message (same rules as C08.read-buffer, C08.dispatch)")
	c.borrow(c08, map[string]string{"C08.read-buffer": "C01.control-frames-readable", "C08.dispatch": "C01.control-frames-readable"})
	r.Rule("C01.write-bounds", "class invariant of the message writer, by assume/guarantee over all writer methods: maxFrameHeaderSize <= w.pos <= len(writeBuf) and len(writeBuf) > maxFrameHeaderSize are established by newConn/beginMessage, preserved by every store to w.pos, and make every index/slice site of Write, WriteString, ReadFrom, ncopy, flushFrame, Close and the WriteMessage fast path in bounds for every payload size and chunking; ncopy grants 1 <= n <= min(max, room) so the Write loops make progress")
	w.writeBounds("C01.write-bounds")
	w.frameHeader("C01.writer-codec", "C01.writer-codec", "C01.writer-codec")
	w.controlHeader("C01.writer-codec", "C01.writer-codec", "C01.writer-codec")
	rd.parserRules("C01.reader-codec", "C01.reader-codec", "C01.reader-codec", "C01.reader-codec")
	rd.readUnmask("C01.reader-cursor")
	rd.remainingRule("C01.reader-cursor")
	w.rsv1("C01.compress-writer")
	w.cursorSiblings("C01.cursor-siblings")
	w.extraServerOnly("C01.extra-server-only")
	w.deflateTail("C01.deflate-tail")
	w.wrapperClose("C01.compress-writer")
	compressorDeflates(c, "C01.compress-writer")
}

// cursorSiblings: every write API advances w.pos by what it copied.
func (w *writerA) cursorSiblings(rule string) {
	c, r := w.c, w.c.R
	intT := types.Typ[types.Int]
	// Write / WriteString: copy(writeBuf[pos:], src[:n]) then pos += n
	for _, fn := range []*ssa.Function{w.mwWrite, w.mwWS} {
		ok, why := true, "copy(writeBuf[w.pos:], p[:n]) is followed by w.pos += n with the same n (the count granted by ncopy)"
		nCopies := 0
		c.explore(rule, fn, core.Opts{Unroll: 0, RecordLoads: true}, func(p *core.Path) {
			for i := range p.Events {
				ev := &p.Events[i]
				if ev.Kind != core.EvCall || ev.Builtin != "copy" || len(ev.Args) != 2 {
					continue
				}
				dst, src := ev.Args[0], ev.Args[1]
				if dst.Kind != core.KSlice {
					continue
				}
				if _, is := fieldLoad(dst.Args[0], w.writeBuf); !is {
					continue
				}
				nCopies++
				pos := dst.Args[1]
				if _, is := fieldLoad(pos, w.mwPos); !is {
					ok, why = false, "bytes are copied to writeBuf at an offset other than w.pos"
					continue
				}
				// fast path: the whole source is copied where the path knows it fits (len(src) <= len(writeBuf) - w.pos),
				// and w.pos advances by the copy count (= len(src) there) or by len(src)
				if src.Kind == core.KParam {
					x := p.X
					room := x.Bin(token.SUB, x.Len(dst.Args[0]), pos, intT)
					if !x.ProveLeq(x.Len(src), room) {
						ok, why = false, "the whole source is copied into writeBuf without the path knowing that it fits (bytes beyond the buffer would be dropped silently)"
						continue
					}
					adv := false
					for k := i + 1; k < len(p.Events); k++ {
						e := &p.Events[k]
						if e.Kind == core.EvStore && isFieldAddr(e.Addr, w.mwPos) {
							adv = e.Val == x.Bin(token.ADD, pos, ev.Result, intT) || e.Val == x.Bin(token.ADD, pos, x.Len(src), intT)
							break
						}
						if e.Kind == core.EvCall && e.Builtin == "" {
							break
						}
					}
					if !adv {
						ok, why = false, "after copying the whole source w.pos is not advanced by the number of bytes copied"
					}
					continue
				}
				if src.Kind != core.KSlice || src.Args[2].Kind == core.KNone {
					ok, why = false, "the copied source is not a bounded slice src[off:off+n]"
					continue
				}
				// n = hi - lo  (p[:n] or p[off:off+n])
				n := src.Args[2]
				if lo := src.Args[1]; lo.Kind != core.KNone {
					hi := src.Args[2]
					switch {
					case hi.Kind == core.KBin && hi.Op == token.ADD && hi.Args[0] == lo:
						n = hi.Args[1]
					case hi.Kind == core.KBin && hi.Op == token.ADD && hi.Args[1] == lo:
						n = hi.Args[0]
					default:
						ok, why = false, "cannot determine how many bytes are copied from the source slice"
						continue
					}
				}
				if !(n.Kind == core.KExtract && n.Args[0].Kind == core.KCall && n.Args[0].Ref == interface{}(w.ncopy)) {
					ok, why = false, "the copied amount is not the count granted by ncopy"
				}
				want := p.X.Bin(token.ADD, pos, n, intT)
				adv := false
				for k := i + 1; k < len(p.Events); k++ {
					e := &p.Events[k]
					if e.Kind == core.EvStore && isFieldAddr(e.Addr, w.mwPos) {
						adv = e.Val == want
						break
					}
					if e.Kind == core.EvCall && !(e.Builtin != "") {
						break
					}
				}
				if !adv {
					ok, why = false, "after copying n bytes w.pos is not advanced by exactly n"
				}
			}
			// full success returns the original length
			if p.End == core.EndReturn && len(p.Results) == 2 && p.Results[1].IsNil() {
				res := p.Results[0]
				if !(res.Kind == core.KLen && res.Args[0].Kind == core.KParam) {
					ok, why = false, "a successful write does not report len(p) bytes written"
				}
			}
		})
		r.Check(rule, shortFn(fn), "copy-and-advance", fn.Pos(), ok && nCopies > 0, why)
	}
	// Write: large unbuffered path hands the whole p to flushFrame
	{
		ok, why := true, "the unbuffered path passes p itself as extra and reports len(p)"
		n := 0
		c.explore(rule, w.mwWrite, core.Opts{Unroll: 0}, func(p *core.Path) {
			for i := range p.Events {
				ev := &p.Events[i]
				if callsStatic(ev, w.flush) && len(ev.Args) == 3 && !ev.Args[2].IsNil() {
					n++
					if !(ev.Args[2].Kind == core.KParam && ev.Args[2].Ref == w.mwWrite.Params[1]) {
						ok, why = false, "the unbuffered path does not pass the caller's slice unchanged"
					}
					if b, isB := ev.Args[1].BoolVal(); !isB || b {
						ok, why = false, "Write emits a final frame"
					}
				}
			}
		})
		r.Check(rule, shortFn(w.mwWrite), "unbuffered-extra-is-p", w.mwWrite.Pos(), ok && n > 0, why)
	}
	// ReadFrom: n bytes read into writeBuf[pos:] always advance pos by n
	{
		ok, why := true, "every Read into writeBuf[w.pos:] is followed by w.pos += n on every path, whatever error came with the data"
		nReads := 0
		c.explore(rule, w.mwRF, core.Opts{Unroll: 0, RecordLoads: true}, func(p *core.Path) {
			for i := range p.Events {
				ev := &p.Events[i]
				if ev.Kind != core.EvCall || ev.Static != nil || ev.Method == nil || ev.Method.Name() != "Read" || len(ev.Args) != 1 {
					continue
				}
				dst := ev.Args[0]
				if dst.Kind != core.KSlice {
					continue
				}
				if _, is := fieldLoad(dst.Args[0], w.writeBuf); !is {
					continue
				}
				nReads++
				pos := dst.Args[1]
				if _, is := fieldLoad(pos, w.mwPos); !is || dst.Args[2].Kind != core.KNone {
					ok, why = false, "ReadFrom does not read into writeBuf[w.pos:]"
					continue
				}
				n := p.X.ExtractOf(ev.Result, 0, nil)
				want := p.X.Bin(token.ADD, pos, n, intT)
				adv := false
				for k := i + 1; k < len(p.Events); k++ {
					e := &p.Events[k]
					if e.Kind == core.EvStore && isFieldAddr(e.Addr, w.mwPos) {
						adv = e.Val == want
						break
					}
					if e.Kind == core.EvCall {
						break
					}
				}
				if !adv && p.End != core.EndCut {
					ok, why = false, "bytes read into the buffer at "+c.P.Pos(ev.Instr.Pos())+" are not added to w.pos on the path returning at "+posOfRet(c, p)+" (data returned together with an error is dropped)"
				}
			}
		})
		r.Check(rule, shortFn(w.mwRF), "read-and-advance", w.mwRF.Pos(), ok && nReads > 0, why)
	}
	// WriteMessage fast path
	{
		ok, why := true, "n := copy(writeBuf[mw.pos:], data); mw.pos += n; flushFrame(true, data[n:])"
		n := 0
		c.explore(rule, w.writeMessage, core.Opts{Unroll: 0, RecordLoads: true}, func(p *core.Path) {
			for i := range p.Events {
				ev := &p.Events[i]
				if !callsStatic(ev, w.flush) || len(ev.Args) != 3 {
					continue
				}
				n++
				extra := ev.Args[2]
				var cp *core.Event
				for k := 0; k < i; k++ {
					if e := &p.Events[k]; e.Kind == core.EvCall && e.Builtin == "copy" {
						cp = e
					}
				}
				if cp == nil {
					ok, why = false, "fast path does not copy into the write buffer"
					continue
				}
				dst, src := cp.Args[0], cp.Args[1]
				if _, is := fieldLoad(dst.Args[0], w.writeBuf); dst.Kind != core.KSlice || !is {
					ok, why = false, "fast path copies somewhere other than writeBuf"
					continue
				}
				pos := dst.Args[1]
				cnt := cp.Result
				want := p.X.Bin(token.ADD, pos, cnt, intT)
				adv := false
				for k := 0; k < i; k++ {
					if e := &p.Events[k]; e.Kind == core.EvStore && isFieldAddr(e.Addr, w.mwPos) && e.Val == want {
						adv = true
					}
				}
				if !adv {
					ok, why = false, "fast path does not advance mw.pos by the number of bytes copied"
				}
				if !(extra.Kind == core.KSlice && extra.Args[0] == src && extra.Args[1] == cnt && extra.Args[2].Kind == core.KNone) {
					ok, why = false, "fast path does not hand exactly data[n:] to flushFrame"
				}
				if b, isB := ev.Args[1].BoolVal(); !isB || !b {
					ok, why = false, "fast path does not emit a final frame"
				}
			}
		})
		r.Check(rule, shortFn(w.writeMessage), "fast-path-copy-advance-rest", w.writeMessage.Pos(), ok && n > 0, why)
	}
}

func posOfRet(c *Ctx, p *core.Path) string {
	if p.Ret != nil {
		return c.P.Pos(p.Ret.Pos())
	}
	return "-"
}

// extraServerOnly: non-nil extra only with isServer known.
func (w *writerA) extraServerOnly(rule string) {
	c, r := w.c, w.c.R
	isServer := c.P.Field("Conn", "isServer")
	n := 0
	hosts := map[*ssa.Function]bool{}
	for _, g := range c.P.FuncList {
		for _, b := range g.Blocks {
			for _, in := range b.Instrs {
				if ci, ok := in.(ssa.CallInstruction); ok && ci.Common().StaticCallee() == w.flush {
					if k, isC := ci.Common().Args[2].(*ssa.Const); !isC || k.Value != nil {
						// a helper extracted later is judged inside its callers (they may establish the role)
						for _, h := range c.hostsOf(g) {
							hosts[h] = true
						}
					}
				}
			}
		}
	}
	for _, g := range c.P.FuncList {
		if !hosts[g] {
			continue
		}
		ok, why := true, "flushFrame(.., extra != nil) only under [c.isServer]"
		c.explore(rule, g, core.Opts{Unroll: 0}, func(p *core.Path) {
			for i := range p.Events {
				ev := &p.Events[i]
				if !callsStatic(ev, w.flush) || ev.Args[2].IsNil() {
					continue
				}
				n++
				if !hasLit(p, ev.NLits, true, func(t *core.Term) bool { _, y := fieldLoad(t, isServer); return y }) {
					ok, why = false, "flushFrame is given unbuffered data at "+c.P.Pos(ev.Instr.Pos())+" on a path that may be a client connection"
				}
			}
		})
		r.Check(rule, shortFn(g), "extra-only-when-server", g.Pos(), ok, why)
	}
	r.Floor(rule, 2)
}

// deflateTail: the two halves of the RFC 7692 tail agree.
func (w *writerA) deflateTail(rule string) {
	c, r := w.c, w.c.R
	const syncTail = "\x00\x00\xff\xff"
	const finalBlock = "\x01\x00\x00\xff\xff"
	// reader side
	{
		fn := c.fn("decompressNoContextTakeover")
		ok, why := true, "MultiReader(r, NewReader(00 00 ff ff 01 00 00 ff ff)) feeds the inflater"
		n := 0
		c.explore(rule, fn, core.Opts{}, func(p *core.Path) {
			if p.End != core.EndReturn {
				return
			}
			n++
			var tailReader, multi *core.Term
			for i := range p.Events {
				ev := &p.Events[i]
				if ev.Kind == core.EvCall && ev.Static != nil && extName(ev.Static) == "strings.NewReader" {
					s, isS := ev.Args[0].StrVal()
					if !isS || len(s) < 4 || s[:4] != syncTail {
						ok, why = false, "the bytes appended after a compressed message do not start with 00 00 ff ff"
					} else if s[4:] != finalBlock {
						ok, why = false, "the appended tail is not followed by a final empty stored block (the inflater would not see the end of the stream)"
					}
					tailReader = ev.Result
				}
				if ev.Kind == core.EvCall && ev.Static != nil && extName(ev.Static) == "io.MultiReader" {
					multi = ev.Result
					// elements: r then the tail reader
					a := ev.Args[0]
					if a.Kind == core.KSlice && a.Args[0].Kind == core.KAlloc {
						e0 := storedAt(p, a.Args[0], p.X.T.Int(0), i)
						e1 := storedAt(p, a.Args[0], p.X.T.Int(1), i)
						if e0 == nil || e1 == nil || strip(e0).Kind != core.KParam || tailReader == nil || strip(e1) != tailReader {
							ok, why = false, "the inflater does not read the message followed by the tail"
						}
					}
				}
			}
			if tailReader == nil || multi == nil {
				ok, why = false, "no tail is appended to the compressed message"
			}
			// the inflater is reset onto / created on the multi reader
			fed := false
			for i := range p.Events {
				ev := &p.Events[i]
				if ev.Kind == core.EvCall && len(ev.Args) > 0 && ev.Args[0] == multi && (ev.Method != nil && (ev.Method.Name() == "Reset" || ev.Method.Name() == "NewReader")) {
					fed = true
				}
			}
			if !fed {
				ok, why = false, "the inflater is not fed from the message-plus-tail reader"
			}
		})
		r.Check(rule, shortFn(fn), "tail-appended", fn.Pos(), ok && n > 0, why)
	}
	// writer side
	{
		fn := c.fn("(*flateWriteWrapper).Close")
		twp := c.P.Field("truncWriter", "p")
		ok, why := true, "Close compares the withheld bytes with 00 00 ff ff"
		n := 0
		c.explore(rule, fn, core.Opts{}, func(p *core.Path) {
			for _, l := range p.Lits {
				if l.T.Kind != core.KEq {
					continue
				}
				a, b := l.T.Args[0], l.T.Args[1]
				if _, is := fieldLoad(b, twp); is {
					a, b = b, a
				}
				if _, is := fieldLoad(a, twp); !is {
					continue
				}
				n++
				// a package-level constant array stands for its content
				if sb := strip(b); sb.Kind == core.KLoad && sb.Args[0].Kind == core.KGlobal {
					if vals, isArr := c.globalByteArray(sb.Args[0].Ref.(*ssa.Global)); isArr && len(vals) == 4 {
						for i, want := range []int64{0, 0, 0xff, 0xff} {
							if vals[i] != want {
								ok, why = false, "the tail the writer strips is not 00 00 ff ff (the reader re-appends 00 00 ff ff)"
							}
						}
						continue
					}
				}
				if b.Kind != core.KSliceLit || len(b.Args) != 4 {
					ok, why = false, "the withheld bytes are compared with something other than a 4-byte literal"
					continue
				}
				for i, want := range []int64{0, 0, 0xff, 0xff} {
					if v, isC := b.Args[i].Int64(); !isC || v != want {
						ok, why = false, "the tail the writer strips is not 00 00 ff ff (the reader re-appends 00 00 ff ff)"
					}
				}
			}
		})
		r.Check(rule, shortFn(fn), "tail-checked", fn.Pos(), ok && n > 0, why)
		at, isArr := twp.Type().Underlying().(*types.Array)
		r.Check(rule, "truncWriter", "withholds-4-bytes", fn.Pos(), isArr && at.Len() == 4, "truncWriter.p must hold exactly the 4 tail bytes")
	}
}

// wrapperClose: flateWriteWrapper.Close flushes flate and closes the inner writer on every normal path.
func (w *writerA) wrapperClose(rule string) {
	c, r := w.c, w.c.R
	fn := c.fn("(*flateWriteWrapper).Close")
	fwF := c.P.Field("flateWriteWrapper", "fw")
	ok, why := true, "Flush precedes the inner Close; the inner Close is reached on every path except already-closed and the internal-error return"
	n := 0
	c.explore(rule, fn, core.Opts{}, func(p *core.Path) {
		if p.End != core.EndReturn {
			return
		}
		closedBefore := hasLit(p, len(p.Lits), true, func(t *core.Term) bool {
			return isEqNil(t, func(y *core.Term) bool { _, is := fieldLoad(y, fwF); return is })
		})
		if closedBefore {
			return
		}
		n++
		flushAt, closeAt := -1, -1
		for i := range p.Events {
			ev := &p.Events[i]
			if ev.Kind == core.EvCall && ev.Static != nil && extName(ev.Static) == "(*compress/flate.Writer).Flush" {
				flushAt = i
			}
			if ev.Kind == core.EvCall && ev.Static == nil && ev.Method != nil && ev.Method.Name() == "Close" {
				closeAt = i
			}
		}
		if flushAt < 0 {
			ok, why = false, "the flate writer is not flushed when the compressed message is closed"
		}
		if closeAt < 0 {
			if !c.nonNilErr(p.Results[0]) {
				ok, why = false, "a path of flateWriteWrapper.Close returns without closing the message writer and without an internal error"
			}
		} else if flushAt > closeAt {
			ok, why = false, "the message writer is closed before the flate writer was flushed"
		}
	})
	r.Check(rule, shortFn(fn), "flush-then-close", fn.Pos(), ok && n > 0, why)
}
