package rules

import (
	"sort"
	"fmt"
	"go/constant"
	"go/types"
	"strings"

	"golang.org/x/tools/go/ssa"

	"wsverif/core"
)

func init() {
	register("C15", "Decides that both ends derive 'compression in use' from the same facts: the server installs the compression functions iff it appends the permessage-deflate line (only with EnableCompression and an offer); the client installs them only when the reply's extension is permessage-deflate with both no_context_takeover parameters and refuses a partial reply; both functions always come in pairs; the announced and offered literals contain what the other side tests for; the reader accepts RSV1 only with a decompressor and the writer sets it only when negotiated and enabled; compression levels stored are within the pool array's range. inflate(deflate(x)) = x is not decided.", c15)
}

func c15(c *Ctx) {
	r := c.R
	u := newUpgA(c)
	d := newDialA(c)
	w := newWriterA(c)
	rd := newReader(c)
	r.Rule("C15.server", "Upgrade: extension line appended <=> both compression functions installed; only under EnableCompression and a permessage-deflate offer (same rule as C12.compress-announce)")
	r.Rule("C15.client", "DialContext: the compression functions are stored only on paths where an extension of the reply has token permessage-deflate and both server_no_context_takeover and client_no_context_takeover are present; a permessage-deflate reply missing either parameter returns errInvalidCompression and no connection; the offer is sent iff EnableCompression (C14.request-shape)")
	r.Rule("C15.literals-agree", "the line the server announces and the offer the client sends both parse as permessage-deflate with exactly the two no_context_takeover parameters, i.e. what the peer's acceptance test looks for")
	r.Rule("C15.paired", "every function that stores newCompressionWriter on a published Conn stores newDecompressionReader on the same paths, with compressNoContextTakeover / decompressNoContextTakeover")
	r.Rule("C15.reader-gate", "a frame with RSV1 is refused unless a decompressor is configured (C04.header-guards class RSV1) and readDecompress follows RSV1 of each frame (C03.inflate-iff-rsv1)")
	r.Rule("C15.writer-gate", "RSV1 is set only when compression was negotiated, is enabled and the message is data (C02.rsv1)")
	r.Rule("C15.prepared-gate", "a PreparedMessage is sent compressed only to a connection that negotiated compression: prepareKey.compress == (newCompressionWriter != nil && enableWriteCompression && isData), and the private rendering Conn compresses iff key.compress with compressNoContextTakeover (same rules as C19.key-agrees / C19.key-complete)")
	c.borrow(c19, map[string]string{"C19.key-agrees": "C15.prepared-gate", "C19.key-complete": "C15.prepared-gate"})
	r.Rule("C15.all-header-lines", "extension offers and replies spread over several Sec-WebSocket-Extensions header lines are all parsed: the loop over header lines is left only when the lines are exhausted (no break out of it)")
	noBreakFromHeaderLoops(c, "C15.all-header-lines", "parseExtensions")
	allHeaderLines(c, "C15.all-header-lines", "parseExtensions")
	r.Rule("C15.offer-owned", "the client's extension offer is the library's own: a caller-supplied Sec-WebSocket-Extensions request header is never copied (same rule as C14.request-shape), so the server cannot negotiate an extension the client will not act on")
	c.borrow(c14, map[string]string{"C14.request-shape": "C15.offer-owned"})
	r.Rule("C15.deflater-exclusive", "a compressor returned to its pool is forgotten in the same step on every path, so two connections never deflate through one flate.Writer (the peer could not decode the mixed stream; same rule as C02.deflater-exclusive)")
	if c.poolTypestate("C15.deflater-exclusive", "(*flateWriteWrapper).Close") < 1 {
		r.Fail("C15.deflater-exclusive", "(*flateWriteWrapper).Close", "pool-put-site", c.fn("(*flateWriteWrapper).Close").Pos(), "no Put of the deflater found")
	}
	r.Rule("C15.inflater-exclusive", "a decompressor returned to its pool is forgotten in the same step and a closed wrapper stays closed, so two connections never inflate through one flate reader (same rule as C03.inflater-exclusive)")
	if c.poolTypestate("C15.inflater-exclusive", "(*flateReadWrapper).Close", "(*flateReadWrapper).Read") < 1 {
		r.Fail("C15.inflater-exclusive", "(*flateReadWrapper).Close", "pool-put-site", c.fn("(*flateReadWrapper).Close").Pos(), "no Put of the inflater found")
	}
	r.Rule("C15.level-range", "Conn.compressionLevel is assigned only the default constant or a value that passed isValidCompressionLevel, whose bounds equal the index range of flateWriterPools; compressNoContextTakeover indexes the pools with level - minCompressionLevel")
	r.Table("PreparedMessage.frame's private Conn sets only newCompressionWriter (it never reads): reviewed exception to C15.paired")

	u.compressAnnounce("C15.server")
	u.runFull("C15.server")
	d.clientCompression("C15.client")
	d.preNetworkOffer("C15.client")

	// ---- literals agree
	{
		var server, client []string
		scan := func(fn *ssa.Function, out *[]string) {
			for _, b := range fn.Blocks {
				for _, in := range b.Instrs {
					for _, op := range in.Operands(nil) {
						if k, ok := (*op).(*ssa.Const); ok && k.Value != nil && k.Value.Kind() == constant.String {
							if sv := constant.StringVal(k.Value); strings.Contains(sv, "permessage-deflate") && len(sv) > len("permessage-deflate") {
								*out = append(*out, sv)
							}
						}
					}
				}
			}
		}
		// the announcing literal may live in a helper of Upgrade: take every package literal, split by the header-name prefix
		var all []string
		for _, fn := range c.P.FuncList {
			scan(fn, &all)
		}
		for _, lit := range all {
			if strings.Contains(lit, "Sec-WebSocket-Extensions") {
				server = append(server, lit)
			} else {
				client = append(client, lit)
			}
		}
		// every distinct spelling in the package must be the agreed one (an accessor may repeat it)
		dedupe := func(in []string) []string {
			seen := map[string]bool{}
			var out []string
			for _, s := range in {
				if !seen[s] {
					seen[s] = true
					out = append(out, s)
				}
			}
			sort.Strings(out)
			return out
		}
		server, client = dedupe(server), dedupe(client)
		okS, okC := len(server) >= 1, len(client) >= 1
		for _, s := range server {
			okS = okS && extensionLineOK(s)
		}
		for _, s := range client {
			okC = okC && extensionLineOK("Sec-WebSocket-Extensions: "+s+"\r\n")
		}
		r.Check("C15.literals-agree", shortFn(u.upgrade), "announced-literal", u.upgrade.Pos(), okS, fmt.Sprintf("server announces %q: must be permessage-deflate with exactly server_no_context_takeover and client_no_context_takeover (what the client's acceptance test requires)", server))
		r.Check("C15.literals-agree", shortFn(d.dial), "offered-literal", d.dial.Pos(), okC, fmt.Sprintf("client offers %q: must contain the token the server matches on and both parameters", client))
	}

	// ---- paired
	{
		ncw, ndr := c.P.Field("Conn", "newCompressionWriter"), c.P.Field("Conn", "newDecompressionReader")
		wFns, rFns := map[*ssa.Function]bool{}, map[*ssa.Function]bool{}
		privateOnly := map[*ssa.Function]bool{}
		for _, s := range c.P.FieldStoreSites(ncw) {
			wFns[s.Parent()] = true
			// a Conn allocated in the same function and used only to render frames (never read from)
			fa, _ := s.Addr.(*ssa.FieldAddr)
			_, isNew := fa.X.(*ssa.Alloc)
			if prev, seen := privateOnly[s.Parent()]; seen {
				privateOnly[s.Parent()] = prev && isNew
			} else {
				privateOnly[s.Parent()] = isNew
			}
		}
		for _, s := range c.P.FieldStoreSites(ndr) {
			rFns[s.Parent()] = true
		}
		n := 0
		for _, fn := range c.P.FuncList {
			if !wFns[fn] && !rFns[fn] {
				continue
			}
			n++
			if (fn.Parent() != nil && shortFn(fn.Parent()) == "(*PreparedMessage).frame") || (!knownFuncs[shortFn(fn)] && (strings.Contains(shortFn(fn), "PreparedMessage") || privateOnly[fn])) {
				r.Check("C15.paired", shortFn(fn), "writer-only-on-private-conn", fn.Pos(), wFns[fn] && !rFns[fn], "private rendering Conn: writer only (table entry)")
				continue
			}
			r.Check("C15.paired", shortFn(fn), "both-functions-stored", fn.Pos(), wFns[fn] && rFns[fn], "a function that enables one direction of compression must enable the other (path-level pairing is checked by C15.server / C15.client)")
		}
		if n < 3 {
			r.Fail("C15.paired", "", "store-sites", c.fn("newConn").Pos(), "fewer than 3 functions store the compression functions")
		}
	}

	// ---- reader / writer gates
	{
		rej, _, nStates, nPaths := rd.headerTable("C15.reader-gate")
		cl := "RSV1-without-negotiated-compression"
		ok, why := rej[cl] == "", fmt.Sprintf("RSV1 frames are refused without a decompressor (%d header x state points, %d paths)", nStates, nPaths)
		if !ok {
			why = rej[cl]
		}
		r.Check("C15.reader-gate", shortFn(rd.advance), "reject:"+cl, rd.advance.Pos(), ok, why)
		rd.parserRules("C15.reader-codec", "C15.reader-codec", "C15.reader-codec", "C15.reader-gate")
		rd.inflateWrap("C15.reader-gate")
		w.rsv1("C15.writer-gate")
	}
	c15levels(c)
}

// clientCompression: adoption of compression from the reply.
func (d *dialA) clientCompression(rule string) {
	c, r := d.c, d.c.R
	ncw, ndr := c.P.Field("Conn", "newCompressionWriter"), c.P.Field("Conn", "newDecompressionReader")
	compW, compR := c.fn("compressNoContextTakeover"), c.fn("decompressNoContextTakeover")
	parseExt := c.fn("parseExtensions")
	errInv := c.P.Global("errInvalidCompression")
	ecF := c.P.Field("Dialer", "EnableCompression")
	tupT := d.readResp.Type().(*types.Tuple)
	ok, why := true, "compression adopted only for permessage-deflate with both parameters; partial replies refused"
	nOn, nRefuse, nOff := 0, 0, 0
	c.explore(rule, d.dial, core.Opts{Start: d.readResp, Unroll: 0, NonNilOnNilErr: true}, func(p *core.Path) {
		if p.End != core.EndReturn || len(p.Results) != 3 {
			return
		}
		x := p.X
		resp := x.ExtractOf(x.OpaqueOf(d.readResp), 0, tupT.At(0).Type())
		isExt := func(m *core.Term) bool { // element of parseExtensions(resp.Header)
			return elemOf(m, func(s *core.Term) bool {
				return s.Kind == core.KCall && s.Ref == interface{}(parseExt) && len(s.Args) == 1 && isRespField(s.Args[0], resp, "Header")
			})
		}
		var extTerm *core.Term
		token := hasLit(p, len(p.Lits), true, func(t *core.Term) bool {
			if t.Kind != core.KEq || t.Args[0].Kind != core.KLookup {
				return false
			}
			k, isK := t.Args[0].Args[1].StrVal()
			s, isS := t.Args[1].StrVal()
			if isK && k == "" && isS && s == "permessage-deflate" && isExt(t.Args[0].Args[0]) {
				extTerm = t.Args[0].Args[0]
				return true
			}
			return false
		})
		param := func(name string, pol bool) bool {
			return hasLit(p, len(p.Lits), pol, func(t *core.Term) bool {
				if t.Kind != core.KExtract || t.N != 1 || t.Args[0].Kind != core.KLookup {
					return false
				}
				k, isK := t.Args[0].Args[1].StrVal()
				return isK && k == name && t.Args[0].Args[0] == extTerm
			})
		}
		wSet, rSet := false, false
		for i := range p.Events {
			ev := &p.Events[i]
			if ev.Kind == core.EvStore && isFieldAddr(ev.Addr, ncw) {
				wSet = ev.Val.Kind == core.KFunc && ev.Val.Ref == interface{}(compW)
				if !wSet {
					ok, why = false, "newCompressionWriter is set to something other than compressNoContextTakeover"
				}
			}
			if ev.Kind == core.EvStore && isFieldAddr(ev.Addr, ndr) {
				rSet = ev.Val.Kind == core.KFunc && ev.Val.Ref == interface{}(compR)
				if !rSet {
					ok, why = false, "newDecompressionReader is set to something other than decompressNoContextTakeover"
				}
			}
		}
		if wSet != rSet {
			ok, why = false, "the client installs only one of the two compression functions"
		}
		// the decision follows the reply alone: the server decided from the request it received, whatever this
		// Dialer's own setting says (an offer can reach the server through a caller-supplied header).  A path
		// that returns a connection without compression after branching on Dialer.EnableCompression must
		// still know that the extension it skipped was not permessage-deflate.
		if !p.Results[0].IsNil() && !wSet {
			tokenFalse := hasLit(p, len(p.Lits), false, func(t *core.Term) bool {
				if t.Kind != core.KEq || t.Args[0].Kind != core.KLookup {
					return false
				}
				k, isK := t.Args[0].Args[1].StrVal()
				sv, isS := t.Args[1].StrVal()
				return isK && k == "" && isS && sv == "permessage-deflate" && isExt(t.Args[0].Args[0])
			})
			for _, l := range p.Lits {
				mentions := false
				l.T.Walk(func(t *core.Term) bool {
					if _, is := fieldLoad(t, ecF); is {
						mentions = true
					}
					return !mentions
				})
				if mentions && !tokenFalse {
					ok, why = false, "after the reply was read, DialContext branches on Dialer.EnableCompression ("+l.T.String()+") and returns a connection without compression without having looked at the extension: a reply announcing permessage-deflate is ignored while the server compresses"
				}
			}
		}
		conn := p.Results[0]
		if wSet || rSet {
			nOn++
			if !(token && param("server_no_context_takeover", true) && param("client_no_context_takeover", true)) {
				ok, why = false, "the client enables compression at "+c.P.Pos(p.Ret.Pos())+" without a reply extension 'permessage-deflate' carrying BOTH server_no_context_takeover and client_no_context_takeover"
			}
			return
		}
		if token && (param("server_no_context_takeover", false) || param("client_no_context_takeover", false)) {
			nRefuse++
			e := strip(p.Results[2])
			if !conn.IsNil() || !(e.Kind == core.KLoad && e.Args[0].Kind == core.KGlobal && e.Args[0].Ref == interface{}(errInv)) {
				ok, why = false, "a permessage-deflate reply lacking a no_context_takeover parameter is not refused with errInvalidCompression"
			}
			return
		}
		if !conn.IsNil() {
			nOff++
			// the verdict "the server did not announce permessage-deflate" needs every line of the reply's
			// extension header: a shortcut that looks at the first line only (Header.Get, a substring test)
			// returns an uncompressed connection while the server, which announced the extension on a later
			// line, compresses - and skips the refusal of a partial announcement
			parsed := false
			for i := range p.Events {
				if ev := &p.Events[i]; callsStatic(ev, parseExt) && len(ev.Args) == 1 && isRespField(ev.Args[0], resp, "Header") {
					parsed = true
				}
			}
			if !parsed {
				ok, why = false, "the connection returned at "+c.P.Pos(p.Ret.Pos())+" has no compression although parseExtensions(resp.Header) was not consulted on that path: an announcement on a header line the shortcut did not look at is ignored while the server compresses"
			}
			if token {
				ok, why = false, "a connection is returned without compression although the reply announced permessage-deflate with both parameters"
			}
		}
	})
	r.Check(rule, shortFn(d.dial), "adopt-only-with-both-parameters", d.dial.Pos(), ok && nOn > 0 && nRefuse > 0 && nOff > 0, why)
}

// preNetworkOffer: shares the request-shape rule (offer iff EnableCompression, literal parses).
func (d *dialA) preNetworkOffer(rule string) {
	d.preNetwork(rule+"#url", rule+"#offer", rule+"#key")
	// keep only the offer-related obligation under this property's rule name
	r := d.c.R
	var kept []core.Ob
	for _, o := range r.Obs {
		switch o.Rule {
		case rule + "#url", rule + "#key":
			continue
		case rule + "#offer":
			if o.Construct != "request-fields-and-protocol-headers" {
				continue
			}
			o.Rule = rule
			o.Construct = "offer-iff-EnableCompression-and-literal-parses"
		}
		kept = append(kept, o)
	}
	r.Obs = kept
}

func c15levels(c *Ctx) {
	r := c.R
	lvl := c.P.Field("Conn", "compressionLevel")
	valid := c.P.FuncOpt("isValidCompressionLevel") // optional: the range test may be written inline
	minL, maxL, defL := c.P.ConstInt("minCompressionLevel"), c.P.ConstInt("maxCompressionLevel"), c.P.ConstInt("defaultCompressionLevel")
	pools := c.P.Global("flateWriterPools")
	at, isArr := pools.Type().Underlying().(*types.Pointer).Elem().Underlying().(*types.Array)
	r.Check("C15.level-range", "flateWriterPools", "one-pool-per-level", pools.Pos(), isArr && at.Len() == maxL-minL+1 && defL >= minL && defL <= maxL,
		fmt.Sprintf("array length %v must equal maxCompressionLevel-minCompressionLevel+1 = %d and the default level %d must be in range", func() interface{} {
			if isArr {
				return at.Len()
			}
			return "?"
		}(), maxL-minL+1, defL))
	// isValidCompressionLevel: true only within [min, max]
	if valid != nil {
		ok, why := true, "returns true exactly for min <= level <= max"
		c.explore("C15.level-range", valid, core.Opts{}, func(p *core.Path) {
			if p.End != core.EndReturn {
				return
			}
			for _, lv := range []int64{minL - 1, minL, 0, defL, maxL, maxL + 1, -100, 100} {
				v, decided := evalBoolResult(p, valid.Params[0], lv)
				if !decided {
					continue
				}
				if v != (lv >= minL && lv <= maxL) {
					ok, why = false, fmt.Sprintf("isValidCompressionLevel(%d) = %v", lv, v)
				}
			}
		})
		r.Check("C15.level-range", shortFn(valid), "bounds-equal-pool-range", valid.Pos(), ok, why)
	}
	// stores to compressionLevel
	for _, st := range c.P.FieldStoreSites(lvl) {
		fn := st.Parent()
		if k, isC := st.Val.(*ssa.Const); isC && k.Value != nil {
			r.Check("C15.level-range", shortFn(fn), "store-constant-level", st.Pos(), k.Int64() >= minL && k.Int64() <= maxL, "constant compression level must be within the pool range")
			continue
		}
		ok, why := true, "stored under isValidCompressionLevel(level)"
		n := 0
		if fn.Parent() != nil || (ctorStore(st) && !knownFuncs[shortFn(fn)]) {
			// closure of PreparedMessage.frame: level copied from the key, which WritePreparedMessage takes from a live Conn
			r.Pass("C15.level-range", shortFn(fn), "store-level-from-prepare-key", st.Pos(), "level comes from prepareKey.compressionLevel, a copy of a validated Conn.compressionLevel")
			continue
		}
		// the range predicate is inlined (or already written inline): at the store the interval facts of the path
		// must confine the level to the index range of the pools
		c.explore("C15.level-range", fn, core.Opts{Inline: func(f *ssa.Function, d int) bool { return valid != nil && f == valid }}, func(p *core.Path) {
			for i := range p.Events {
				ev := &p.Events[i]
				if ev.Kind == core.EvStore && isFieldAddr(ev.Addr, lvl) {
					n++
					v := ev.Val
					lo, hasLo := p.X.Lower(v)
					hi, hasHi := p.X.Upper(v)
					if !(hasLo && hasHi && lo >= minL && hi <= maxL) {
						ok, why = false, fmt.Sprintf("a compression level is stored at %s without being known to lie in [%d, %d] (an out-of-range level indexes outside flateWriterPools)", c.P.Pos(ev.Instr.Pos()), minL, maxL)
					}
				}
			}
		})
		r.Check("C15.level-range", shortFn(fn), "store-validated-level", st.Pos(), ok && n > 0, why)
	}
	compressorDeflates(c, "C15.level-range")
	// index expression in compressNoContextTakeover
	{
		fn := c.fn("compressNoContextTakeover")
		ok := false
		for _, b := range fn.Blocks {
			for _, in := range b.Instrs {
				if ia, isIA := in.(*ssa.IndexAddr); isIA && ia.X == ssa.Value(pools) {
					if bo, isB := ia.Index.(*ssa.BinOp); isB && bo.Op.String() == "-" {
						if k, isK := bo.Y.(*ssa.Const); isK && k.Int64() == minL {
							if _, isP := bo.X.(*ssa.Parameter); isP {
								ok = true
							}
						}
					}
				}
			}
		}
		r.Check("C15.level-range", shortFn(fn), "pool-index-is-level-minus-min", fn.Pos(), ok, "flateWriterPools must be indexed with level - minCompressionLevel")
	}
}

// compressorDeflates: every level goes through flate, so the RSV1 bit NextWriter sets is always backed by a deflate stream.
func compressorDeflates(c *Ctx, rule string) {
	r := c.R
	fn := c.fn("compressNoContextTakeover")
	ok, why := true, "every path returns a fresh *flateWriteWrapper whose flate.Writer (flate.NewWriter(tw, level), or a pooled one Reset onto tw) writes through a truncWriter over w"
	n := 0
	c.explore(rule, fn, core.Opts{}, func(p *core.Path) {
		if p.End != core.EndReturn || len(p.Results) != 1 {
			return
		}
		n++
		res := p.Results[0]
		if res.Kind != core.KMakeIface || strip(res).Kind != core.KAlloc {
			ok, why = false, "compressNoContextTakeover returns "+res.String()+" at "+c.P.Pos(p.Ret.Pos())+" instead of a deflating wrapper: the frame is still marked RSV1 by NextWriter but carries bytes that are not a deflate stream"
			return
		}
		wrapped := false
		for i := range p.Events {
			ev := &p.Events[i]
			if ev.Kind != core.EvCall || ev.Static == nil {
				continue
			}
			switch extName(ev.Static) {
			case "compress/flate.NewWriter":
				wrapped = true
				if len(ev.Args) != 2 || strip(ev.Args[1]).Kind != core.KParam {
					ok, why = false, "flate.NewWriter is not given the requested level"
				}
			case "(*compress/flate.Writer).Reset":
				wrapped = true
			}
		}
		if !wrapped {
			ok, why = false, "a path of compressNoContextTakeover neither creates nor resets a flate.Writer"
		}
	})
	r.Check(rule, shortFn(fn), "every-level-deflates", fn.Pos(), ok && n > 0, why)
}

// noBreakFromHeaderLoops: in the named functions no loop with a loop test is
// left from inside its body towards the loop's own exit block (a `break` out
// of the header-line loop would skip the remaining header lines); leaving
// through a distinct returning block (`return true`) is fine.
// overStringList: the loop head tests a counter against the length of a
// []string (the header lines of one name: range header[name], or an index loop
// over them).
func overStringList(h *ssa.BasicBlock) bool {
	iff, ok := h.Instrs[len(h.Instrs)-1].(*ssa.If)
	if !ok {
		return false
	}
	cmp, ok := iff.Cond.(*ssa.BinOp)
	if !ok {
		return false
	}
	for _, side := range []ssa.Value{cmp.X, cmp.Y} {
		call, isCall := side.(*ssa.Call)
		if !isCall {
			continue
		}
		if bi, isB := call.Call.Value.(*ssa.Builtin); !isB || bi.Name() != "len" || len(call.Call.Args) != 1 {
			continue
		}
		if sl, isSl := call.Call.Args[0].Type().Underlying().(*types.Slice); isSl {
			if b, isBasic := sl.Elem().Underlying().(*types.Basic); isBasic && b.Info()&types.IsString != 0 {
				return true
			}
		}
	}
	return false
}

func noBreakFromHeaderLoops(c *Ctx, rule string, names ...string) {
	for _, name := range names {
		fn := c.fn(name)
		fns := []*ssa.Function{fn}
		for callee := range c.P.Mod(fn).Callees { // helpers extracted from it
			if c.isNewHelper(callee, 1) {
				fns = append(fns, callee)
			}
		}
		ok, why := true, "every loop with a test is left only through that test"
		n := 0
		for _, f := range fns {
			for _, h := range loopHeads(f) {
				body := loopBody(h)
				var exit *ssa.BasicBlock
				for _, s := range h.Succs {
					if !body[s] {
						exit = s
					}
				}
				if exit == nil {
					continue // for { ... }: left by break/return only
				}
				if !overStringList(h) {
					continue // a scanning loop inside one header line, not the loop over the lines
				}
				// the head's other successor is the head of an enclosing loop: a `continue outer`, not this loop's exit
				enclosing := false
				for _, oh := range loopHeads(f) {
					if oh == exit && loopBody(oh)[h] {
						enclosing = true
					}
				}
				if enclosing {
					continue
				}
				n++
				for b := range body {
					if b == h {
						continue
					}
					for _, s := range b.Succs {
						if s == exit {
							ok, why = false, "the loop at "+c.P.Pos(h.Instrs[len(h.Instrs)-1].Pos())+" in "+shortFn(f)+" is left from inside its body (a break): header lines after the current one are never examined, so an extension named on a later Sec-WebSocket-Extensions line is missed by one side only"
						}
					}
				}
			}
		}
		c.R.Check(rule, shortFn(fn), "header-line-loop-not-left-early", fn.Pos(), ok && n > 0, why)
	}
}
