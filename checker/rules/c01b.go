package rules

import (
	"fmt"
	"go/token"
	"go/types"

	"golang.org/x/tools/go/ssa"

	"wsverif/core"
)

// writeBounds decides the bounds of the write path for every payload size by
// a class-invariant (assume/guarantee) argument over the message writer:
//
//	I:  maxFrameHeaderSize <= w.pos <= len(c.writeBuf)  and  len(c.writeBuf) > maxFrameHeaderSize
//
// for every open message writer w on connection c.
//
//	establish: newConn stores writeBufSize >= 15 and a buffer that is nil,
//	           make(writeBufSize) or a caller's buffer known to be >= 15 bytes;
//	           beginMessage leaves pos == 14 and a buffer that is the old
//	           non-nil one, make(writeBufSize) or a pooled one (assumed to
//	           have this connection's size); writeBuf is stored nowhere else
//	           except endMessage (nil, writer closed);
//	preserve:  every store to messageWriter.pos in the package keeps
//	           14 <= v <= len(writeBuf) given I on entry and after calls;
//	use:       every index/slice/make/conversion site of the writer methods is
//	           in bounds given I (the C07 prover).
//
// Callee effects are summarised and the summaries are themselves checked:
// ncopy returns 0 <= n <= max with pos+n <= len(writeBuf) (and n >= 1 when
// max >= 1: the Write loops make progress); a successful non-final flushFrame
// leaves pos == 14 and keeps the buffer.
func (w *writerA) writeBounds(rule string) {
	c, r := w.c, w.c.R
	hdr := c.P.ConstInt("maxFrameHeaderSize")
	intT := types.Typ[types.Int]
	bufT := w.writeBuf.Type()
	r.Assume("a buffer obtained from WriteBufferPool has the size of this connection's write buffer (documented: one pool per buffer size), in particular more than maxFrameHeaderSize bytes")
	r.Assume("messageWriter methods are called on an open writer (w.err == nil implies beginMessage ran and endMessage did not): the class invariant is assumed for every value of w.pos / c.writeBuf the path did not compute itself")

	st := &c07state{c: c, sites: map[ssa.Instruction]*c07site{}, read: c.fn("(*Conn).read"), rule: rule, floor: 20,
		what: "a write of some size can panic or corrupt the frame under construction"}

	// current buffer / position terms of a writer whose address term is wAddr
	bufOf := func(x *core.Explorer, wBase *core.Term) *core.Term {
		cv := x.LoadNow(x.FieldAddrOf(wBase, w.mwC), w.mwC.Type())
		return x.LoadNow(x.FieldAddrOf(cv, w.writeBuf), bufT)
	}
	assumeI := func(x *core.Explorer, pos, buf *core.Term) {
		x.AssumeGE(x.Len(buf), hdr+1)
		if pos != nil {
			x.AssumeGE(pos, hdr)
			x.AssumeLEq(pos, x.Len(buf))
		}
	}
	freshLoad := func(x *core.Explorer, addr, val *core.Term) {
		if addr.Kind != core.KFieldAddr {
			return
		}
		switch addr.Var {
		case w.mwPos:
			assumeI(x, val, bufOf(x, addr.Args[0]))
		case w.writeBuf:
			assumeI(x, nil, val)
		}
	}
	onStore := func(x *core.Explorer, fn *ssa.Function, in *ssa.Store, addr, val *core.Term) {
		if addr.Kind != core.KFieldAddr || addr.Var != w.mwPos {
			return
		}
		s := st.sites[in]
		if s == nil {
			s = &c07site{fn: fn, in: in, proven: true, kind: "cursor", key: "store messageWriter.pos := " + stableKey(val)}
			st.sites[in] = s
		}
		s.visited++
		buf := bufOf(x, addr.Args[0])
		switch {
		case !x.ProveLeq(x.T.Int(hdr), val):
			s.unproven++
			s.proven = false
			s.failWhy = "the value stored to messageWriter.pos (" + val.String() + ") is not known to be >= maxFrameHeaderSize"
		case !x.ProveLeq(val, x.Len(buf)):
			s.unproven++
			s.proven = false
			s.failWhy = "the value stored to messageWriter.pos (" + val.String() + ") is not known to be <= len(writeBuf): the next copy into writeBuf[w.pos:] or the frame slice writeBuf[framePos:w.pos] is out of range"
		}
	}
	afterCall := func(x *core.Explorer, ev *core.Event) {
		st.libFacts(x, ev)
		if ev.Result == nil {
			return
		}
		// io.Reader contract in cursor shape: r.Read(b[lo:]) returns n with lo+n <= len(b)
		if ev.Static == nil && ev.Method != nil && ev.Method.Name() == "Read" && len(ev.Args) >= 1 {
			d := ev.Args[len(ev.Args)-1]
			// the reader is never handed an empty destination (it could only return 0, nil: the copy loop would spin)
			s := st.sites[ev.Instr]
			if s == nil {
				s = &c07site{fn: ev.Fn, in: ev.Instr, proven: true, kind: "room", key: "reader gets non-empty room " + stableKey(d)}
				st.sites[ev.Instr] = s
			}
			s.visited++
			if !x.ProveLeq(x.T.Int(1), x.Len(d)) && !(d.Kind == core.KSlice && d.Args[2].Kind == core.KNone && d.Args[1].Kind != core.KNone && x.ProveLt(x.StripWiden(d.Args[1]), x.Len(d.Args[0]))) {
				s.unproven++
				s.proven = false
				s.failWhy = "the source reader is handed " + d.String() + ", which is not known to be non-empty (a full buffer is not flushed first): Read may return 0, nil forever and the message is never sent"
			}
			if d.Kind == core.KSlice && d.Args[1].Kind != core.KNone && d.Args[2].Kind == core.KNone {
				n := x.ExtractOf(ev.Result, 0, nil)
				x.AssumeLEq(x.Bin(token.ADD, x.StripWiden(d.Args[1]), n, intT), x.Len(d.Args[0]))
			}
		}
		switch ev.Static {
		case w.begin:
			// summary (checked below, "establishes-invariant"): on success mw.c == c, mw.pos == 14 and c.writeBuf is a
			// buffer of more than maxFrameHeaderSize bytes; callers return at once on failure
			if len(ev.Args) >= 2 {
				x.StoreNow(x.FieldAddrOf(ev.Args[1], w.mwC), ev.Args[0])
				pos := x.LoadNow(x.FieldAddrOf(ev.Args[1], w.mwPos), intT)
				buf := x.LoadNow(x.FieldAddrOf(ev.Args[0], w.writeBuf), bufT)
				assumeI(x, pos, buf)
			}
		case w.ncopy:
			// summary (checked below): 0 <= n <= max, pos' + n <= len(buf'), n >= 1 when max >= 1
			n := x.ExtractOf(ev.Result, 0, nil)
			max := ev.Args[1]
			x.AssumeLEq(n, max)
			if x.ProveLeq(x.T.Int(0), max) {
				x.AssumeGE(n, 0)
			}
			if x.ProveLeq(x.T.Int(1), max) {
				x.AssumeGE(n, 1)
			}
			wBase := ev.Args[0]
			pos := x.LoadNow(x.FieldAddrOf(wBase, w.mwPos), intT)
			x.AssumeLEq(x.Bin(token.ADD, pos, n, intT), x.Len(bufOf(x, wBase)))
		case w.flush:
			// summary (checked below): err == nil and !final  =>  pos' == 14
			if b, isB := ev.Args[1].BoolVal(); isB && !b {
				pos := x.LoadNow(x.FieldAddrOf(ev.Args[0], w.mwPos), intT)
				x.SetNote(ev.Result, pos)
			}
		}
	}
	onFact := func(x *core.Explorer, t *core.Term, pol bool) {
		st.factConsequences(x, t, pol)
		if t.Kind == core.KEq && pol && t.Args[1].IsNil() {
			if pos := x.Note(t.Args[0]); pos != nil {
				x.AssumeGE(pos, hdr)
				x.AssumeLE(pos, hdr)
			}
		}
	}
	opts := func() core.Opts {
		o := st.opts()
		o.AfterCall, o.OnFact, o.OnStore, o.OnFreshLoad = afterCall, onFact, onStore, freshLoad
		return o
	}

	// ---- use + preserve: the writer methods
	for _, fn := range []*ssa.Function{w.mwWrite, w.mwWS, w.mwRF, w.mwClose, w.writeMessage} {
		c.explore(rule, fn, opts(), func(p *core.Path) {})
	}

	// ---- ncopy: sites, and its summary
	{
		ok, why := true, "0 <= n <= max, pos + n <= len(writeBuf), n >= 1 when max >= 1, on every successful return"
		nRet := 0
		c.explore(rule, w.ncopy, opts(), func(p *core.Path) {
			if p.End != core.EndReturn || len(p.Results) != 2 || !p.Results[1].IsNil() {
				return
			}
			nRet++
			x := p.X
			n := p.Results[0]
			max := x.ParamTerm(w.ncopy.Params[1])
			wBase := x.ParamTerm(w.ncopy.Params[0])
			pos := x.LoadNow(x.FieldAddrOf(wBase, w.mwPos), intT)
			buf := bufOf(x, wBase)
			switch {
			case !x.ProveLeq(n, max):
				ok, why = false, "ncopy may grant more than was asked for (path returning at "+c.P.Pos(p.Ret.Pos())+")"
			case !x.ProveLeq(x.Bin(token.ADD, pos, n, intT), x.Len(buf)):
				ok, why = false, "ncopy may grant more than the room left in writeBuf (path returning at "+c.P.Pos(p.Ret.Pos())+"): the caller's copy is truncated while w.pos advances by the full count, or w.pos runs past the buffer"
			}
			// n >= 1 when max >= 1 (progress of the Write loops); n >= 0 when max >= 0
			x.AssumeGE(max, 1)
			if !x.ProveLeq(x.T.Int(1), n) {
				ok, why = false, "ncopy may grant 0 bytes although bytes are pending (path returning at "+c.P.Pos(p.Ret.Pos())+"): the Write loop would spin without progress"
			}
		})
		r.Check(rule, shortFn(w.ncopy), "summary-of-ncopy", w.ncopy.Pos(), ok && nRet > 0, why)
	}

	// ---- flushFrame: sites, and its summary
	{
		ok, why := true, "a successful non-final flush leaves pos == maxFrameHeaderSize and does not release the buffer"
		nRet := 0
		pure := c.pureSet("isControl", "isData")
		o := opts()
		o.Pure = pure
		c.explore(rule, w.flush, o, func(p *core.Path) {
			if p.End != core.EndReturn || len(p.Results) != 1 || !p.Results[0].IsNil() {
				return
			}
			notFinal := hasLit(p, len(p.Lits), false, func(t *core.Term) bool { return t.Kind == core.KParam && t.Ref == w.flush.Params[1] })
			if !notFinal {
				return
			}
			nRet++
			var last *core.Term
			for i := range p.Events {
				ev := &p.Events[i]
				if ev.Kind == core.EvStore && isFieldAddr(ev.Addr, w.mwPos) {
					last = ev.Val
				}
				if callsStatic(ev, w.end) {
					ok, why = false, "a successful non-final flush ends the message (buffer released while the writer stays open)"
				}
			}
			if v, isC := func() (int64, bool) {
				if last == nil {
					return 0, false
				}
				return last.Int64()
			}(); !isC || v != hdr {
				ok, why = false, "a successful non-final flush does not reset w.pos to maxFrameHeaderSize (path returning at "+c.P.Pos(p.Ret.Pos())+")"
			}
		})
		r.Check(rule, shortFn(w.flush), "summary-of-flushFrame", w.flush.Pos(), ok && nRet > 0, why)
	}
	// ---- the tail-withholding writer of the compression path: 0 <= tw.n <= len(tw.p) (4), same scheme
	{
		twW := c.fn("(*truncWriter).Write")
		twN, twP := c.P.Field("truncWriter", "n"), c.P.Field("truncWriter", "p")
		capN := int64(4)
		if at, isArr := twP.Type().Underlying().(*types.Array); isArr {
			capN = at.Len()
		}
		o := st.opts()
		o.OnFreshLoad = func(x *core.Explorer, addr, val *core.Term) {
			if addr.Kind == core.KFieldAddr && addr.Var == twN {
				x.AssumeGE(val, 0)
				x.AssumeLE(val, capN)
			}
		}
		o.OnStore = func(x *core.Explorer, fn *ssa.Function, in *ssa.Store, addr, val *core.Term) {
			if addr.Kind != core.KFieldAddr || addr.Var != twN {
				return
			}
			s := st.sites[in]
			if s == nil {
				s = &c07site{fn: fn, in: in, proven: true, kind: "cursor", key: "store truncWriter.n := " + stableKey(val)}
				st.sites[in] = s
			}
			s.visited++
			if !x.ProveLeq(x.T.Int(0), val) || !x.ProveLeq(val, x.T.Int(capN)) {
				s.unproven++
				s.proven = false
				s.failWhy = "the value stored to truncWriter.n (" + val.String() + ") is not known to stay within 0.." + fmt.Sprint(capN) + ": the next w.p[w.n:] is out of range"
			}
		}
		c.explore(rule, twW, o, func(p *core.Path) {})
		for _, s := range c.P.FieldStoreSites(twN) {
			f := s.Parent()
			r.Check(rule, shortFn(f), "writer-of-truncWriter.n", s.Pos(), f == twW || c.privateHelperOf(f, twW), "truncWriter.n is stored outside truncWriter.Write (the store is not covered by the invariant proof)")
		}
	}
	st.report()

	// ---- establish
	// (1) newConn: writeBufSize >= 15; writeBuf is the parameter or make(writeBufSize)
	{
		nc := c.fn("newConn")
		wbs := c.P.Field("Conn", "writeBufSize")
		ok, why := true, fmt.Sprintf("writeBufSize >= %d; writeBuf is nil, the caller's buffer or make([]byte, writeBufSize)", hdr+1)
		n := 0
		o := core.Opts{AfterCall: st.libFacts, OnFact: st.factConsequences}
		o.OnStore = func(x *core.Explorer, fn *ssa.Function, in *ssa.Store, addr, val *core.Term) {
			if fn != nc || addr.Kind != core.KFieldAddr {
				return
			}
			switch addr.Var {
			case wbs:
				n++
				if lo, has := x.Lower(val); !has || lo < hdr+1 {
					ok, why = false, "newConn stores a writeBufSize that is not known to exceed maxFrameHeaderSize (no room for payload: ncopy would grant 0 bytes forever)"
				}
			case w.writeBuf:
				n++
				v := strip(val)
				switch {
				case v.IsNil(), v.Kind == core.KParam:
				case v.Kind == core.KMake && len(v.Args) > 0:
					if lo, has := x.Lower(v.Args[0]); !has || lo < hdr+1 {
						ok, why = false, "newConn allocates a write buffer not known to exceed maxFrameHeaderSize"
					}
				default:
					ok, why = false, "newConn stores an unrecognised write buffer "+val.String()
				}
			}
		}
		c.explore(rule, nc, o, func(p *core.Path) {})
		r.Check(rule, shortFn(nc), "establishes-buffer-size", nc.Pos(), ok && n >= 2, why)
		// callers pass nil or a buffer known to be large enough
		okC, whyC := true, "every caller of newConn passes nil or a buffer known to exceed maxFrameHeaderSize"
		nCalls := 0
		for _, g := range c.P.FuncList {
			calls := false
			for _, b := range g.Blocks {
				for _, in := range b.Instrs {
					if ci, isC := in.(ssa.CallInstruction); isC && ci.Common().StaticCallee() == nc {
						calls = true
					}
				}
			}
			if !calls {
				continue
			}
			var site ssa.Instruction
			for _, b := range g.Blocks {
				for _, in := range b.Instrs {
					if ci, isC := in.(ssa.CallInstruction); isC && ci.Common().StaticCallee() == nc {
						site = in
					}
				}
			}
			o2 := core.Opts{AfterCall: st.libFacts, OnFact: st.factConsequences, NonNilOnNilErr: true, MaxPaths: 400000}
			// only the part of the caller after its last network acquisition matters; explore from the
			// buffer-size decision: regions keep DialContext/Upgrade tractable
			o2.Observe = func(x *core.Explorer, ev *core.Event) {
				if ev.Instr != site || len(ev.Args) != 7 {
					return
				}
				nCalls++
				wb := ev.Args[6]
				if wb.IsNil() {
					return
				}
				if lo, has := x.Lower(x.Len(wb)); !has || lo < hdr+1 {
					okC, whyC = false, shortFn(g)+" passes newConn a write buffer ("+wb.String()+") not known to exceed maxFrameHeaderSize"
				}
			}
			o2.Stop = func(x *core.Explorer, ev *core.Event) bool { return ev.Instr == site }
			if starts := c.acquireSites(g); shortFn(g) == "(*Dialer).DialContext" && len(starts) == 1 {
				o2.Start = starts[0]
			}
			c.explore(rule, g, o2, func(p *core.Path) {})
		}
		r.Check(rule, "newConn", "callers-pass-large-enough-buffer", nc.Pos(), okC && nCalls > 0, whyC)
	}
	// (2) beginMessage
	{
		ok, why := true, "on success pos == maxFrameHeaderSize and writeBuf is the previous non-nil buffer, a pooled buffer or make([]byte, writeBufSize)"
		n := 0
		wbs := c.P.Field("Conn", "writeBufSize")
		c.explore(rule, w.begin, core.Opts{RecordLoads: true}, func(p *core.Path) {
			if p.End != core.EndReturn || len(p.Results) != 1 || !p.Results[0].IsNil() {
				return
			}
			n++
			var pos, buf *core.Term
			for i := range p.Events {
				ev := &p.Events[i]
				if ev.Kind == core.EvStore && isFieldAddr(ev.Addr, w.mwPos) {
					pos = ev.Val
				}
				if ev.Kind == core.EvStore && isFieldAddr(ev.Addr, w.mwC) && !(ev.Val.Kind == core.KParam && ev.Val.Ref == w.begin.Params[0]) {
					ok, why = false, "beginMessage does not bind the writer to the connection it was called on"
				}
				if ev.Kind == core.EvStore && isFieldAddr(ev.Addr, w.writeBuf) {
					buf = ev.Val
				}
			}
			if v, isC := func() (int64, bool) {
				if pos == nil {
					return 0, false
				}
				return pos.Int64()
			}(); !isC || v != hdr {
				ok, why = false, "beginMessage does not start the cursor at maxFrameHeaderSize"
			}
			if buf == nil {
				// kept: the path must know the old buffer to be non-nil
				kept := hasLit(p, len(p.Lits), false, func(t *core.Term) bool {
					return isEqNil(t, func(y *core.Term) bool { _, is := fieldLoad(y, w.writeBuf); return is })
				})
				if !kept {
					ok, why = false, "beginMessage can succeed with a nil write buffer"
				}
				return
			}
			b := strip(buf)
			switch {
			case b.Kind == core.KMake && len(b.Args) > 0:
				if _, is := fieldLoad(strip(b.Args[0]), wbs); !is {
					ok, why = false, "beginMessage allocates a write buffer whose size is not Conn.writeBufSize"
				}
			case b.Kind == core.KField || b.Kind == core.KExtract || b.Kind == core.KLoad || b.Kind == core.KCall:
				// wpd.buf of the value taken from the pool (assumption above)
			default:
				ok, why = false, "beginMessage installs an unrecognised write buffer "+buf.String()
			}
		})
		r.Check(rule, shortFn(w.begin), "establishes-invariant", w.begin.Pos(), ok && n > 0, why)
	}
	// (3) who may store writeBuf / pos
	allowedBuf := map[*ssa.Function]bool{w.begin: true, w.end: true, c.fn("newConn"): true}
	if f := c.P.FuncOpt("(*PreparedMessage).frame$1"); f != nil {
		allowedBuf[f] = true
	}
	for _, s := range c.P.FieldStoreSites(w.writeBuf) {
		f := s.Parent()
		okW := allowedBuf[f] || c.privateHelperOf(f, w.begin) || c.privateHelperOf(f, w.end)
		if !okW {
			// a constructor of a private Conn: the store initialises a Conn allocated in the same function with nil or
			// a fresh buffer of constant size > maxFrameHeaderSize
			if fa, isFA := s.Addr.(*ssa.FieldAddr); isFA {
				if _, isNew := fa.X.(*ssa.Alloc); isNew {
					switch v := s.Val.(type) {
					case *ssa.Const:
						okW = v.Value == nil
					case *ssa.MakeSlice:
						if k, isK := v.Len.(*ssa.Const); isK && k.Value != nil && k.Int64() > hdr {
							okW = true
						}
					case *ssa.Slice:
						// make([]byte, K) with constant K: new [K]byte sliced whole
						if al, isAl := v.X.(*ssa.Alloc); isAl && v.Low == nil {
							if at, isArr := al.Type().Underlying().(*types.Pointer).Elem().Underlying().(*types.Array); isArr && at.Len() > hdr {
								if v.High == nil {
									okW = true
								} else if k, isK := v.High.(*ssa.Const); isK && k.Value != nil && k.Int64() > hdr {
									okW = true
								}
							}
						}
					}
				}
			}
		}
		r.Check(rule, shortFn(f), "writer-of-writeBuf", s.Pos(), okW, "Conn.writeBuf may be replaced only by newConn, beginMessage and endMessage, or initialised with a large enough fresh buffer by a constructor of a private Conn (the invariant is established there)")
	}
	analysed := map[*ssa.Function]bool{w.mwWrite: true, w.mwWS: true, w.mwRF: true, w.mwClose: true, w.writeMessage: true, w.ncopy: true, w.flush: true, w.begin: true}
	for _, s := range c.P.FieldStoreSites(w.mwPos) {
		f := s.Parent()
		inl := false
		for g := range analysed {
			if c.privateHelperOf(f, g) {
				inl = true
			}
		}
		if hs := c.hostsOf(f); !(len(hs) == 1 && hs[0] == f) {
			all := true
			for _, h := range hs {
				if !analysed[h] {
					all = false
				}
			}
			inl = inl || all // extracted helper explored (inlined) inside analysed methods only
		}
		r.Check(rule, shortFn(f), "writer-of-pos", s.Pos(), analysed[f] || inl, "messageWriter.pos is stored by a function outside the analysed writer methods (the store is not covered by the invariant proof)")
	}
}
