package rules

import (
	"go/types"
	"golang.org/x/tools/go/ssa"

	"wsverif/core"
)

func init() {
	register("C19", "Decides that a prepared message is rendered by the same code as WriteMessage under a key that captures every connection property influencing the bytes: the key's compress flag is computed from the same three conditions NextWriter uses, role and level are the live fields, every Conn field read on the rendering path is determined by the key or is a fixed private value, the private Conn is configured from every key field, the payload is the prepared message's own copy, frames are cached under the mutex and filled exactly once before being read, and the cached frame is written through the ordinary locked write path. Decoded equality is not decided.", c19)
}

func c19(c *Ctx) {
	r := c.R
	r.Rule("C19.key-agrees", "WritePreparedMessage: prepareKey.compress is true exactly under [newCompressionWriter != nil && enableWriteCompression && isData(pm.messageType)] (the condition under which NextWriter compresses), isServer and compressionLevel are loads of the live Conn fields")
	r.Rule("C19.key-complete", "every Conn field read on the call-graph cone of WriteMessage is either set from the key by frame() or in the reviewed list of fields that cannot influence the bytes; frame() configures isServer, compressionLevel, newCompressionWriter (iff key.compress) and enableWriteCompression = true, and renders with WriteMessage(pm.messageType, pm.data)")
	r.Rule("C19.payload-copy", "NewPreparedMessage renders once with {isServer: true, compress: false} and re-points pm.data at a suffix of that rendered frame (not the caller's slice); prepareConn.Write copies what it is given into its own buffer")
	r.Rule("C19.single-frame", "the {server, uncompressed} rendering NewPreparedMessage snapshots the payload from is a single frame: every WriteMessage path that knows isServer and newCompressionWriter == nil emits exactly one final frame and never streams through NextWriter")
	preparedSingleFrame(c, "C19.single-frame")
	r.Rule("C19.cache", "PreparedMessage.frames is accessed only between pm.mu.Lock and Unlock; frame.data is assigned only inside the once.Do closure and returned only after once.Do on that frame")
	r.Rule("C19.one-frame-per-write", "every call of Conn.write passes the frame type of the bytes it writes, so a prepared close message is recorded as sent whichever API wrote it (same rule as C09.opcode-agrees)")
	c.borrow(c09, map[string]string{"C09.opcode-agrees": "C19.one-frame-per-write", "C09.protocol": "C19.one-frame-per-write"})
	r.Rule("C19.write-path", "WritePreparedMessage writes the cached bytes through Conn.write (lock, sticky-error re-check, close-sent recording: C09 rules on write) with the frame type frame() returned, inside the isWriting bracket, and returns its error")
	r.Table("Conn fields read while rendering that cannot influence the bytes: writeBuf (fixed size in frame()), mu, conn (private), writePool (nil), writeDeadline, writeErr, isWriting, writer, writeBufSize")

	wpm := c.fn("(*Conn).WritePreparedMessage")
	frame := c.fn("(*PreparedMessage).frame")
	frame1 := c.fn("(*PreparedMessage).frame$1")
	npm := c.fn("NewPreparedMessage")
	wm := c.fn("(*Conn).WriteMessage")
	wr := c.fn("(*Conn).write")
	isData := c.fn("isData")
	ncw, ewc := c.P.Field("Conn", "newCompressionWriter"), c.P.Field("Conn", "enableWriteCompression")
	isSrv, lvl := c.P.Field("Conn", "isServer"), c.P.Field("Conn", "compressionLevel")
	kSrv, kCmp, kLvl := c.P.Field("prepareKey", "isServer"), c.P.Field("prepareKey", "compress"), c.P.Field("prepareKey", "compressionLevel")
	pmType, pmData, pmFrames, pmMu := c.P.Field("PreparedMessage", "messageType"), c.P.Field("PreparedMessage", "data"), c.P.Field("PreparedMessage", "frames"), c.P.Field("PreparedMessage", "mu")
	pfData := c.P.Field("preparedFrame", "data")
	pure := c.pureSet("isControl", "isData")

	// ---- key-agrees
	{
		ok, why := true, "compress == (negotiated && enabled && data); role and level are the live fields"
		n := 0
		vals := map[bool]int{}
		c.explore("C19.key-agrees", wpm, core.Opts{Pure: pure}, func(p *core.Path) {
			for i := range p.Events {
				ev := &p.Events[i]
				if !callsStatic(ev, frame) || len(ev.Args) != 2 {
					continue
				}
				n++
				key := ev.Args[1]
				fieldVal := func(f *types.Var) *core.Term {
					if key.Kind == core.KSliceLit {
						st := key.Type.Underlying().(*types.Struct)
						for k := 0; k < st.NumFields(); k++ {
							if st.Field(k) == f && k < len(key.Args) {
								return key.Args[k]
							}
						}
					}
					return nil
				}
				vs, vc, vl := fieldVal(kSrv), fieldVal(kCmp), fieldVal(kLvl)
				if vs == nil || vc == nil || vl == nil {
					ok, why = false, "cannot see the prepareKey passed to frame()"
					continue
				}
				if _, is := fieldLoad(vs, isSrv); !is {
					ok, why = false, "prepareKey.isServer is not the connection's role"
				}
				if _, is := fieldLoad(vl, lvl); !is {
					ok, why = false, "prepareKey.compressionLevel is not the connection's current level"
				}
				b, isB := vc.BoolVal()
				if !isB {
					// last conjunct: compress == isData(pm.messageType) on a path that already knows the first two
					isLast := vc.Kind == core.KApp && vc.Ref == interface{}(isData)
					if isLast {
						_, isLast = fieldLoad(vc.Args[0], pmType)
					}
					g1 := hasLit(p, ev.NLits, false, func(t *core.Term) bool {
						return isEqNil(t, func(y *core.Term) bool { _, is := fieldLoad(y, ncw); return is })
					})
					g2 := hasLit(p, ev.NLits, true, func(t *core.Term) bool { _, is := fieldLoad(t, ewc); return is })
					if isLast && g1 && g2 {
						vals[true]++
						continue
					}
					ok, why = false, "prepareKey.compress is not (negotiated && enabled && isData(pm.messageType)) on the path"
					continue
				}
				vals[b]++
				g1 := hasLit(p, ev.NLits, false, func(t *core.Term) bool {
					return isEqNil(t, func(y *core.Term) bool { _, is := fieldLoad(y, ncw); return is })
				})
				g2 := hasLit(p, ev.NLits, true, func(t *core.Term) bool { _, is := fieldLoad(t, ewc); return is })
				g3 := hasLit(p, ev.NLits, true, func(t *core.Term) bool {
					if t.Kind != core.KApp || t.Ref != interface{}(isData) {
						return false
					}
					_, is := fieldLoad(t.Args[0], pmType)
					return is
				})
				if b != (g1 && g2 && g3) {
					ok, why = false, "prepareKey.compress is "+yn(b)+" on a path where (negotiated="+yn(g1)+", enabled="+yn(g2)+", data message="+yn(g3)+"): a different variant than WriteMessage would produce is sent"
				}
			}
		})
		r.Check("C19.key-agrees", shortFn(wpm), "compress-flag-equals-NextWriter-condition", wpm.Pos(), ok && n > 0 && vals[true] > 0 && vals[false] > 0, why)
	}

	// ---- key-complete
	{
		determined := map[*types.Var]bool{isSrv: true, ncw: true, ewc: true, lvl: true}
		neutral := map[string]bool{"writeBuf": true, "mu": true, "conn": true, "writePool": true, "writeDeadline": true, "writeErr": true, "writeErrMu": true, "isWriting": true, "writer": true, "writeBufSize": true}
		m := c.P.Mod(wm)
		ok, why := true, "all Conn fields read while rendering are key-determined or neutral"
		connT := c.P.Named("Conn")
		st := connT.Underlying().(*types.Struct)
		nRead := 0
		for i := 0; i < st.NumFields(); i++ {
			f := st.Field(i)
			if !m.Reads[f] {
				continue
			}
			nRead++
			if !determined[f] && !neutral[c.P.OldFieldName(f)] && sinkOnlyField(c, f, wm) {
				continue // a counter: written with Add/Store on the rendering path, its value never read there
			}
			if !determined[f] && !neutral[c.P.OldFieldName(f)] {
				ok, why = false, "Conn."+f.Name()+" is read on the rendering path of WriteMessage but is neither part of prepareKey nor in the reviewed neutral list: a cached frame would not reflect it"
			}
		}
		r.Check("C19.key-complete", shortFn(wm), "conn-fields-read-are-covered", wm.Pos(), ok && nRead >= 6, why)
		// frame$1 configures the private Conn from every key field
		ok2, why2 := true, "private Conn: isServer := key.isServer, compressionLevel := key.compressionLevel, newCompressionWriter iff key.compress, enableWriteCompression := true; rendered by WriteMessage(pm.messageType, pm.data)"
		n := 0
		c.explore("C19.key-complete", frame1, core.Opts{}, func(p *core.Path) {
			if p.End != core.EndReturn {
				return
			}
			n++
			got := map[*types.Var]*core.Term{}
			var conn *core.Term
			for i := range p.Events {
				ev := &p.Events[i]
				if ev.Kind == core.EvStore && ev.Addr.Kind == core.KFieldAddr && ev.Addr.Args[0].Kind == core.KAlloc {
					got[ev.Addr.Var] = ev.Val
					if ev.Addr.Var == isSrv {
						conn = ev.Addr.Args[0]
					}
				}
			}
			// nothing the private Conn writes through may be shared between renderings: two keys of one
			// PreparedMessage are rendered concurrently (the per-key sync.Once serialises only equal keys)
			for f, v := range got {
				switch f.Type().Underlying().(type) {
				case *types.Slice, *types.Pointer, *types.Map, *types.Chan, *types.Interface:
					// (the interface case is the scratch net.Conn the frame bytes are collected in: taken from a pool
					// or a field, its buffer would be overwritten by a later rendering while frame.data refers to it)
					root := strip(v)
					for root.Kind == core.KSlice {
						root = strip(root.Args[0])
					}
					fresh := root.Kind == core.KMake || root.Kind == core.KAlloc || root.IsNil()
					if root.Kind == core.KOpaque {
						switch root.Ref.(type) {
						case *ssa.MakeChan, *ssa.MakeMap, *ssa.MakeSlice:
							fresh = true
						}
					}
					if !fresh {
						ok2, why2 = false, "the rendering Conn's "+f.Name()+" is "+v.String()+", memory that outlives this rendering: renderings of different keys run concurrently and would build their frames in the same buffer"
					}
				}
			}
			keyField := func(t *core.Term, f *types.Var) bool {
				return t != nil && ((t.Kind == core.KLoad && t.Args[0].Kind == core.KFieldAddr && t.Args[0].Var == f) || (t.Kind == core.KField && t.Var == f))
			}
			if !keyField(got[isSrv], kSrv) {
				ok2, why2 = false, "the rendering Conn's role is not taken from the key"
			}
			if !keyField(got[lvl], kLvl) {
				ok2, why2 = false, "the rendering Conn's compression level is not taken from the key"
			}
			if b, isB := got[ewc].BoolVal(); got[ewc] == nil || !isB || !b {
				ok2, why2 = false, "the rendering Conn does not have write compression enabled"
			}
			cmpT := hasLit(p, len(p.Lits), true, func(t *core.Term) bool { return keyField(t, kCmp) })
			cmpF := hasLit(p, len(p.Lits), false, func(t *core.Term) bool { return keyField(t, kCmp) })
			if cmpT == cmpF || (got[ncw] != nil) != cmpT {
				ok2, why2 = false, "the rendering Conn compresses iff key.compress: violated"
			}
			rendered := false
			for i := range p.Events {
				ev := &p.Events[i]
				if callsStatic(ev, wm) && len(ev.Args) == 3 {
					_, t1 := fieldLoad(ev.Args[1], pmType)
					_, t2 := fieldLoad(ev.Args[2], pmData)
					rendered = t1 && t2 && strip(ev.Args[0]) == conn
				}
			}
			if !rendered {
				ok2, why2 = false, "the frame is not rendered by WriteMessage(pm.messageType, pm.data) on the private Conn"
			}
		})
		r.Check("C19.key-complete", shortFn(frame1), "private-conn-configured-from-key", frame1.Pos(), ok2 && n >= 2, why2)
	}

	// ---- payload-copy
	{
		ok, why := true, "pm.data is re-pointed at the tail of the first rendered frame"
		n := 0
		c.explore("C19.payload-copy", npm, core.Opts{NonNilOnNilErr: true}, func(p *core.Path) {
			if p.End != core.EndReturn || len(p.Results) != 2 || !p.Results[1].IsNil() {
				return
			}
			n++
			var fr *core.Event
			var last *core.Term
			for i := range p.Events {
				ev := &p.Events[i]
				if callsStatic(ev, frame) {
					fr = ev
				}
				if ev.Kind == core.EvStore && isFieldAddr(ev.Addr, pmData) {
					last = ev.Val
				}
			}
			if fr == nil || last == nil {
				ok, why = false, "NewPreparedMessage does not render a frame / set pm.data"
				return
			}
			if isFreshCopyOf(p, last, npm.Params[1]) {
				return // an independent copy taken directly from the caller's slice
			}
			fd := p.X.ExtractOf(fr.Result, 1, nil)
			if !(last.Kind == core.KSlice && last.Args[0] == fd) {
				ok, why = false, "pm.data still aliases the caller's slice after NewPreparedMessage (later modification by the caller changes what is sent)"
				return
			}
			dataP := npm.Params[1]
			want := p.X.Bin(subTok, p.X.Len(fd), p.X.Len(p.X.ParamTerm(dataP)), types.Typ[types.Int])
			if last.Args[1] != want || last.Args[2].Kind != core.KNone {
				ok, why = false, "pm.data is not the last len(data) bytes of the rendered server frame"
			}
			// the first render uses the plain server key
			key := fr.Args[1]
			if key.Kind == core.KSliceLit {
				st := key.Type.Underlying().(*types.Struct)
				for k := 0; k < st.NumFields() && k < len(key.Args); k++ {
					b, isB := key.Args[k].BoolVal()
					if st.Field(k) == kSrv && !(isB && b) {
						ok, why = false, "the initial render is not a server frame (payload would be masked)"
					}
					if st.Field(k) == kCmp && !(isB && !b) {
						ok, why = false, "the initial render is compressed (tail is not the payload)"
					}
				}
			} else if !key.IsNil() {
				ok, why = false, "cannot see the key of the initial render"
			}
		})
		r.Check("C19.payload-copy", shortFn(npm), "own-copy-of-payload", npm.Pos(), ok && n > 0, why)
		// prepareConn.Write copies
		pw := c.fn("(*prepareConn).Write")
		ok2, why2 := true, "prepareConn.Write returns buf.Write(p) of its own bytes.Buffer"
		n2 := 0
		c.explore("C19.payload-copy", pw, core.Opts{}, func(p *core.Path) {
			if p.End != core.EndReturn || len(p.Results) != 2 {
				return
			}
			n2++
			var bw *core.Event
			for i := range p.Events {
				ev := &p.Events[i]
				if ev.Kind == core.EvCall && ev.Static != nil && extName(ev.Static) == "(*bytes.Buffer).Write" {
					bw = ev
				}
				if ev.Kind == core.EvStore && ev.Addr.Kind == core.KFieldAddr {
					ok2, why2 = false, "prepareConn.Write keeps a reference to the slice it is given (the rendering Conn reuses that buffer for the next frame)"
				}
			}
			if bw == nil || !(bw.Args[1].Kind == core.KParam) || p.Results[0] != p.X.ExtractOf(bw.Result, 0, nil) {
				ok2, why2 = false, "prepareConn.Write does not copy the bytes into its bytes.Buffer"
			}
		})
		r.Check("C19.payload-copy", shortFn(pw), "rendered-bytes-copied", pw.Pos(), ok2 && n2 > 0, why2)
	}

	// ---- cache
	{
		ok, why := true, "map accessed under pm.mu; frame.data returned only after once.Do(frame)"
		n := 0
		c.explore("C19.cache", frame, core.Opts{RecordLoads: true}, func(p *core.Path) {
			if p.End != core.EndReturn || len(p.Results) != 3 {
				return
			}
			n++
			locked := false
			var onceOn *core.Term
			var entry *core.Term
			for i := range p.Events {
				ev := &p.Events[i]
				if callsExt(ev, "(*sync.Mutex).Lock") && isFieldAddr(ev.Args[0], pmMu) {
					locked = true
				}
				if callsExt(ev, "(*sync.Mutex).Unlock") && isFieldAddr(ev.Args[0], pmMu) {
					locked = false
				}
				if ev.Kind == core.EvMapUpdate {
					if _, is := fieldLoad(ev.Addr, pmFrames); is {
						entry = ev.Val
						if !locked {
							ok, why = false, "PreparedMessage.frames is written outside pm.mu"
						}
					}
				}
				if ev.Kind == core.EvLoad && isFieldAddr(ev.Addr, pmFrames) && !locked {
					ok, why = false, "PreparedMessage.frames is read outside pm.mu"
				}
				if ev.Kind == core.EvCall && ev.Static != nil && extName(ev.Static) == "(*sync.Once).Do" {
					a := ev.Args[0]
					if a.Kind == core.KFieldAddr {
						onceOn = a.Args[0]
					}
					if locked {
						ok, why = false, "the frame is rendered while pm.mu is held"
					}
				}
			}
			_ = entry
			// returned data is frame.data of the frame once.Do ran on
			res := p.Results[1]
			if res.Kind == core.KLoad && res.Args[0].Kind == core.KFieldAddr && res.Args[0].Var == pfData {
				if onceOn == nil || res.Args[0].Args[0] != onceOn {
					ok, why = false, "cached frame bytes are returned at "+c.P.Pos(p.Ret.Pos())+" without once.Do on that frame having completed (a concurrent first use would send an empty frame)"
				}
			} else if !res.IsNil() {
				ok, why = false, "frame() returns bytes that are not the cached frame's data"
			}
			if _, is := fieldLoad(p.Results[0], pmType); !is {
				ok, why = false, "frame() does not return pm.messageType"
			}
		})
		r.Check("C19.cache", shortFn(frame), "mutex-and-once", frame.Pos(), ok && n >= 2, why)
		// the cached bytes are immutable once rendered: a load of preparedFrame.data is only returned, sliced or
		// measured; what frame() returns is only sliced, measured or handed to Conn.write
		{
			okI, whyI := true, "cached frame bytes are only returned, sliced, measured or passed to Conn.write"
			nUse := 0
			var benign func(v ssa.Value, fromCall bool, depth int) (bool, ssa.Instruction)
			benign = func(v ssa.Value, fromCall bool, depth int) (bool, ssa.Instruction) {
				if depth > 4 {
					return false, nil
				}
				for _, ref := range *v.Referrers() {
					switch u := ref.(type) {
					case *ssa.Return, *ssa.DebugRef:
					case *ssa.Slice:
						if u.X != v {
							return false, u
						}
						if ok, at := benign(u, fromCall, depth+1); !ok {
							return false, at
						}
					case *ssa.Phi:
						if ok, at := benign(u, fromCall, depth+1); !ok {
							return false, at
						}
					case *ssa.Store:
						// storing the slice value itself somewhere (pm.data = frameData[k:]) keeps the bytes untouched; storing through it does not occur here (that needs an IndexAddr)
						if u.Val != v {
							return false, u
						}
					case *ssa.BinOp: // comparison with nil
					case ssa.CallInstruction:
						cc := u.Common()
						if bi, isB := cc.Value.(*ssa.Builtin); isB && (bi.Name() == "len" || bi.Name() == "cap") {
							continue
						}
						// the transport's Write / a vectored write: io.Writer must not modify the slice
						if cc.IsInvoke() && (cc.Method.Name() == "Write") {
							continue
						}
						if f := cc.StaticCallee(); f != nil && (extName(f) == "(*net.Buffers).WriteTo") {
							continue
						}
						// a helper of the package (Conn.write included): what it does with the parameter is judged the same way
						if f := cc.StaticCallee(); f != nil && c.P.InPkg(f) && f.Blocks != nil {
							args := cc.Args
							good := true
							for k, a := range args {
								if a == v && k < len(f.Params) {
									if okP, _ := benign(f.Params[k], fromCall, depth+1); !okP {
										good = false
									}
								}
							}
							if good {
								continue
							}
						}
						return false, u
					default:
						return false, u
					}
				}
				return true, nil
			}
			for _, fn := range c.P.FuncList {
				for _, b := range fn.Blocks {
					for _, in := range b.Instrs {
						switch v := in.(type) {
						case *ssa.UnOp:
							if fa, isFA := v.X.(*ssa.FieldAddr); isFA && fieldOf(fa) == pfData {
								nUse++
								if okB, at := benign(v, false, 0); !okB {
									okI, whyI = false, "the cached frame bytes (preparedFrame.data) loaded in "+shortFn(fn)+" are used at "+c.P.Pos(at.Pos())+" in a way that may modify or expose them: connections write these bytes concurrently without a lock, they must not change after once.Do"
								}
							}
						case *ssa.Extract:
							if call, isCall := v.Tuple.(*ssa.Call); isCall && call.Call.StaticCallee() == frame && v.Index == 1 {
								nUse++
								if okB, at := benign(v, true, 0); !okB {
									okI, whyI = false, "the frame bytes returned by frame() are used in "+shortFn(fn)+" at "+c.P.Pos(at.Pos())+" in a way that may modify them"
								}
							}
						}
					}
				}
			}
			r.Check("C19.cache", shortFn(frame), "cached-bytes-immutable", frame.Pos(), okI && nUse >= 2, whyI)
		}
		// writers of preparedFrame.data
		for _, st := range c.P.FieldStoreSites(pfData) {
			// a helper the closure calls (and nothing else does) writes on its behalf
			inOnce := true
			hosts := c.hostsOf(st.Parent())
			for _, h := range hosts {
				if h != frame1 {
					inOnce = false
				}
			}
			r.Check("C19.cache", shortFn(st.Parent()), "writer-of-preparedFrame.data", st.Pos(), inOnce && len(hosts) > 0, "preparedFrame.data may be assigned only inside the once.Do closure")
		}
	}

	// ---- write-path
	{
		ok, why := true, "cached bytes written by Conn.write(frameType from frame(), writeDeadline, data, nil) inside the isWriting bracket"
		n := 0
		c.explore("C19.write-path", wpm, core.Opts{Pure: pure}, func(p *core.Path) {
			for i := range p.Events {
				ev := &p.Events[i]
				if !callsStatic(ev, wr) || len(ev.Args) != 5 {
					continue
				}
				n++
				ft, data := ev.Args[1], ev.Args[3]
				if !(ft.Kind == core.KExtract && ft.N == 0 && data.Kind == core.KExtract && data.N == 1 && len(ft.Args) > 0 && len(data.Args) > 0 && ft.Args[0] == data.Args[0] && ft.Args[0].Kind == core.KCall && ft.Args[0].Ref == interface{}(frame)) {
					ok, why = false, "the bytes written are not the (type, data) pair returned by frame(): a frame written with another type escapes the close-sent latch of Conn.write"
					continue
				}
				if !ev.Args[4].IsNil() {
					ok, why = false, "extra data is written with a prepared frame"
				}
				e := errOf(p.X, ft.Args[0])
				if !hasLit(p, ev.NLits, true, func(t *core.Term) bool { return isEqNil(t, is(e)) }) {
					ok, why = false, "the frame is written although rendering it may have failed"
				}
			}
		})
		r.Check("C19.write-path", shortFn(wpm), "writes-cached-frame-through-write", wpm.Pos(), ok && n > 0, why)
		all := func(ev *core.Event) bool { return true }
		c.errMustPropagate("C19.write-path", wpm, all, core.Opts{Pure: pure})
		t := newTransport(c)
		t.classify("C19.write-path")
		t.checkSection(wr, "C19.write-path", "C19.write-path")
	}
}

// preparedSingleFrame: NewPreparedMessage takes the payload snapshot as the
// last len(data) bytes of the {server, uncompressed} rendering, which is only
// the payload if that rendering is one frame.  Every path of WriteMessage that
// knows the connection to be a server without a compression writer therefore
// has to emit the message as a single final frame (no NextWriter streaming).
func preparedSingleFrame(c *Ctx, rule string) {
	wm := c.fn("(*Conn).WriteMessage")
	if !pmSnapshotIsTail(c, rule) {
		c.R.Pass(rule, shortFn(wm), "server-uncompressed-is-one-frame", wm.Pos(), "NewPreparedMessage keeps an independent copy of the payload; the shape of the rendering does not matter")
		return
	}
	flush := c.fn("(*messageWriter).flushFrame")
	nw := c.fn("(*Conn).NextWriter")
	isSrv, ncw := c.P.Field("Conn", "isServer"), c.P.Field("Conn", "newCompressionWriter")
	ok, why := true, "an uncompressed server message is rendered as exactly one final frame, whatever its size (the payload snapshot of NewPreparedMessage is the tail of that frame)"
	n := 0
	c.explore(rule, wm, core.Opts{RecordLoads: true}, func(p *core.Path) {
		if p.End != core.EndReturn {
			return
		}
		srv := hasLit(p, len(p.Lits), true, func(t *core.Term) bool { _, is := fieldLoad(t, isSrv); return is })
		noCW := hasLit(p, len(p.Lits), true, func(t *core.Term) bool {
			return isEqNil(t, func(y *core.Term) bool { _, is := fieldLoad(y, ncw); return is })
		})
		if !srv || !noCW {
			return
		}
		n++
		flushes := 0
		for i := range p.Events {
			ev := &p.Events[i]
			if callsStatic(ev, nw) {
				ok, why = false, "a path for an uncompressed server message (returning at "+c.P.Pos(p.Ret.Pos())+") streams through NextWriter: the message may be split into several frames, and NewPreparedMessage's payload snapshot (tail of the rendered bytes) would contain frame headers"
			}
			for _, name := range []string{"(*messageWriter).Write", "(*messageWriter).WriteString", "(*messageWriter).ReadFrom"} {
				if callsStatic(ev, c.fn(name)) {
					ok, why = false, "a path for an uncompressed server message (returning at "+c.P.Pos(p.Ret.Pos())+") feeds the payload through "+name+", which flushes a frame whenever the write buffer fills: payloads larger than the buffer are split into several frames, and NewPreparedMessage's payload snapshot (tail of the rendered bytes) would contain frame headers"
				}
			}
			if callsStatic(ev, flush) && len(ev.Args) == 3 {
				flushes++
				if b, isB := ev.Args[1].BoolVal(); !isB || !b {
					ok, why = false, "an uncompressed server message is flushed as a non-final frame at "+c.P.Pos(ev.Instr.Pos())
				}
			}
		}
		if flushes > 1 {
			ok, why = false, "an uncompressed server message is written as more than one frame"
		}
	})
	c.R.Check(rule, shortFn(wm), "server-uncompressed-is-one-frame", wm.Pos(), ok && n > 0, why)
}

// isFreshCopyOf: v is append([]byte(nil), data...) of the parameter.
func isFreshCopyOf(p *core.Path, v *core.Term, data *ssa.Parameter) bool {
	v = strip(v)
	return v.Kind == core.KAppend && len(v.Args) == 2 && v.Args[0].IsNil() && strip(v.Args[1]) == p.X.ParamTerm(data)
}

// pmSnapshotIsTail: NewPreparedMessage points pm.data at a slice of a rendered frame on some successful path.
func pmSnapshotIsTail(c *Ctx, rule string) bool {
	npm := c.fn("NewPreparedMessage")
	pmData := c.P.Field("PreparedMessage", "data")
	tail := false
	c.explore(rule, npm, core.Opts{NonNilOnNilErr: true}, func(p *core.Path) {
		if p.End != core.EndReturn {
			return
		}
		for i := range p.Events {
			ev := &p.Events[i]
			if ev.Kind == core.EvStore && isFieldAddr(ev.Addr, pmData) && !isFreshCopyOf(p, ev.Val, npm.Params[1]) && strip(ev.Val).Kind != core.KParam {
				tail = true
			}
		}
	})
	return tail
}

// sinkOnlyField: within the functions reachable from root, every use of the
// field is a sync/atomic Add or Store call whose result is discarded: its value
// cannot influence anything computed on that path (a statistics counter).
func sinkOnlyField(c *Ctx, f *types.Var, root *ssa.Function) bool {
	if n, ok := f.Type().(*types.Named); !ok || n.Obj().Pkg() == nil || n.Obj().Pkg().Path() != "sync/atomic" {
		return false
	}
	reach := map[*ssa.Function]bool{}
	var visit func(g *ssa.Function)
	visit = func(g *ssa.Function) {
		if g == nil || reach[g] || !c.P.InPkg(g) {
			return
		}
		reach[g] = true
		for callee := range c.P.Mod(g).Callees {
			visit(callee)
		}
		for _, a := range g.AnonFuncs {
			visit(a)
		}
	}
	visit(root)
	uses := 0
	for g := range reach {
		for _, b := range g.Blocks {
			for _, in := range b.Instrs {
				fa, ok := in.(*ssa.FieldAddr)
				if !ok || fieldOf(fa) != f {
					continue
				}
				for _, ref := range *fa.Referrers() {
					call, isCall := ref.(*ssa.Call)
					if !isCall {
						return false
					}
					callee := call.Call.StaticCallee()
					if callee == nil || callee.Pkg == nil || callee.Pkg.Pkg.Path() != "sync/atomic" {
						return false
					}
					switch callee.Name() {
					case "Add", "Store":
						if len(*call.Referrers()) != 0 {
							return false
						}
					default:
						return false
					}
					uses++
				}
			}
		}
	}
	return uses > 0
}
