package rules

import (
	"fmt"
	"go/constant"
	"go/token"
	"go/types"

	"wsverif/core"
)

func init() {
	register("C02", "Decides the frame-header construction of both frame builders on every path: mask bit, fresh crypto/rand key per frame and the same key in header and masking call iff client; minimal length class with matching extended-length bytes and back-filled header position; byte 0 = opcode | FIN | RSV1 with nothing else; RSV1 only for the first frame of a negotiated, enabled, data message that is actually deflated; continuation opcode and cursor reset after a non-final frame; control frames unfragmented and <= 125. Payload equality after decoding is not decided.", c02)
}

func c02(c *Ctx) {
	r := c.R
	w := newWriterA(c)
	r.Rule("C02.frame-header", "flushFrame, every path reaching write: header byte 1 carries the mask bit iff client and the 7-bit class {literal length | 126 | 127} selected by exactly the RFC 6455 thresholds (<=125, <65536, >=65536); the extended length is written big-endian from the same length at header+2; the header start equals 14-2-ext-masklen; the encoded length equals (pos-14)+len(extra), i.e. the bytes actually handed to write")
	r.Rule("C02.byte0-bits", "flushFrame: byte 0 evaluates to frameType | (0x80 iff final) | (0x40 iff w.compress) for every opcode; WriteControl: byte 0 = messageType | 0x80; RSV2/RSV3 can never be set")
	r.Rule("C02.mask-role", "client paths: exactly one newMaskKey() per frame, its result is copied into the 4 header bytes before the payload and is the key of maskBytes(key, 0, exactly the payload range); server paths: none of these")
	r.Rule("C02.key-source", "newMaskKey fills the key from package variable maskRand with io.ReadFull; maskRand is assigned only in the package initialiser, from crypto/rand.Reader")
	r.Rule("C02.rsv1", "messageWriter.compress is set only by NextWriter under [newCompressionWriter != nil && enableWriteCompression && isData(type)] on the path that installs the compressing writer as Conn.writer, and is cleared by flushFrame before every write")
	r.Rule("C02.continuation", "after a successful non-final flush frameType := continuationFrame and pos := maxFrameHeaderSize; frameType is otherwise assigned only by beginMessage from the validated message type")
	r.Rule("C02.control-shape", "control frames are never fragmented and never exceed 125 bytes (same guards as C10.invalid-clean)")
	r.Assume("crypto/rand.Reader is a cryptographic random source")

	w.frameHeader("C02.frame-header", "C02.byte0-bits", "C02.mask-role")
	w.controlHeader("C02.frame-header", "C02.byte0-bits", "C02.mask-role")
	w.keySource("C02.key-source")
	w.rsv1("C02.rsv1")
	compressorDeflates(c, "C02.rsv1")
	w.continuation("C02.continuation")
	r.Rule("C02.mask-impl", "maskBytes: the raw-pointer word store (the only unsafe store of the package) addresses &b[0]+i with i = 0, W, 2W, ... < (len(b)/W)*W, W = sizeof(uintptr) on the build variant, and stores W bytes; the go/ssa-visible index/slice sites of maskBytes are proved by C07.panic-sites; that word-wise XOR equals byte-wise XOR is not decided")
	w.maskImpl("C02.mask-impl")
	t := newTransport(c)
	c10invalidAs(c, t, "C02.control-shape")
	r.Rule("C02.prepared-payload", "a PreparedMessage's payload snapshot is the application's bytes: the rendering it is cut from is a single frame (same rule as C19.single-frame)")
	preparedSingleFrame(c, "C02.prepared-payload")
	r.Rule("C02.deflater-exclusive", "a compressor returned to its pool is forgotten by the wrapper in the same step (never returned twice), so two connections never deflate into one flate.Writer and mix their messages (same rule as C11.pool-objects)")
	if c.poolTypestate("C02.deflater-exclusive", "(*flateWriteWrapper).Close") < 1 {
		r.Fail("C02.deflater-exclusive", "(*flateWriteWrapper).Close", "pool-put-site", c.fn("(*flateWriteWrapper).Close").Pos(), "no Put of the deflater found")
	}
	r.Rule("C02.payload-complete", "every byte the application handed to Write / WriteString / ReadFrom / WriteMessage is in the frame: the amount copied into writeBuf is the amount added to w.pos on every path, including reads that return data together with io.EOF (same rule as C01.cursor-siblings)")
	w.cursorSiblings("C02.payload-complete")
	r.Rule("C02.buffer-exclusive", "the buffer a frame is built in is not shared with another connection while the frame is being built or written (same rules as C20.owners, C20.put-once, C20.no-use-after)")
	c.borrow(c20, map[string]string{"C20.all-exits": "C02.one-message-at-a-time", "C20.owners": "C02.buffer-exclusive", "C20.put-once": "C02.buffer-exclusive", "C20.no-use-after": "C02.buffer-exclusive", "C20.implicit-close": "C02.one-message-at-a-time"})
	r.Rule("C02.one-message-at-a-time", "every way of starting a message (NextWriter, both WriteMessage paths) first ends a writer the application left open, so frames of two messages never interleave and no message is lost (same rule as C20.implicit-close)")
	r.Rule("C02.torn-frame-is-last", "a transport write that failed (possibly after part of the frame) is always recorded as the sticky write error, so no frame follows a torn one (same rule as C10.err-to-fatal)")
	c.borrow(c10, map[string]string{"C10.err-to-fatal": "C02.torn-frame-is-last"})
	r.Rule("C02.rsv1-negotiated", "a server connection compresses only if its 101 response announced permessage-deflate: the extension line is appended on exactly the paths that install the compression functions (same rule as C12.compress-announce)")
	{
		u := newUpgA(c)
		u.compressAnnounce("C02.rsv1-negotiated")
		u.runFull("C02.rsv1-negotiated")
	}
	r.Rule("C02.prepared-rendered-by-writer", "every cached variant of a PreparedMessage is produced by the library's own message writer on a private connection configured from the key (WriteMessage(pm.messageType, pm.data)): no second, hand-written encoder exists whose framing, masking or fragmentation could differ (same rule as C19.key-complete)")
	c.borrow(c19, map[string]string{"C19.key-complete": "C02.prepared-rendered-by-writer", "C19.cache": "C02.prepared-rendered-by-writer"})
	r.Rule("C02.prepared-bytes-copied", "the bytes of a prepared frame are copied out of the rendering connection's reused write buffer (same rule as C19.payload-copy)")
	c.borrow(c19, map[string]string{"C19.payload-copy": "C02.prepared-bytes-copied"})
	w.deflateTail("C02.rsv1")
	w.wrapperClose("C02.rsv1")
	r.Rule("C02.whole-frames", "the stream stays a sequence of whole frames: every transport write happens inside the Conn.mu critical section (no interleaving of two frames) after re-reading the sticky write error inside the lock (no frame is appended after a partially written one) — same rule as C09.protocol / C10.fail-stop")
	t.classify("C02.whole-frames")
	for _, fn := range c.P.FuncList {
		if t.sites[fn] && !t.unprot[fn] {
			t.checkSection(fn, "C02.whole-frames", "")
		}
	}
	t.noSharedBeforeLock("C02.whole-frames")
	r.Floor("C02.whole-frames", 5)
}

// frameHeader checks every path of flushFrame that reaches write.
func (w *writerA) frameHeader(ruleHdr, ruleB0, ruleMask string) {
	c, r := w.c, w.c.R
	wr := c.fn("(*Conn).write")
	newKey, maskBytes := c.fn("newMaskKey"), c.fn("maskBytes")
	isServer := c.P.Field("Conn", "isServer")
	ftF, compF := c.P.Field("messageWriter", "frameType"), c.P.Field("messageWriter", "compress")
	hdrSize := c.P.ConstInt("maxFrameHeaderSize")
	okH, whyH := true, "length class, extended bytes, header position and encoded length are consistent on every path"
	okB, whyB := true, "byte 0 = opcode | FIN(final) | RSV1(compress) on every path"
	okM, whyM := true, "masking events match the role on every path"
	classes := map[string]bool{}
	nW := 0
	c.explore(ruleHdr, w.flush, core.Opts{Pure: c.pureSet("isControl", "isData"), RecordLoads: true}, func(p *core.Path) {
		x := p.X
		for i := range p.Events {
			ev := &p.Events[i]
			if !callsStatic(ev, wr) || len(ev.Args) != 5 {
				continue
			}
			nW++
			buf0, extra := ev.Args[3], ev.Args[4]
			if buf0.Kind != core.KSlice {
				okH, whyH = false, "frame buffer handed to write is not a slice of Conn.writeBuf"
				continue
			}
			WB, lo, hi := buf0.Args[0], buf0.Args[1], buf0.Args[2]
			if _, is := fieldLoad(WB, w.writeBuf); !is {
				okH, whyH = false, "frame buffer handed to write is not a slice of Conn.writeBuf"
				continue
			}
			loC, isC := lo.Int64()
			if _, isPos := fieldLoad(hi, w.mwPos); !isC || !isPos {
				okH, whyH = false, "frame handed to write is not writeBuf[constant header start : w.pos]"
				continue
			}
			intT := types.Typ[types.Int]
			L := x.Bin(token.ADD, x.Bin(token.SUB, hi, x.T.Int(hdrSize), intT), x.Len(extra), intT)
			srvT := hasLit(p, ev.NLits, true, func(t *core.Term) bool { _, y := fieldLoad(t, isServer); return y })
			srvF := hasLit(p, ev.NLits, false, func(t *core.Term) bool { _, y := fieldLoad(t, isServer); return y })
			if srvT == srvF {
				okM, whyM = false, "a path to write does not branch on Conn.isServer"
				continue
			}
			client := srvF
			b0 := storedAt(p, WB, lo, i)
			b1 := storedAt(p, WB, x.T.Int(loC+1), i)
			if b0 == nil || b1 == nil {
				okH, whyH = false, "header bytes are not stored at the start of the frame handed to write"
				continue
			}
			// ---- byte 1: mask bit + class
			var class string
			maskBit := int64(0)
			if v, isK := b1.Int64(); isK {
				maskBit = v & 0x80
				switch v & 0x7f {
				case 126:
					class = "16-bit"
				case 127:
					class = "64-bit"
				default:
					okH, whyH = false, fmt.Sprintf("header byte 1 is the constant %#x", v)
					continue
				}
			} else {
				class = "7-bit"
				if byteLeaf(b1) != L {
					okH, whyH = false, "7-bit length stored in the header ("+b1.String()+") is not the payload length (pos-14)+len(extra)"
					continue
				}
				if b1.Kind == core.KBin && b1.Op == token.OR {
					if v, isK := b1.Args[1].Int64(); isK {
						maskBit = v & 0x80
						if v&0x7f != 0 {
							okH, whyH = false, "extra bits or-ed into the 7-bit length"
						}
					}
				}
			}
			classes[class] = true
			if (maskBit != 0) != client {
				okM, whyM = false, fmt.Sprintf("mask bit is %v on a %s path", maskBit != 0, map[bool]string{true: "client", false: "server"}[client])
			}
			// ---- thresholds from path literals about L
			ltK := func(k int64) bool { return knowsLt(p, ev.NLits, k, is(L)) }
			geK := func(k int64) bool { return knowsGe(p, ev.NLits, k, is(L)) }
			ext := int64(0)
			switch class {
			case "7-bit":
				if !ltK(126) {
					okH, whyH = false, "7-bit length form used without [length <= 125]"
				}
			case "16-bit":
				ext = 2
				if !geK(126) || !ltK(65536) {
					okH, whyH = false, "16-bit length form used outside 126 <= length <= 65535 (a 65536-byte frame would be written with length 0, or a short frame non-minimally)"
				}
			case "64-bit":
				ext = 8
				if !geK(65536) {
					okH, whyH = false, "64-bit length form used without [length >= 65536] (non-minimal encoding)"
				}
			}
			// ---- extended length bytes
			if ext > 0 {
				want := "(encoding/binary.bigEndian).PutUint16"
				convT := types.Type(types.Typ[types.Uint16])
				if ext == 8 {
					want, convT = "(encoding/binary.bigEndian).PutUint64", types.Typ[types.Uint64]
				}
				found := false
				for k := 0; k < i; k++ {
					e := &p.Events[k]
					if e.Kind == core.EvCall && e.Static != nil && extName(e.Static) == want && len(e.Args) == 3 {
						dst, val := e.Args[1], e.Args[2]
						if dst.Kind == core.KSlice && dst.Args[0] == WB && dst.Args[1] == x.T.Int(loC+2) && val == x.Conv(L, convT) {
							found = true
						}
					}
				}
				if !found {
					// the same bytes stored one by one: evaluated for sample lengths of the class
					samples := []int64{126, 255, 256, 0x1234, 0xfedc, 65535}
					if ext == 8 {
						samples = []int64{65536, 65537, 0x12345678, 0x0102030405060708, 1<<40 + 5, 1<<62 + 3}
					}
					found = true
					for j := int64(0); j < ext && found; j++ {
						bj := storedAt(p, WB, x.T.Int(loC+2+j), i)
						if bj == nil {
							found = false
							break
						}
						for _, sv := range samples {
							v, okE := x.Eval(bj, func(t *core.Term) (constant.Value, bool) {
								if t == L {
									return constant.MakeInt64(sv), true
								}
								return nil, false
							})
							got, _ := constant.Int64Val(v)
							if !okE || got&0xff != (sv>>(8*uint(ext-1-j)))&0xff {
								found = false
								break
							}
						}
					}
				}
				if !found {
					okH, whyH = false, fmt.Sprintf("%s form: the extended length is not written by %s(writeBuf[header+2:], length)", class, want)
				}
			}
			// ---- back-fill position
			maskLen := int64(0)
			if client {
				maskLen = 4
			}
			if loC != hdrSize-2-ext-maskLen {
				okH, whyH = false, fmt.Sprintf("%s form, %s: header starts at writeBuf[%d], want %d (payload always starts at %d)", class, map[bool]string{true: "client", false: "server"}[client], loC, hdrSize-2-ext-maskLen, hdrSize)
			}
			// ---- byte 0
			finT := hasLit(p, ev.NLits, true, func(t *core.Term) bool { return t.Kind == core.KParam && t.Ref == w.flush.Params[1] })
			finF := hasLit(p, ev.NLits, false, func(t *core.Term) bool { return t.Kind == core.KParam && t.Ref == w.flush.Params[1] })
			cmpT := hasLit(p, ev.NLits, true, func(t *core.Term) bool { _, y := fieldLoad(t, compF); return y })
			cmpF := hasLit(p, ev.NLits, false, func(t *core.Term) bool { _, y := fieldLoad(t, compF); return y })
			if finT == finF || cmpT == cmpF {
				okB, whyB = false, "a path to write does not branch on final / w.compress"
			} else {
				ftArg := ev.Args[1]
				for _, op := range []int64{0, 1, 2, 8, 9, 10} {
					v, ok := x.Eval(b0, func(t *core.Term) (constant.Value, bool) {
						if t == ftArg {
							return constant.MakeInt64(op), true
						}
						return nil, false
					})
					exp := op
					if finT {
						exp |= 0x80
					}
					if cmpT {
						exp |= 0x40
					}
					got, _ := constant.Int64Val(v)
					if !ok || got != exp {
						okB, whyB = false, fmt.Sprintf("byte 0 for opcode %d (final=%v, compress=%v) is %s, want %#x", op, finT, cmpT, b0, exp)
					}
				}
				if _, isFT := fieldLoad(ftArg, ftF); !isFT {
					okB, whyB = false, "the frame type passed to write is not w.frameType"
				}
			}
			// compress flag cleared before the write
			cleared := false
			for k := 0; k < i; k++ {
				e := &p.Events[k]
				if e.Kind == core.EvStore && isFieldAddr(e.Addr, compF) {
					b, isB := e.Val.BoolVal()
					cleared = isB && !b
				}
			}
			if !cleared {
				okB, whyB = false, "w.compress is not cleared before the frame is written (RSV1 would be repeated on continuation frames)"
			}
			// ---- masking events
			var keyCalls, maskCalls, keyCopies []*core.Event
			for k := 0; k < i; k++ {
				e := &p.Events[k]
				switch {
				case callsStatic(e, newKey):
					keyCalls = append(keyCalls, e)
				case callsStatic(e, maskBytes):
					maskCalls = append(maskCalls, e)
				case e.Kind == core.EvCall && e.Builtin == "copy" && len(e.Args) == 2 && e.Args[0].Kind == core.KSlice && e.Args[0].Args[0] == WB:
					keyCopies = append(keyCopies, e)
				}
			}
			if !client {
				if len(keyCalls)+len(maskCalls) != 0 {
					okM, whyM = false, "server frame is masked"
				}
				continue
			}
			if len(keyCalls) != 1 || len(maskCalls) != 1 || len(keyCopies) != 1 {
				okM, whyM = false, fmt.Sprintf("client frame path has %d newMaskKey, %d maskBytes and %d key copies (want exactly one each: every frame needs a fresh key)", len(keyCalls), len(maskCalls), len(keyCopies))
				continue
			}
			K := keyCalls[0].Result
			mc, kc := maskCalls[0], keyCopies[0]
			if mc.Args[0] != K {
				okM, whyM = false, "payload is masked with a key other than the fresh newMaskKey() result"
			}
			if z, isK := mc.Args[1].Int64(); !isK || z != 0 {
				okM, whyM = false, "payload masking does not start at key position 0"
			}
			pl := mc.Args[2]
			if !(pl.Kind == core.KSlice && pl.Args[0] == WB && pl.Args[1] == x.T.Int(hdrSize) && pl.Args[2] == hi) {
				okM, whyM = false, "the masked range is not exactly the payload writeBuf[14:w.pos]"
			}
			dst, src := kc.Args[0], kc.Args[1]
			if !(dst.Args[1] == x.T.Int(hdrSize-4)) {
				okM, whyM = false, "mask key is not stored in the 4 header bytes before the payload"
			}
			srcOK := false
			if src.Kind == core.KSlice && src.Args[0].Kind == core.KAlloc {
				for k := 0; k < i; k++ {
					e := &p.Events[k]
					if e.Kind == core.EvStore && e.Addr == src.Args[0] && e.Val == K {
						srcOK = true
					}
				}
			}
			if !srcOK {
				okM, whyM = false, "the key written into the header is not the key used for masking"
			}
		}
	})
	if nW < 12 || len(classes) != 3 {
		okH, whyH = false, fmt.Sprintf("only %d paths to write / %d length classes recognised", nW, len(classes))
	}
	r.Check(ruleHdr, shortFn(w.flush), "length-class-extension-position", w.flush.Pos(), okH, whyH)
	r.Check(ruleB0, shortFn(w.flush), "byte0-opcode-fin-rsv1", w.flush.Pos(), okB, whyB)
	r.Check(ruleMask, shortFn(w.flush), "mask-iff-client-fresh-key", w.flush.Pos(), okM, whyM)
}
