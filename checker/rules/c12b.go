package rules

import (
	"go/constant"
	"go/token"
	"go/types"
	"strings"

	"golang.org/x/tools/go/ssa"

	"wsverif/core"
)

// elemOf: t is an element load of slice s (s[i] for some i).
func elemOf(t *core.Term, pred func(s *core.Term) bool) bool {
	return t.Kind == core.KLoad && t.Args[0].Kind == core.KIndexAddr && pred(t.Args[0].Args[0])
}

func (u *upgA) subprotocol() {
	c, r := u.c, u.c.R
	subs := c.fn("Subprotocols")
	subsF := c.P.Field("Upgrader", "Subprotocols")
	okSel, whySel := true, "with Upgrader.Subprotocols set the result is an offered protocol equal to a supported one (or empty)"
	okArm, whyArm := true, "the responseHeader arm is reachable only when Upgrader.Subprotocols is nil"
	okK1, whyK1 := true, ""
	nSel, nArm := 0, 0
	c.explore("C12.subprotocol", u.selectSub, core.Opts{Unroll: 0}, func(p *core.Path) {
		if p.End != core.EndReturn || len(p.Results) != 1 {
			return
		}
		res := p.Results[0]
		if s, isS := res.StrVal(); isS {
			if s != "" {
				okSel, whySel = false, "a constant subprotocol is returned"
			}
			return
		}
		isOffer := func(s *core.Term) bool { return s.Kind == core.KCall && s.Ref == interface{}(subs) }
		isSupported := func(s *core.Term) bool { _, is := fieldLoad(s, subsF); return is }
		if elemOf(res, isOffer) {
			nSel++
			// equal to a supported protocol on this path
			eq := hasLit(p, len(p.Lits), true, func(t *core.Term) bool {
				if t.Kind != core.KEq {
					return false
				}
				a, b := t.Args[0], t.Args[1]
				return (a == res && elemOf(b, isSupported)) || (b == res && elemOf(a, isSupported))
			})
			if !eq {
				okSel, whySel = false, "an offered protocol is selected without being compared equal to a protocol in Upgrader.Subprotocols"
			}
			// the offer is parsed from this request
			if call := res.Args[0].Args[0]; len(call.Args) != 1 || call.Args[0].Kind != core.KParam {
				okSel, whySel = false, "the offer is not taken from the request being upgraded"
			}
			return
		}
		if elemOf(res, isSupported) {
			nSel++
			eq := hasLit(p, len(p.Lits), true, func(t *core.Term) bool {
				if t.Kind != core.KEq {
					return false
				}
				a, b := t.Args[0], t.Args[1]
				return (a == res && elemOf(b, isOffer)) || (b == res && elemOf(a, isOffer))
			})
			if !eq {
				okSel, whySel = false, "a supported protocol is selected without being compared equal to an offered one"
			}
			return
		}
		// anything else: an application-chosen value (responseHeader arm)
		nArm++
		nilSubs := hasLit(p, len(p.Lits), true, func(t *core.Term) bool {
			return isEqNil(t, func(y *core.Term) bool { _, is := fieldLoad(y, subsF); return is })
		})
		if !nilSubs {
			okArm, whyArm = false, "the application's responseHeader value is used as subprotocol although Upgrader.Subprotocols is not nil (path returning at "+c.P.Pos(p.Ret.Pos())+"): the 101 can announce a protocol that is neither offered nor supported"
		}
		okK1 = false
		whyK1 = "with Upgrader.Subprotocols == nil the value " + fieldPathName(res) + " is announced without being checked against the client's offer"
	})
	r.Check("C12.subprotocol", shortFn(u.selectSub), "selected-from-offer-and-supported", u.selectSub.Pos(), okSel && nSel > 0, whySel)
	r.Check("C12.subprotocol", shortFn(u.selectSub), "responseHeader-arm-only-when-Subprotocols-nil", u.selectSub.Pos(), okArm, whyArm)
	if nArm > 0 {
		r.Check("C12.subprotocol", shortFn(u.selectSub), "return-responseHeader-protocol-not-checked-against-offer", u.selectSub.Pos(), okK1, whyK1)
	}
	// Upgrade uses selectSubprotocol's result for both the Conn and the response line
	ok, why := true, "the protocol written after 'Sec-WebSocket-Protocol: ' is the selected one stored in Conn.subprotocol"
	sp := c.P.Field("Conn", "subprotocol")
	n := 0
	u.full(func(p *core.Path) {
		if p.End != core.EndReturn || len(p.Results) != 2 || !p.Results[1].IsNil() {
			return
		}
		var sel *core.Term
		for i := range p.Events {
			ev := &p.Events[i]
			if callsStatic(ev, u.selectSub) {
				sel = ev.Result
			}
			if ev.Kind == core.EvStore && isFieldAddr(ev.Addr, sp) {
				n++
				if ev.Val != sel {
					ok, why = false, "Conn.subprotocol is not the result of selectSubprotocol"
				}
			}
		}
	})
	u.after(func() {
		r.Check("C12.subprotocol", shortFn(u.upgrade), "selected-protocol-stored", u.upgrade.Pos(), ok && n > 0, why)
	})
}

// compressAnnounce: announce <=> enable on the server.
func (u *upgA) compressAnnounce(rule string) {
	c, r := u.c, u.c.R
	ncw, ndr := c.P.Field("Conn", "newCompressionWriter"), c.P.Field("Conn", "newDecompressionReader")
	ec := c.P.Field("Upgrader", "EnableCompression")
	compW, compR := c.fn("compressNoContextTakeover"), c.fn("decompressNoContextTakeover")
	ok, why := true, "extension line appended <=> both compression functions installed; only under EnableCompression and a permessage-deflate offer"
	nOn, nOff := 0, 0
	u.full(func(p *core.Path) {
		if p.End != core.EndReturn || len(p.Results) != 2 || !p.Results[1].IsNil() {
			return
		}
		wSet, rSet, announced := false, false, false
		for i := range p.Events {
			ev := &p.Events[i]
			if ev.Kind == core.EvStore && isFieldAddr(ev.Addr, ncw) {
				wSet = ev.Val.Kind == core.KFunc && ev.Val.Ref == interface{}(compW)
				if !wSet {
					ok, why = false, "newCompressionWriter is set to something other than compressNoContextTakeover"
				}
			}
			if ev.Kind == core.EvStore && isFieldAddr(ev.Addr, ndr) {
				rSet = ev.Val.Kind == core.KFunc && ev.Val.Ref == interface{}(compR)
				if !rSet {
					ok, why = false, "newDecompressionReader is set to something other than decompressNoContextTakeover"
				}
			}
			if ev.Kind == core.EvCall && ev.Builtin == "append" && len(ev.Args) == 2 {
				if s, isS := ev.Args[1].StrVal(); isS && strings.Contains(s, "Sec-WebSocket-Extensions") {
					announced = true
					if !extensionLineOK(s) {
						ok, why = false, "the announced extension line is not 'permessage-deflate' with server_no_context_takeover and client_no_context_takeover: "+s
					}
				}
			}
		}
		if wSet != rSet {
			ok, why = false, "only one of the two compression functions is installed"
		}
		// an extension header supplied by the application is never copied into the 101 (the client would act on an
		// announcement the server's Conn knows nothing about): every successful path knows it to be absent
		appExtAbsent := hasLit(p, len(p.Lits), false, func(t *core.Term) bool {
			if t.Kind != core.KExtract || t.N != 1 || t.Args[0].Kind != core.KLookup {
				return false
			}
			k, isK := t.Args[0].Args[1].StrVal()
			return isK && k == "Sec-Websocket-Extensions" && strip(t.Args[0].Args[0]).Kind == core.KParam
		})
		if !appExtAbsent {
			ok, why = false, "Upgrade succeeds at "+c.P.Pos(p.Ret.Pos())+" without having excluded an application-supplied Sec-Websocket-Extensions response header: it is copied into the 101 response, the client enables compression and the server does not"
		}
		if announced != (wSet && rSet) {
			ok, why = false, "the 101 response "+map[bool]string{true: "announces", false: "does not announce"}[announced]+" permessage-deflate but the connection is "+map[bool]string{true: "", false: "not "}[wSet && rSet]+"set up to use it (path returning at "+c.P.Pos(p.Ret.Pos())+")"
		}
		if announced {
			nOn++
			enabled := hasLit(p, len(p.Lits), true, func(t *core.Term) bool { _, is := fieldLoad(t, ec); return is })
			offered := hasLit(p, len(p.Lits), true, func(t *core.Term) bool {
				if t.Kind != core.KEq {
					return false
				}
				s, isS := t.Args[1].StrVal()
				if !isS || s != "permessage-deflate" {
					return false
				}
				// ext[""] of an element of parseExtensions(r.Header)
				a := t.Args[0]
				if a.Kind != core.KLookup {
					return false
				}
				k, isK := a.Args[1].StrVal()
				return isK && k == "" && elemOf(a.Args[0], func(s *core.Term) bool {
					return s.Kind == core.KCall && s.Ref == interface{}(u.parseExt) && len(s.Args) == 1 && isRequestHeader(s.Args[0])
				})
			})
			if !enabled {
				ok, why = false, "compression is announced without Upgrader.EnableCompression"
			}
			if !offered {
				ok, why = false, "compression is announced without a permessage-deflate offer in the request"
			}
		} else {
			nOff++
		}
	})
	u.after(func() {
		r.Check(rule, shortFn(u.upgrade), "announce-iff-enabled", u.upgrade.Pos(), ok && nOn > 0 && nOff > 0, why)
	})
}

// extensionLineOK parses "Sec-WebSocket-Extensions: permessage-deflate; server_no_context_takeover; client_no_context_takeover\r\n".
func extensionLineOK(s string) bool {
	if !strings.HasSuffix(s, "\r\n") {
		return false
	}
	s = strings.TrimSuffix(s, "\r\n")
	i := strings.Index(s, ":")
	if i < 0 || !strings.EqualFold(strings.TrimSpace(s[:i]), "Sec-WebSocket-Extensions") {
		return false
	}
	parts := strings.Split(s[i+1:], ";")
	if strings.TrimSpace(parts[0]) != "permessage-deflate" {
		return false
	}
	have := map[string]bool{}
	for _, p := range parts[1:] {
		have[strings.TrimSpace(p)] = true
	}
	return have["server_no_context_takeover"] && have["client_no_context_takeover"] && len(have) == 2
}

// noSplit: taint rule on everything appended to the response, plus the constant skeleton.
func (u *upgA) noSplit() {
	c, r := u.c, u.c.R
	ok, why := true, "only constants, the accept key, header names and scrubbed bytes are appended"
	okS, whyS := true, "constant parts form 'HTTP/1.1 101 ...CRLF' + header lines + final empty line; written once"
	nApp, nWrites := 0, 0
	okP, whyP := true, "responseHeader entries are copied only on paths that know the header name to differ from Sec-Websocket-Protocol"
	nSkip := 0
	u.full(func(p *core.Path) {
		success := p.End == core.EndReturn && len(p.Results) == 2 && p.Results[1].IsNil()
		var consts []string
		writes := 0
		var lastAppend *core.Event
		for i := range p.Events {
			ev := &p.Events[i]
			if ev.Kind == core.EvCall && ev.Static == nil && ev.Method != nil && ev.Method.Name() == "Write" && own(ev) {
				writes++
				if lastAppend != nil && ev.Args[0] != lastAppend.Result && ev.Args[0].Kind != core.KAppend {
					okS, whyS = false, "the buffer written is not the assembled response"
				}
			}
			if ev.Kind != core.EvCall || ev.Builtin != "append" || len(ev.Args) != 2 || !own(ev) {
				continue
			}
			lastAppend = ev
			nApp++
			op := ev.Args[1]
			switch {
			case op.Kind == core.KConst && op.Val != nil:
				s, _ := op.StrVal()
				consts = append(consts, s)
			case op.Kind == core.KCall && op.Ref == interface{}(u.accept):
				consts = append(consts, "<accept>")
			case op.Kind == core.KExtract && op.N == 1 && op.Args[0].Kind == core.KOpaque:
				// key of `for k, vs := range responseHeader`: header name (table entry)
				if nx, isNext := op.Args[0].Ref.(*ssa.Next); !isNext || nx.IsString {
					ok, why = false, "unrecognised appended value "+op.String()
				}
				// the application's own Sec-Websocket-Protocol entry is never copied: the only subprotocol
				// announced is the one selectSubprotocol chose
				nSkip++
				if !hasLit(p, ev.NLits, false, func(t *core.Term) bool {
					if t.Kind != core.KEq {
						return false
					}
					sv, isS := t.Args[1].StrVal()
					return isS && sv == "Sec-Websocket-Protocol" && t.Args[0] == op
				}) {
					okP, whyP = false, "a responseHeader entry is copied into the 101 response at "+c.P.Pos(ev.Instr.Pos())+" on a path that does not know its name to differ from Sec-Websocket-Protocol: a subprotocol the selection did not choose (not offered by the client, or not supported) is announced"
				}
			case op.Kind == core.KSlice && op.Args[0].Kind == core.KAlloc:
				b := storedAt(p, op.Args[0], p.X.T.Int(0), i)
				if b == nil || p.X.Len(op) != p.X.T.Int(1) {
					ok, why = false, "unrecognised appended bytes"
					break
				}
				if b.IsConst() {
					break
				}
				if !knowsGe(p, ev.NLits, 32, is(b)) {
					ok, why = false, "a byte of an application-supplied value ("+fieldPathName(b)+") is appended to the 101 response at "+c.P.Pos(ev.Instr.Pos())+" without being known >= 32 (CR/LF can split the response)"
				}
			default:
				ok, why = false, "the value "+fieldPathName(op)+" is appended to the 101 response at "+c.P.Pos(ev.Instr.Pos())+" without control-byte scrubbing (header injection)"
			}
		}
		if !success {
			return
		}
		nWrites++
		if writes != 1 {
			okS, whyS = false, "the handshake response is not written with exactly one Write"
		}
		if len(consts) == 0 || !strings.HasPrefix(consts[0], "HTTP/1.1 101 ") {
			okS, whyS = false, "the response does not start with the status line 'HTTP/1.1 101 '"
			return
		}
		head := consts[0]
		if !strings.Contains(head, "\r\nUpgrade: websocket\r\n") || !strings.Contains(head, "\r\nConnection: Upgrade\r\n") {
			okS, whyS = false, "the response lacks 'Upgrade: websocket' / 'Connection: Upgrade'"
		}
		if consts[len(consts)-1] != "\r\n" || len(consts) < 2 || !strings.HasSuffix(consts[len(consts)-2], "\r\n") {
			okS, whyS = false, "the response is not terminated by an empty line"
		}
		for _, s := range consts {
			if strings.Contains(s, "\n") && strings.Count(s, "\n") != strings.Count(s, "\r\n") {
				okS, whyS = false, "a constant part of the response contains a bare LF"
			}
		}
	})
	u.after(func() {
		r.Check("C12.no-split", shortFn(u.upgrade), "appended-values-scrubbed", u.upgrade.Pos(), ok && nApp > 0, why)
		r.Check("C12.status-line", shortFn(u.upgrade), "response-skeleton", u.upgrade.Pos(), okS && nWrites > 0, whyS)
		r.Check("C12.subprotocol", shortFn(u.upgrade), "application-subprotocol-header-not-copied", u.upgrade.Pos(), okP && nSkip > 0, whyP)
	})
}

// tokenListOWS: structural necessary condition for "arbitrary optional
// whitespace" in comma separated token lists: every token is scanned from a
// skipSpace result, the separator test looks at a skipSpace result, the value
// compared case-insensitively is the scanned token, and true is returned only
// after that comparison succeeded.
func (u *upgA) tokenListOWS(rule string) {
	c, r := u.c, u.c.R
	allHeaderLines(c, rule, "tokenListContainsValue")
	skipSpaceASCII(c, rule)
	skip, next, fold := c.fn("skipSpace"), c.fn("nextToken"), c.fn("equalASCIIFold")
	ok, why := true, "tokens scanned after skipSpace; separator tested after skipSpace; true only via equalASCIIFold(token, value)"
	nTrue, nSep := 0, 0
	isSkip := func(t *core.Term) bool { return t.Kind == core.KCall && t.Ref == interface{}(skip) }
	c.explore(rule, u.tlcv, core.Opts{Unroll: 0}, func(p *core.Path) {
		for i := range p.Events {
			ev := &p.Events[i]
			if callsStatic(ev, next) && !isSkip(ev.Args[0]) {
				ok, why = false, "a token is scanned without skipping leading whitespace"
			}
		}
		for _, l := range p.Lits {
			// s[0] == ',' tests
			if l.T.Kind == core.KEq && l.T.Args[0].Kind == core.KIndex {
				if v, isC := l.T.Args[1].Int64(); isC && v == ',' {
					nSep++
					if !isSkip(l.T.Args[0].Args[0]) {
						ok, why = false, "the list separator is tested on a string from which whitespace after the token was not skipped ('a , b' lists are rejected)"
					}
				}
			}
		}
		if p.End == core.EndReturn && len(p.Results) == 1 {
			if b, isB := p.Results[0].BoolVal(); isB && b {
				nTrue++
				good := false
				for i := range p.Events {
					ev := &p.Events[i]
					if callsStatic(ev, fold) && len(ev.Args) == 2 {
						tok, val := ev.Args[0], ev.Args[1]
						if tok.Kind == core.KExtract && tok.N == 0 && tok.Args[0].Kind == core.KCall && tok.Args[0].Ref == interface{}(next) && val.Kind == core.KParam {
							res := ev.Result
							if hasLit(p, len(p.Lits), true, func(t *core.Term) bool { return t == res }) {
								good = true
							}
						}
					}
				}
				if !good {
					ok, why = false, "tokenListContainsValue can return true without an ASCII-case-insensitive match of a scanned token against the wanted value"
				}
			} else if !isB {
				ok, why = false, "tokenListContainsValue returns a non-constant"
			}
		}
	})
	r.Check(rule, shortFn(u.tlcv), "optional-whitespace-and-exact-token", u.tlcv.Pos(), ok && nTrue > 0 && nSep > 0, why)
}

// quotedPairs: structural necessary condition for parsing quoted-string
// parameter values (RFC 7230 quoted-pair): the byte that follows a backslash
// recognised inside a quoted string is taken literally — it is never compared
// with anything (in particular not with the closing quote).  Decided over
// every pair of consecutive scanner iterations from an arbitrary loop state,
// plus the precise first iteration of each loop: no path carries a branch
// literal about s[i+1] after the literal s[i] == '\\'.
func quotedPairs(c *Ctx, rule string) {
	fn := c.fn("nextTokenOrQuoted")
	ok, why := true, "the byte after a recognised backslash is consumed without being inspected, on every pair of consecutive iterations"
	nBackslash := 0
	c.explore(rule, fn, core.Opts{Unroll: 1, PairIter: true}, func(p *core.Path) {
		for i, l := range p.Lits {
			t := l.T
			if !l.Pos || t.Kind != core.KEq || t.Args[0].Kind != core.KIndex {
				continue
			}
			if v, isC := t.Args[1].Int64(); !isC || v != '\\' {
				continue
			}
			nBackslash++
			str, idx := t.Args[0].Args[0], t.Args[0].Args[1]
			next := p.X.Bin(token.ADD, idx, p.X.T.Int(1), idx.Type)
			for _, m := range p.Lits[i+1:] {
				bad := false
				m.T.Walk(func(y *core.Term) bool {
					if y.Kind == core.KIndex && y.Args[0] == str && y.Args[1] == next {
						bad = true
					}
					return true
				})
				if bad {
					ok, why = false, "after the backslash recognised at "+litPos(c, l)+" the following byte is inspected at "+litPos(c, m)+" ("+m.T.String()+"): an escaped quote or backslash is not taken literally, so text inside a quoted parameter value can end the string early and be parsed as further extensions"
				}
			}
		}
	})
	c.R.Check(rule, shortFn(fn), "byte-after-backslash-taken-literally", fn.Pos(), ok && nBackslash > 0, why)
}

func litPos(c *Ctx, l core.Lit) string { return c.P.LitPos(l) }

// allHeaderLines: a header may be sent as several field lines (RFC 7230 3.2.2); the scanners of token lists
// and extension lists look at every line.  http.Header.Get returns the first line only, so a scanner that
// obtains its input through Get silently ignores tokens on later lines.  Necessary condition: the function
// (and helpers extracted from it) indexes the header map or calls Values, and never calls Get.
func allHeaderLines(c *Ctx, rule string, names ...string) {
	for _, name := range names {
		fn := c.fn(name)
		fns := []*ssa.Function{fn}
		for callee := range c.P.Mod(fn).Callees {
			if c.isNewHelper(callee, 1) {
				fns = append(fns, callee)
			}
		}
		isHeader := func(t types.Type) bool {
			nt, isN := t.(*types.Named)
			return isN && nt.Obj().Pkg() != nil && nt.Obj().Pkg().Path() == "net/http" && nt.Obj().Name() == "Header"
		}
		ok, why := true, "the scanner ranges over every line of the header (header[name] / Values), never over Get's first line"
		all := 0
		for _, f := range fns {
			for _, b := range f.Blocks {
				for _, in := range b.Instrs {
					switch v := in.(type) {
					case *ssa.Lookup:
						if isHeader(v.X.Type()) {
							all++
						}
					case *ssa.Call:
						if callee := v.Call.StaticCallee(); callee != nil {
							switch extName(callee) {
							case "(net/http.Header).Values":
								all++
							case "(net/http.Header).Get":
								ok, why = false, shortFn(f)+" reads the header through Header.Get at "+c.P.Pos(v.Pos())+": only the first of several field lines is examined, tokens on later lines (a second Connection, Upgrade, Sec-WebSocket-Version or Sec-WebSocket-Extensions line) are ignored"
							}
						}
					}
				}
			}
		}
		if ok && all == 0 {
			ok, why = false, "no access to all lines of the header found in "+name+" (neither header[name] nor Values)"
		}
		c.R.Check(rule, shortFn(fn), "every-header-line-scanned", fn.Pos(), ok, why)
	}
}

// skipSpaceASCII: optional whitespace in these lists is SP / HTAB (RFC 7230 OWS).  skipSpace must not consume
// anything else: a Unicode-aware trim (unicode.IsSpace, strings.TrimSpace, Fields) treats NBSP, NEL, U+3000 ...
// as separators and accepts malformed token lists.  Necessary condition: skipSpace calls nothing outside the
// package, and every byte comparison it makes is against ' ' or '\t'.
func skipSpaceASCII(c *Ctx, rule string) {
	fn := c.fn("skipSpace")
	ok, why := true, "skipSpace compares bytes against ' ' and '\\t' only and calls no library function"
	n := 0
	for _, b := range fn.Blocks {
		for _, in := range b.Instrs {
			switch v := in.(type) {
			case *ssa.Call:
				if _, isBuiltin := v.Call.Value.(*ssa.Builtin); isBuiltin {
					continue
				}
				if callee := v.Call.StaticCallee(); callee != nil && extName(callee) == "strings.TrimLeft" && len(v.Call.Args) == 2 {
					// strings.TrimLeft(s, " \t"): a byte set given literally, SP and HTAB only
					if k, isK := v.Call.Args[1].(*ssa.Const); isK && k.Value != nil && k.Value.Kind() == constant.String {
						set := constant.StringVal(k.Value)
						if set != "" && strings.Trim(set, " \t") == "" {
							n++
							continue
						}
					}
				}
				if callee := v.Call.StaticCallee(); callee == nil || callee.Pkg != fn.Pkg {
					ok, why = false, "skipSpace delegates to "+v.Call.String()+" at "+c.P.Pos(v.Pos())+": library trimming/splitting helpers use Unicode white space (NBSP, NEL, U+3000, ...), which is not optional whitespace in a header token list"
				}
			case *ssa.BinOp:
				if k, isK := v.Y.(*ssa.Const); isK && k.Value != nil && (v.Op == token.EQL || v.Op == token.NEQ) {
					if bt, isB := v.X.Type().Underlying().(*types.Basic); isB && (bt.Kind() == types.Uint8 || bt.Kind() == types.Byte) {
						n++
						if x, exact := constant.Int64Val(constant.ToInt(k.Value)); !exact || (x != ' ' && x != '\t') {
							ok, why = false, "skipSpace skips a byte other than space and tab"
						}
					}
				}
			}
		}
	}
	c.R.Check(rule, shortFn(fn), "skips-SP-and-HTAB-only", fn.Pos(), ok && n >= 1, why)
}
