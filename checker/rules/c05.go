package rules

import (
	"go/types"

	"golang.org/x/tools/go/ssa"

	"wsverif/core"
)

func init() {
	register("C05", "Decides the provenance of every io.EOF the read API can hand to the application: end of message is signalled only at the true end (no bytes left in the frame and FIN seen) or for a stale reader; EOF from the transport inside a header, a payload or a non-final frame is converted; read errors are sticky; ReadJSON and the decompression wrapper do not turn faults into clean ends.", c05)
}

// isEOFLoad: t is a load of the package variable io.EOF.
func isEOFLoad(t *core.Term) bool {
	t = strip(t)
	if t.Kind != core.KLoad || t.Args[0].Kind != core.KGlobal {
		return false
	}
	g := t.Args[0].Ref.(*ssa.Global)
	return g.Pkg != nil && g.Pkg.Pkg.Path() == "io" && g.Name() == "EOF"
}

// mayBeEOF classifies an error term: can it be io.EOF as far as its shape says?
func (c *Ctx) mayBeEOF(t *core.Term) bool {
	if t.IsNil() {
		return false
	}
	if isEOFLoad(t) {
		return true
	}
	if c.nonNilErr(t) { // errors.New, repo sentinels (package-level error vars never reassigned), &T{} literals
		return false
	}
	s := strip(t)
	if s.Kind == core.KLoad && s.Args[0].Kind == core.KGlobal {
		g := s.Args[0].Ref.(*ssa.Global)
		if g.Pkg == c.P.SPkg && c.globalInitOnly(g) {
			return false // repo sentinel such as errUnexpectedEOF (*CloseError)
		}
		if g.Pkg != c.P.SPkg {
			c.R.Assume("exported error variables of imported packages (io.ErrClosedPipe, io.ErrUnexpectedEOF, ...) are distinct from io.EOF and never reassigned")
			return false
		}
	}
	return true
}

// refutedEOF: the path knows t != io.EOF.
func refutedEOF(p *core.Path, t *core.Term) bool {
	return hasLit(p, len(p.Lits), false, func(x *core.Term) bool {
		return x.Kind == core.KEq && ((x.Args[0] == t && isEOFLoad(x.Args[1])) || (x.Args[1] == t && isEOFLoad(x.Args[0])))
	})
}

func c05(c *Ctx) {
	r := c.R
	rd := newReader(c)
	r.Rule("C05.eof-provenance", "every error messageReader.Read can return that may be io.EOF (the literal, or a transport/parse error not refuted to be io.EOF) is returned only on paths that carry (bytes remaining in frame <= 0 and FIN seen) or (the reader is stale)")
	r.Rule("C05.header-eof", "(*Conn).read never returns io.EOF: the error of Peek is either refuted to be io.EOF or replaced by the abnormal-closure CloseError; all header and control-payload reads of advanceFrame go through it")
	r.Rule("C05.sticky", "read errors are permanent (same rule as C04.sticky)")
	r.Rule("C05.readjson", "ReadJSON never returns the decoder's io.EOF (a message that ends early is not a clean end)")
	r.Rule("C05.wrapper", "flateReadWrapper.Read returns the inflater's (n, err) unchanged; ReadMessage returns the error of reading the message reader")
	r.Assume("io.ReadAll / json.Decoder treat exactly io.EOF from the message reader as end of message (library contract)")

	rd.eofProvenance("C05.eof-provenance")
	rd.unexpectedEOFProvenance("C05.eof-provenance")

	// ---- header-eof: (*Conn).read
	{
		ok, why := true, "io.EOF from Peek is replaced by errUnexpectedEOF on every path"
		n := 0
		c.explore("C05.header-eof", rd.read, core.Opts{}, func(p *core.Path) {
			if p.End != core.EndReturn || len(p.Results) != 2 {
				return
			}
			e := p.Results[1]
			n++
			if c.mayBeEOF(e) && !refutedEOF(p, e) {
				ok, why = false, "(*Conn).read can return io.EOF at "+c.P.Pos(p.Ret.Pos())+" (EOF inside a frame header would look like a clean end)"
			}
		})
		r.Check("C05.header-eof", shortFn(rd.read), "never-returns-io.EOF", rd.read.Pos(), ok && n > 0, why)
		// all reads of advanceFrame after step 1 go through (*Conn).read
		ok2, why2 := true, "advanceFrame touches Conn.br only through (*Conn).read and the skip of step 1"
		c.explore("C05.header-eof", rd.advance, core.Opts{Unroll: 0, Inline: rd.inl()}, func(p *core.Path) {
			seenRead := false
			for i := range p.Events {
				ev := &p.Events[i]
				if callsStatic(ev, rd.read) {
					seenRead = true
				}
				if seenRead && ev.Kind == core.EvCall && !callsStatic(ev, rd.read) && rd.usesBr(ev) {
					ok2, why2 = false, "advanceFrame reads the transport directly at "+c.P.Pos(ev.Instr.Pos())+" (EOF not converted)"
				}
			}
		})
		r.Check("C05.header-eof", shortFn(rd.advance), "reads-through-read", rd.advance.Pos(), ok2, why2)
	}

	rd.sticky("C05.sticky")
	// the 1000-call budget of a failed connection is spent by NextReader only
	rd.owners("C05.sticky", c.P.Field("Conn", "readErrCount"), "(*Conn).NextReader")
	// a transport fault met while skipping the rest of an abandoned frame, or while reading a header, ends the read
	{
		sel := func(ev *core.Event) bool {
			return (ev.Static != nil && extName(ev.Static) == "io.CopyN") || callsStatic(ev, rd.read)
		}
		if c.errMustPropagate("C05.header-eof", rd.advance, sel, core.Opts{Unroll: 0, Inline: rd.inl()}) < 3 {
			r.Fail("C05.header-eof", shortFn(rd.advance), "floor-transport-reads", rd.advance.Pos(), "fewer than 3 transport reads found in advanceFrame")
		}
	}
	r.Rule("C05.bytes-unmasked", "bytes handed to the application together with an error are unmasked like any others (same rule as C03.mask-thread for messageReader.Read)")
	rd.readUnmask("C05.bytes-unmasked")

	// ---- readjson
	{
		fn := c.fn("(*Conn).ReadJSON")
		ok, why := true, "the decoder's error is refuted to be io.EOF or replaced before it is returned"
		n := 0
		c.explore("C05.readjson", fn, core.Opts{}, func(p *core.Path) {
			if p.End != core.EndReturn || len(p.Results) != 1 {
				return
			}
			e := p.Results[0]
			// only errors produced by Decode
			s := strip(e)
			if s.Kind == core.KCall {
				if f, isF := s.Ref.(*ssa.Function); isF && extName(f) == "(*encoding/json.Decoder).Decode" {
					n++
					if !refutedEOF(p, e) {
						ok, why = false, "ReadJSON can return the decoder's io.EOF at "+c.P.Pos(p.Ret.Pos())
					}
				}
			}
			if isEOFLoad(e) {
				ok, why = false, "ReadJSON returns io.EOF"
			}
		})
		r.Check("C05.readjson", shortFn(fn), "decoder-EOF-converted", fn.Pos(), ok && n > 0, why)
	}

	flateWrapperRule(c, "C05.wrapper")
	{
		all := func(ev *core.Event) bool { return true }
		c.errMustPropagate("C05.wrapper", c.fn("(*Conn).ReadMessage"), all, core.Opts{})
	}
	r.Rule("C05.early-bytes", "bytes buffered before the upgrade are replayed completely (same rule as C17.brnetconn): otherwise a message is reported complete with foreign content")
	c.borrow(c17, map[string]string{"C17.brnetconn": "C05.early-bytes", "C17.server-reader-choice": "C05.early-bytes", "C17.reader-stable": "C05.early-bytes"})
	r.Rule("C05.control-frames-readable", "a control frame of any legal size between messages can be read with every read buffer size, so messages that arrived completely behind it are still reported (same rule as C08.read-buffer)")
	c08readBufferAs(c, rd, "C05.control-frames-readable")
	r.Rule("C05.control-undisturbing", "a control frame between messages never turns a write-side fault into a read error: the default ping/pong handlers return nil whatever WriteControl reports, so messages that fully arrived behind the control frame are still delivered (same rule as C08.defaults)")
	c08defaults(c, rd, "C05.control-undisturbing")
	r.Rule("C05.reader-wrappers", "every Read method layered over the message reader or the transport passes inner faults on: an inner error that is not io.EOF is never replaced by nil or io.EOF, and bytes delivered with it are not dropped (same rule as C03.reader-wrappers)")
	c.readerSiblings("C05.reader-wrappers")
	rd.inflateWrap("C05.reader-wrappers")
	if c.readerWrappers("C05.reader-wrappers") < 4 {
		r.Fail("C05.reader-wrappers", "package", "floor", c.fn("(*joinReader).Read").Pos(), "fewer than the 4 known reader wrappers were analysed")
	}
	r.Floor("C05.wrapper", 3)
	r.Floor("C05.sticky", 5)
}

func yn(b bool) string {
	if b {
		return "yes"
	}
	return "no"
}

var _ = types.Typ

// eofProvenance: io.EOF leaves messageReader.Read only at the true end of the message or for a stale reader.
func (rd *reader) eofProvenance(rule string) {
	c, r := rd.c, rd.c.R
	fn := rd.mrRead
	ok, why := true, "every possibly-io.EOF return is at the true end of the message or for a stale reader"
	n := 0
	opts := core.Opts{Unroll: 0, RecordLoads: true, Inline: rd.inl()}
	c.explore(rule, fn, opts, func(p *core.Path) {
		if p.End != core.EndReturn || len(p.Results) != 2 {
			return
		}
		e := p.Results[1]
		if !c.mayBeEOF(e) {
			return
		}
		n++
		if !isEOFLoad(e) && refutedEOF(p, e) {
			return
		}
		// stale reader: literal (r == c.messageReader) false
		stale := hasLit(p, len(p.Lits), false, func(x *core.Term) bool {
			if x.Kind != core.KEq {
				return false
			}
			_, a := fieldLoad(x.Args[0], rd.msgReader)
			_, b := fieldLoad(x.Args[1], rd.msgReader)
			return a || b
		})
		if stale {
			return
		}
		// true end: current readRemaining known <= 0 and current readFinal known true
		var rem, fin *core.Term
		for i := range p.Events {
			ev := &p.Events[i]
			if ev.Kind == core.EvLoad || ev.Kind == core.EvStore {
				if isFieldAddr(ev.Addr, rd.readRemaining) {
					rem = ev.Val
				}
				if isFieldAddr(ev.Addr, rd.readFinal) {
					fin = ev.Val
				}
			}
		}
		remDone := rem != nil && (knowsLt(p, len(p.Lits), 1, isW(p.X, rem)) || func() bool { v, isC := rem.Int64(); return isC && v <= 0 }())
		finSeen := fin != nil && (hasLit(p, len(p.Lits), true, func(x *core.Term) bool { return x == fin }) || func() bool { b, isB := fin.BoolVal(); return isB && b }())
		if !(remDone && finSeen) {
			ok = false
			why = "the return at " + c.P.Pos(p.Ret.Pos()) + " can yield io.EOF (" + e.String() + ") although the message is not at its true end (bytes remaining <= 0: " + yn(remDone) + ", final frame seen: " + yn(finSeen) + "): a truncated message is reported complete"
		}
	})
	if n == 0 {
		ok, why = false, "no possibly-EOF return found in messageReader.Read (rule blind)"
	}
	r.Check(rule, shortFn(fn), "return-may-be-io.EOF", fn.Pos(), ok, why)
}

// unexpectedEOFProvenance: the converse of eofProvenance.  A transport io.EOF
// is turned into the abnormal-closure error only where the message really is
// incomplete *after* the bytes delivered with that EOF were accounted for: the
// path returning errUnexpectedEOF knows (bytes remaining in the frame, as
// stored by this call, >= 1) or (FIN not seen).  Otherwise the last message,
// completely received in the same transport read as the EOF, is reported as
// truncated — the result would depend on how the transport chunks the bytes.
func (rd *reader) unexpectedEOFProvenance(rule string) {
	c, r := rd.c, rd.c.R
	fn := rd.mrRead
	ue := c.P.Global("errUnexpectedEOF")
	ok, why := true, "errUnexpectedEOF replaces a transport io.EOF only on paths that know the message to be incomplete after accounting for the bytes just read"
	n := 0
	c.explore(rule, fn, core.Opts{Unroll: 0, RecordLoads: true, Inline: rd.inl()}, func(p *core.Path) {
		if p.End != core.EndReturn || len(p.Results) != 2 {
			return
		}
		e := strip(p.Results[1])
		if !(e.Kind == core.KLoad && e.Args[0].Kind == core.KGlobal && e.Args[0].Ref == interface{}(ue)) {
			return
		}
		// only conversions of an io.EOF that came with this call's transport read
		var readErr *core.Term
		for i := range p.Events {
			ev := &p.Events[i]
			if ev.Kind == core.EvCall && ev.Static != nil && extName(ev.Static) == "(*bufio.Reader).Read" && rd.usesBr(ev) {
				readErr = p.X.ExtractOf(ev.Result, 1, nil)
			}
		}
		if readErr == nil || !knownEOF(p, readErr) {
			return
		}
		n++
		var rem, fin *core.Term
		for i := range p.Events {
			ev := &p.Events[i]
			if ev.Kind == core.EvLoad || ev.Kind == core.EvStore {
				if isFieldAddr(ev.Addr, rd.readRemaining) {
					rem = ev.Val
				}
				if isFieldAddr(ev.Addr, rd.readFinal) {
					fin = ev.Val
				}
			}
		}
		more := rem != nil && knowsGe(p, len(p.Lits), 1, isW(p.X, rem))
		notFinal := fin != nil && hasLit(p, len(p.Lits), false, func(x *core.Term) bool { return x == fin })
		if !more && !notFinal {
			ok, why = false, "the path returning at "+c.P.Pos(p.Ret.Pos())+" reports an abnormal closure for an io.EOF that arrived together with payload bytes without knowing that bytes are still missing after those were counted (remaining >= 1: "+yn(more)+", FIN not seen: "+yn(notFinal)+"): a last message that arrived completely in the same transport read as the EOF is reported as truncated"
		}
	})
	r.Check(rule, shortFn(fn), "abnormal-closure-only-if-incomplete", fn.Pos(), ok && n > 0, why)
}

// flateWrapperRule: flateReadWrapper.Read hands the inflater's (n, err) to
// the caller unchanged, and gives the inflater up (Close / pool Put) only on
// paths that know the inflater reported io.EOF — after any other error the
// next Read must report that error again, not io.ErrClosedPipe.
func flateWrapperRule(c *Ctx, rule string) {
	r := c.R
	fn := c.fn("(*flateReadWrapper).Read")
	ok, why := true, "returns exactly the (n, err) of the wrapped inflater's Read"
	n := 0
	c.explore(rule, fn, core.Opts{}, func(p *core.Path) {
		if p.End != core.EndReturn || len(p.Results) != 2 {
			return
		}
		for i := range p.Events {
			ev := &p.Events[i]
			if ev.Kind == core.EvCall && ev.Method != nil && ev.Method.Name() == "Read" && ev.Static == nil && ev.Depth == 0 {
				n++
				ie := p.X.ExtractOf(ev.Result, 1, nil)
				sameErr := p.Results[1] == ie || (isEOFLoad(p.Results[1]) && knownEOF(p, ie)) // `return n, io.EOF` under [err == io.EOF]
				if p.Results[0] != p.X.ExtractOf(ev.Result, 0, nil) || !sameErr {
					ok, why = false, "flateReadWrapper.Read alters the inflater's result at "+c.P.Pos(p.Ret.Pos())+" (returns "+p.Results[0].String()+", "+p.Results[1].String()+")"
				}
			}
		}
		if n == 0 && c.mayBeEOF(p.Results[1]) {
			ok, why = false, "flateReadWrapper.Read can report io.EOF without reading"
		}
	})
	r.Check(rule, shortFn(fn), "inflater-result-unchanged", fn.Pos(), ok && n > 0, why)
	// release only at EOF
	okR, whyR := true, "the inflater is given up only on paths that know its Read returned io.EOF"
	closeFn := c.fn("(*flateReadWrapper).Close")
	c.explore(rule, fn, core.Opts{}, func(p *core.Path) {
		var inner *core.Term
		for i := range p.Events {
			ev := &p.Events[i]
			if ev.Kind == core.EvCall && ev.Method != nil && ev.Method.Name() == "Read" && ev.Static == nil && own(ev) {
				inner = p.X.ExtractOf(ev.Result, 1, nil)
			}
			released := callsStatic(ev, closeFn) || (ev.Kind == core.EvCall && ev.Static != nil && extName(ev.Static) == "(*sync.Pool).Put")
			if released && inner != nil && !knownEOF(p, inner) {
				okR, whyR = false, "flateReadWrapper.Read gives the inflater up at "+c.P.Pos(ev.Instr.Pos())+" although its Read is not known to have returned io.EOF: after a transport or protocol error the next Read of the same message reader returns io.ErrClosedPipe instead of that error"
			}
		}
	})
	r.Check(rule, shortFn(fn), "inflater-released-only-at-EOF", fn.Pos(), okR, whyR)
}
