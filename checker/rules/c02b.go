package rules

import (
	"fmt"
	"go/constant"
	"go/token"
	"go/types"

	"golang.org/x/tools/go/ssa"

	"wsverif/core"
)

// appendChain flattens append(append(append(base, a...), b...), c...) into [a b c] and the base.
func appendChain(t *core.Term) (base *core.Term, parts []*core.Term) {
	for t.Kind == core.KAppend {
		parts = append([]*core.Term{t.Args[1]}, parts...)
		t = t.Args[0]
	}
	return t, parts
}

// layElem is one piece of a frame laid out in a buffer: a single byte, the
// 4-byte mask key, or the payload argument.
type layElem struct {
	kind string // "byte", "key", "data"
	t    *core.Term
}

// indexedLayout reads the layout of a frame built in a make'd buffer by
// indexed stores and copy calls: buf[0], buf[1], (copy(buf[2:6], key[:]) or
// four stores), copy(buf[P:], data), with len(buf) == P + len(data).
func indexedLayout(p *core.Path, buf *core.Term, upTo int, dataP *ssa.Parameter) ([]layElem, bool) {
	x := p.X
	type cp struct {
		lo   int64
		kind string
		t    *core.Term
	}
	var cps []cp
	for k := 0; k < upTo; k++ {
		e := &p.Events[k]
		if e.Kind != core.EvCall || e.Builtin != "copy" || len(e.Args) != 2 || e.Args[0].Kind != core.KSlice || e.Args[0].Args[0] != buf {
			continue
		}
		d := e.Args[0]
		lo := int64(0)
		if d.Args[1].Kind != core.KNone {
			v, isC := x.StripWiden(d.Args[1]).Int64()
			if !isC {
				return nil, false
			}
			lo = v
		}
		src := e.Args[1]
		switch {
		case src.Kind == core.KParam && src.Ref == interface{}(dataP):
			if d.Args[2].Kind != core.KNone {
				return nil, false
			}
			cps = append(cps, cp{lo, "data", src})
		case src.Kind == core.KSlice && src.Args[0].Kind == core.KAlloc:
			if L, isC := x.Len(src).Int64(); !isC || L != 4 {
				return nil, false
			}
			if d.Args[2].Kind != core.KNone {
				if hi, isC := x.StripWiden(d.Args[2]).Int64(); !isC || hi != lo+4 {
					return nil, false
				}
			}
			var whole *core.Term
			for j := 0; j < k; j++ {
				if e2 := &p.Events[j]; e2.Kind == core.EvStore && e2.Addr == src.Args[0] {
					whole = e2.Val
				}
			}
			if whole == nil {
				return nil, false
			}
			cps = append(cps, cp{lo, "key", whole})
		default:
			return nil, false
		}
	}
	var lay []layElem
	pos := int64(0)
	for {
		var at *cp
		for k := range cps {
			if cps[k].lo == pos {
				at = &cps[k] // the last copy to this offset wins
			}
		}
		if at != nil {
			lay = append(lay, layElem{at.kind, at.t})
			if at.kind == "data" {
				break
			}
			pos += 4
			continue
		}
		b := storedAt(p, buf, x.T.Int(pos), upTo)
		if b == nil {
			return nil, false
		}
		lay = append(lay, layElem{"byte", b})
		pos++
		if pos > 16 {
			return nil, false
		}
	}
	for _, c := range cps {
		if c.lo > pos {
			return nil, false
		}
	}
	// the buffer ends with the payload
	if d, isC := x.Bin(token.SUB, x.Len(buf), x.Len(x.ParamTerm(dataP)), types.Typ[types.Int]).Int64(); !isC || d != pos {
		return nil, false
	}
	return lay, true
}

// controlHeader checks the frame built by WriteControl on every path that writes it.
func (w *writerA) controlHeader(ruleHdr, ruleB0, ruleMask string) {
	c, r := w.c, w.c.R
	fn := c.fn("(*Conn).WriteControl")
	newKey, maskBytes := c.fn("newMaskKey"), c.fn("maskBytes")
	isServer := c.P.Field("Conn", "isServer")
	t := newTransport(c)
	typeP, dataP := fn.Params[1], fn.Params[2]
	ok, why := true, "frame = [type|0x80, len(data)|mask] ++ key(client) ++ data; client payload masked with that key from position 0"
	n := 0
	c.explore(ruleHdr, fn, core.Opts{Pure: c.pureSet("isControl", "isData")}, func(p *core.Path) {
		x := p.X
		for i := range p.Events {
			ev := &p.Events[i]
			if direct, is := t.writeEvent(ev); !is || !direct || len(ev.Args) != 1 {
				continue
			}
			n++
			buf := ev.Args[0]
			base, parts := appendChain(buf)
			if !(base.Kind == core.KSlice || base.Kind == core.KMake) {
				ok, why = false, "control frame is not built in a fresh buffer"
			}
			srvT := hasLit(p, ev.NLits, true, func(t *core.Term) bool { _, y := fieldLoad(t, isServer); return y })
			srvF := hasLit(p, ev.NLits, false, func(t *core.Term) bool { _, y := fieldLoad(t, isServer); return y })
			if srvT == srvF {
				ok, why = false, "WriteControl does not branch on Conn.isServer"
				continue
			}
			client := srvF
			// flatten the appended parts into a byte layout: single bytes (variadic appends), a 4-byte key slice, the payload
			type elem = layElem
			var lay []elem
			flat := true
			for _, part := range parts {
				switch {
				case part.Kind == core.KParam && part.Ref == dataP:
					lay = append(lay, elem{"data", part})
				case part.Kind == core.KSlice && part.Args[0].Kind == core.KAlloc:
					al := part.Args[0]
					L, isC := x.Len(part).Int64()
					if !isC {
						flat = false
						break
					}
					if storedAt(p, al, x.T.Int(0), i) != nil {
						for k := int64(0); k < L; k++ {
							b := storedAt(p, al, x.T.Int(k), i)
							if b == nil {
								flat = false
								break
							}
							lay = append(lay, elem{"byte", b})
						}
						break
					}
					var whole *core.Term
					for k := 0; k < i; k++ {
						if e := &p.Events[k]; e.Kind == core.EvStore && e.Addr == al {
							whole = e.Val
						}
					}
					if whole == nil || L != 4 {
						flat = false
						break
					}
					lay = append(lay, elem{"key", whole})
				default:
					flat = false
				}
			}
			if len(parts) == 0 && (buf.Kind == core.KMake || (buf.Kind == core.KSlice && buf.Args[0].Kind == core.KAlloc && buf.Args[1].Kind == core.KNone)) {
				lay, flat = indexedLayout(p, buf, i, dataP)
			}
			if !flat || len(lay) < 3 || lay[0].kind != "byte" || lay[1].kind != "byte" {
				ok, why = false, fmt.Sprintf("cannot identify the layout of the control frame (%d appended parts) on a %s path: want header bytes, key (client), payload", len(parts), map[bool]string{true: "client", false: "server"}[client])
				continue
			}
			b0, b1 := lay[0].t, lay[1].t
			rest := lay[2:]
			// byte 0
			for _, op := range []int64{8, 9, 10} {
				v, okE := x.Eval(b0, func(t *core.Term) (constant.Value, bool) {
					if t.Kind == core.KParam && t.Ref == typeP {
						return constant.MakeInt64(op), true
					}
					return nil, false
				})
				got, _ := constant.Int64Val(v)
				if !okE || got != op|0x80 {
					ok, why = false, fmt.Sprintf("control frame byte 0 for opcode %d is %s, want %#x", op, b0, op|0x80)
				}
			}
			// byte 1 = len(data) | mask
			lenData := x.Len(x.ParamTerm(dataP))
			if byteLeaf(b1) != lenData {
				ok, why = false, "control frame length byte is not len(data)"
			}
			mb := int64(0)
			if b1.Kind == core.KBin {
				if v, isK := b1.Args[1].Int64(); isK {
					mb = v
				}
			}
			if (mb == 0x80) != client || (mb != 0 && mb != 0x80) {
				ok, why = false, "control frame mask bit does not match the role"
			}
			// payload part is the data parameter, last
			if rest[len(rest)-1].kind != "data" {
				ok, why = false, "control frame payload is not the data argument"
			}
			var keyCalls, maskCalls []*core.Event
			for k := 0; k < i; k++ {
				e := &p.Events[k]
				if callsStatic(e, newKey) {
					keyCalls = append(keyCalls, e)
				}
				if callsStatic(e, maskBytes) {
					maskCalls = append(maskCalls, e)
				}
			}
			if !client {
				if len(keyCalls)+len(maskCalls) != 0 {
					ok, why = false, "server control frame is masked"
				}
				continue
			}
			if len(keyCalls) != 1 || len(maskCalls) != 1 {
				ok, why = false, "client control frame: want exactly one newMaskKey and one maskBytes"
				continue
			}
			K := keyCalls[0].Result
			keyOK := false
			switch {
			case len(rest) == 2 && rest[0].kind == "key" && rest[0].t == K:
				keyOK = true
			case len(rest) == 5:
				keyOK = true
				for k := 0; k < 4; k++ {
					b := rest[k].t
					if !(rest[k].kind == "byte" && b.Kind == core.KIndex && b.Args[0] == K && func() bool { v, isC := b.Args[1].Int64(); return isC && v == int64(k) }()) {
						keyOK = false
					}
				}
			}
			if !keyOK {
				ok, why = false, "the bytes between the header and the payload of a client control frame are not the 4 bytes of the fresh newMaskKey() result"
			}
			mc := maskCalls[0]
			if mc.Args[0] != K {
				ok, why = false, "control payload is masked with a different key than the one in the header"
			}
			if z, isK := mc.Args[1].Int64(); !isK || z != 0 {
				ok, why = false, "control payload masking does not start at key position 0"
			}
			pl := mc.Args[2]
			if !(pl.Kind == core.KSlice && pl.Args[0] == buf && pl.Args[2].Kind == core.KNone) {
				ok, why = false, "control masking does not cover the frame's payload"
			} else if lo, isK := x.StripWiden(pl.Args[1]).Int64(); !isK || lo != 6 {
				ok, why = false, "control masking does not start after the 2 header bytes and the 4 key bytes"
			}
		}
	})
	r.Check(ruleHdr, shortFn(fn), "control-frame-layout", fn.Pos(), ok && n >= 2, why)
	_ = ruleB0
	_ = ruleMask
}

// keySource: newMaskKey draws from maskRand, which is crypto/rand.Reader.
func (w *writerA) keySource(rule string) {
	c, r := w.c, w.c.R
	fn := c.fn("newMaskKey")
	maskRand := c.P.Global("maskRand")
	ok, why := true, "newMaskKey returns 4 bytes filled by io.ReadFull(maskRand, key[:])"
	n := 0
	c.explore(rule, fn, core.Opts{}, func(p *core.Path) {
		if p.End != core.EndReturn || len(p.Results) != 1 {
			return
		}
		n++
		filled := false
		for i := range p.Events {
			ev := &p.Events[i]
			if ev.Kind == core.EvCall && ev.Static != nil && extName(ev.Static) == "io.ReadFull" && len(ev.Args) == 2 {
				src := strip(ev.Args[0])
				if src.Kind == core.KLoad && src.Args[0].Kind == core.KGlobal && src.Args[0].Ref == interface{}(maskRand) {
					dst := ev.Args[1]
					if dst.Kind == core.KSlice && dst.Args[0].Kind == core.KAlloc {
						// the returned value is the content of that array
						res := p.Results[0]
						if res.Kind == core.KLoad && res.Args[0] == dst.Args[0] {
							filled = true
						}
					}
				}
			}
		}
		if !filled {
			ok, why = false, "newMaskKey does not return bytes read from maskRand"
		}
	})
	r.Check(rule, shortFn(fn), "key-from-maskRand", fn.Pos(), ok && n > 0, why)
	// maskRand assigned only in init, from crypto/rand.Reader
	stores, good := 0, false
	for _, f := range append([]*ssa.Function{c.P.SPkg.Func("init")}, c.P.FuncList...) {
		if f == nil {
			continue
		}
		isInit := f.Synthetic != "" && f.Name() == "init"
		if !isInit && f == c.P.SPkg.Func("init") {
			continue
		}
		for _, b := range f.Blocks {
			for _, in := range b.Instrs {
				st, isSt := in.(*ssa.Store)
				if !isSt || st.Addr != ssa.Value(maskRand) {
					continue
				}
				stores++
				if isInit {
					v := st.Val
					if mi, isMI := v.(*ssa.MakeInterface); isMI {
						v = mi.X
					}
					if u, isU := v.(*ssa.UnOp); isU {
						if g, isG := u.X.(*ssa.Global); isG && g.Pkg.Pkg.Path() == "crypto/rand" && g.Name() == "Reader" {
							good = true
						}
					}
				}
			}
		}
	}
	// FuncList contains init as well: count each store once
	if c.P.Funcs["init"] != nil {
		stores /= 2
	}
	r.Check(rule, "init", "maskRand-is-crypto-rand", maskRand.Pos(), good && stores == 1, fmt.Sprintf("maskRand must be assigned exactly once, in the package initialiser, from crypto/rand.Reader (found %d stores, crypto/rand initialiser: %v)", stores, good))
}

// rsv1: who sets messageWriter.compress and under which guards.
func (w *writerA) rsv1(rule string) {
	c, r := w.c, w.c.R
	compF := c.P.Field("messageWriter", "compress")
	ncw, ewc := c.P.Field("Conn", "newCompressionWriter"), c.P.Field("Conn", "enableWriteCompression")
	isData := c.fn("isData")
	for _, st := range c.P.FieldStoreSites(compF) {
		fn := st.Parent()
		k, isC := st.Val.(*ssa.Const)
		if !isC || k.Value == nil {
			r.Fail(rule, shortFn(fn), "store-compress", st.Pos(), "messageWriter.compress is assigned a non-constant")
			continue
		}
		if !constant.BoolVal(k.Value) {
			onlyFlush := true
			for _, h := range c.hostsOf(fn) { // a helper extracted from flushFrame clears it on flushFrame's behalf
				if h != w.flush {
					onlyFlush = false
				}
			}
			r.Check(rule, shortFn(fn), "clear-compress", st.Pos(), onlyFlush, "compress may be cleared only by flushFrame")
			continue
		}
		ok, why := true, "compress = true only with a negotiated, enabled, data message whose writer is the compressing wrapper"
		n := 0
		c.explore(rule, fn, core.Opts{Pure: c.pureSet("isControl", "isData")}, func(p *core.Path) {
			for i := range p.Events {
				ev := &p.Events[i]
				if ev.Kind != core.EvStore || !isFieldAddr(ev.Addr, compF) {
					continue
				}
				if b, isB := ev.Val.BoolVal(); !isB || !b {
					continue
				}
				n++
				g1 := hasLit(p, ev.NLits, false, func(t *core.Term) bool {
					return isEqNil(t, func(y *core.Term) bool { _, is := fieldLoad(y, ncw); return is })
				})
				g2 := hasLit(p, ev.NLits, true, func(t *core.Term) bool { _, is := fieldLoad(t, ewc); return is })
				g3 := hasLit(p, ev.NLits, true, func(t *core.Term) bool { return t.Kind == core.KApp && t.Ref == interface{}(isData) })
				if !(g1 && g2 && g3) {
					ok, why = false, "RSV1 can be requested without [newCompressionWriter != nil && enableWriteCompression && isData(type)]"
				}
				// the compressing writer is created and installed on this path and wraps this message writer
				var wrap *core.Event
				installed := false
				for k := range p.Events {
					e := &p.Events[k]
					if e.Kind == core.EvCall && e.FnVal != nil {
						if _, is := fieldLoad(e.FnVal, ncw); is {
							wrap = e
						}
					}
					if wrap != nil && e.Kind == core.EvStore && isFieldAddr(e.Addr, w.writer) && e.Val == wrap.Result {
						installed = true
					}
				}
				if wrap == nil {
					ok, why = false, "RSV1 is requested but no compressing writer is created"
				} else {
					if !installed {
						ok, why = false, "RSV1 is requested but the compressing writer is not installed as Conn.writer (an implicit close would bypass the flate flush)"
					}
					if p.End == core.EndReturn && len(p.Results) == 2 && p.Results[0] != wrap.Result {
						ok, why = false, "RSV1 is requested but the writer handed to the application is not the compressing one"
					}
					if strip(wrap.Args[0]).Kind != core.KAlloc {
						ok, why = false, "the compressing writer does not wrap this message's writer"
					}
				}
			}
			// conversely: a data message with compression available gets it
		})
		r.Check(rule, shortFn(fn), "set-compress", st.Pos(), ok && n > 0 && fn == w.nextWriter, why)
	}
	r.Floor(rule, 2)
}

// continuation: state after a successful non-final flush.
func (w *writerA) continuation(rule string) {
	c, r := w.c, w.c.R
	ftF := c.P.Field("messageWriter", "frameType")
	hdrSize := c.P.ConstInt("maxFrameHeaderSize")
	cont := c.P.ConstInt("continuationFrame")
	ok, why := true, "non-final success: frameType := continuationFrame (0) and pos := maxFrameHeaderSize"
	n := 0
	c.explore(rule, w.flush, core.Opts{Pure: c.pureSet("isControl", "isData")}, func(p *core.Path) {
		if p.End != core.EndReturn || len(p.Results) != 1 || !p.Results[0].IsNil() {
			return
		}
		notFinal := hasLit(p, len(p.Lits), false, func(t *core.Term) bool { return t.Kind == core.KParam && t.Ref == w.flush.Params[1] })
		var ft, pos *core.Term
		for i := range p.Events {
			ev := &p.Events[i]
			if ev.Kind == core.EvStore && isFieldAddr(ev.Addr, ftF) {
				ft = ev.Val
			}
			if ev.Kind == core.EvStore && isFieldAddr(ev.Addr, w.mwPos) {
				pos = ev.Val
			}
		}
		if notFinal {
			n++
			if v, isC := ft.Int64(); ft == nil || !isC || v != cont || cont != 0 {
				ok, why = false, "after a non-final frame the next frame's opcode is not set to continuation (0)"
			}
			if v, isC := pos.Int64(); pos == nil || !isC || v != hdrSize {
				ok, why = false, "after a non-final frame the write cursor is not reset to maxFrameHeaderSize"
			}
		}
	})
	r.Check(rule, shortFn(w.flush), "state-after-non-final-flush", w.flush.Pos(), ok && n > 0, why)
	for _, st := range c.P.FieldStoreSites(ftF) {
		fn := st.Parent()
		good := false
		switch fn {
		case w.flush:
			k, isC := st.Val.(*ssa.Const)
			good = isC && k.Value != nil && k.Int64() == cont
		case w.begin:
			_, good = st.Val.(*ssa.Parameter)
		}
		r.Check(rule, shortFn(fn), "store-frameType", st.Pos(), good, "messageWriter.frameType may be assigned only by beginMessage (validated parameter) and flushFrame (continuationFrame)")
	}
	for _, st := range c.P.FieldStoreSites(w.mwPos) {
		fn := st.Parent()
		if fn == w.begin || fn == w.flush {
			k, isC := st.Val.(*ssa.Const)
			r.Check(rule, shortFn(fn), "store-pos-reset", st.Pos(), isC && k.Value != nil && k.Int64() == hdrSize, "a new frame starts at writeBuf[maxFrameHeaderSize]")
		}
	}
}

// maskImpl: the only raw-pointer store of the package (word-wise XOR in
// maskBytes) stays inside the slice: address = &b[0] + i with i a counter that
// starts at 0, advances by the word size W and is tested against
// (len(b)/W)*W for the same b, W = sizeof(uintptr) of the build variant.
func (w *writerA) maskImpl(rule string) {
	c, r := w.c, w.c.R
	fn := c.fn("maskBytes")
	W := c.P.Pkg.TypesSizes.Sizeof(types.Typ[types.Uintptr])
	ok, why := true, fmt.Sprintf("word loop: &b[0] + i, i = 0, %d, ... < (len(b)/%d)*%d", W, W, W)
	n := 0
	usesUnsafe := false
	for _, b := range fn.Blocks {
		for _, in := range b.Instrs {
			if st, isSt := in.(*ssa.Store); isSt {
				if _, isConv := st.Addr.(*ssa.Convert); isConv {
					usesUnsafe = true
				}
			}
		}
	}
	if !usesUnsafe {
		r.Pass(rule, shortFn(fn), "no-raw-pointer-store", fn.Pos(), "this build variant masks byte-wise only")
		return
	}
	o := core.Opts{Unroll: 0, LoopInvariants: true}
	c.explore(rule, fn, o, func(p *core.Path) {
		for i := range p.Events {
			ev := &p.Events[i]
			if ev.Kind != core.EvStore || ev.Addr.Kind != core.KConv {
				continue
			}
			n++
			// peel conversions down to the address arithmetic
			a := ev.Addr
			for a.Kind == core.KConv {
				a = a.Args[0]
			}
			if a.Kind == core.KIndexAddr {
				// slice-consuming form: *(*uintptr)(&b[k]) while the path knows len(b) - k >= W
				x := p.X
				room := x.Len(a.Args[0])
				if z, isC := a.Args[1].Int64(); !isC || z != 0 {
					room = x.Bin(token.SUB, room, x.StripWiden(a.Args[1]), types.Typ[types.Int])
				}
				if !knowsGe(p, ev.NLits, W, is(room)) && !x.ProveLeq(x.T.Int(W), room) {
					ok, why = false, fmt.Sprintf("the word store at &b[k] is not guarded by len(b)-k >= %d", W)
				}
				if pt, isP := ev.Addr.Type.Underlying().(*types.Pointer); !isP || c.P.Pkg.TypesSizes.Sizeof(pt.Elem()) != W {
					ok, why = false, "the raw store is wider than the guarded room"
				}
				continue
			}
			// unsafe.Add(base, off) is base + off
			isAdd := a.Kind == core.KBin && a.Op == token.ADD
			if a.Kind == core.KCall && len(a.Args) == 2 {
				if name, isB := a.Ref.(string); isB && name == "Add" {
					isAdd = true
				}
			}
			if !isAdd {
				ok, why = false, "raw pointer store whose address is not base + offset"
				continue
			}
			base, off := a.Args[0], a.Args[1]
			peel := func(t *core.Term) *core.Term {
				for t.Kind == core.KConv {
					t = t.Args[0]
				}
				return t
			}
			base, off = peel(base), peel(off)
			if base.Kind != core.KIndexAddr {
				base, off = off, base
			}
			if base.Kind != core.KIndexAddr {
				ok, why = false, "raw pointer store not based on an element address"
				continue
			}
			// &b[0] of a sub-slice b = B[k:] is the canonical address &B[k]: the room after it is len(B) - k
			B, kOff := base.Args[0], base.Args[1]
			if off.Kind != core.KFresh {
				ok, why = false, "raw pointer offset is not the loop counter"
				continue
			}
			phi, isPhi := off.Ref.(*ssa.Phi)
			if !isPhi {
				ok, why = false, "raw pointer offset is not a loop counter"
				continue
			}
			stepOK, initOK := true, false
			body := loopBody(phi.Block())
			for k, e := range phi.Edges {
				if !body[phi.Block().Preds[k]] {
					if kc, isK := e.(*ssa.Const); isK && kc.Value != nil && kc.Int64() == 0 {
						initOK = true
					}
					continue
				}
				lo, hi, good := stepOfSSA(e, phi, 0, map[ssa.Value]bool{})
				if !good || lo != W || hi != W {
					stepOK = false
				}
			}
			if !initOK || !stepOK {
				ok, why = false, fmt.Sprintf("the word-loop counter does not run 0, %d, %d, ...", W, 2*W)
			}
			// guard: off < (len(B)/W)*W
			x := p.X
			wT := x.T.Int(W)
			room := x.Len(B)
			if z, isC := kOff.Int64(); !isC || z != 0 {
				room = x.Bin(token.SUB, room, x.StripWiden(kOff), types.Typ[types.Int])
			}
			bound := x.Bin(token.MUL, x.Bin(token.QUO, room, wT, types.Typ[types.Int]), wT, types.Typ[types.Int])
			if !hasLit(p, ev.NLits, true, func(t *core.Term) bool { return t.Kind == core.KLt && t.Args[0] == off && t.Args[1] == bound }) {
				ok, why = false, fmt.Sprintf("the word store is not guarded by i < (len(b)/%d)*%d for the slice whose &b[0] is used", W, W)
			}
			// stored width
			if pt, isP := ev.Addr.Type.Underlying().(*types.Pointer); !isP || c.P.Pkg.TypesSizes.Sizeof(pt.Elem()) != W {
				ok, why = false, "the raw store is wider than the loop step"
			}
		}
	})
	r.Check(rule, shortFn(fn), "word-loop-stays-inside-slice", fn.Pos(), ok && n > 0, why)
}
