package rules

import (
	"go/token"
	"go/constant"
	"fmt"
	"go/types"

	"golang.org/x/tools/go/ssa"

	"wsverif/core"
)

// transport bundles the anchors of the write-side lock protocol (shared by C09, C10, C11).
type transport struct {
	c                              *Ctx
	conn, mu, writeErr, writeErrMu *types.Var
	mWrite, mSetWD                 *types.Func
	writeFatal                     *ssa.Function
	closeMsg                       int64
	errCloseSent                   *ssa.Global
	unprot                         map[*ssa.Function]bool // perform a transport write without acquiring mu themselves
	sites                          map[*ssa.Function]bool // functions containing transport writes (direct or via unprot helper)
}

func newTransport(c *Ctx) *transport {
	t := &transport{c: c, unprot: map[*ssa.Function]bool{}, sites: map[*ssa.Function]bool{}}
	t.conn = c.P.Field("Conn", "conn")
	t.mu = c.P.Field("Conn", "mu")
	t.writeErr = c.P.Field("Conn", "writeErr")
	t.writeErrMu = c.P.Field("Conn", "writeErrMu")
	t.mWrite = c.P.ExtMethod("net", "Conn", "Write")
	t.mSetWD = c.P.ExtMethod("net", "Conn", "SetWriteDeadline")
	t.writeFatal = c.fn("(*Conn).writeFatal")
	t.closeMsg = c.P.ConstInt("CloseMessage")
	t.errCloseSent = c.P.Global("ErrCloseSent")
	return t
}

// isConnLoad: t is (a conversion of) a load of Conn.conn.
func (t *transport) isConnLoad(x *core.Term) bool {
	_, ok := fieldLoad(strip(x), t.conn)
	return ok
}

// writeEvent: does ev put bytes on the transport?  Direct: Write invoked on
// c.conn, or c.conn handed as a writer to external code.  Indirect: a call of
// an in-package helper known to write without taking the lock itself.
func (t *transport) writeEvent(ev *core.Event) (direct, is bool) {
	if ev.Kind != core.EvCall || ev.Inlined {
		return false, false // an inlined helper is judged by the writes inside it
	}
	if ev.Static == nil && ev.Method != nil && t.isConnLoad(ev.Recv) {
		switch ev.Method.Name() {
		case "Write", "ReadFrom":
			return true, true
		}
		return false, false
	}
	if ev.Static != nil && !t.c.P.InPkg(ev.Static) {
		for _, a := range ev.Args {
			if t.isConnLoad(a) {
				return true, true // conn handed to external code as a writer (e.g. net.Buffers.WriteTo)
			}
		}
		return false, false
	}
	if ev.Static != nil && t.unprot[ev.Static] {
		return false, true
	}
	return false, false
}

// candidates: functions whose bodies mention Conn.conn or call an unprotected helper.
func (t *transport) candidates() []*ssa.Function {
	var out []*ssa.Function
	for _, fn := range t.c.P.FuncList {
		hit := false
		for _, b := range fn.Blocks {
			for _, in := range b.Instrs {
				if fa, ok := in.(*ssa.FieldAddr); ok {
					st := fa.X.Type().Underlying().(*types.Pointer).Elem().Underlying().(*types.Struct)
					if st.Field(fa.Field) == t.conn {
						hit = true
					}
				}
				if ci, ok := in.(ssa.CallInstruction); ok {
					if f := ci.Common().StaticCallee(); f != nil && t.unprot[f] {
						hit = true
					}
				}
			}
		}
		if hit {
			out = append(out, fn)
		}
	}
	return out
}

func (t *transport) opts() core.Opts {
	return core.Opts{RecordLoads: true, Unroll: 0, NonNilOnNilErr: true,
		Inline: func(f *ssa.Function, d int) bool { return f == t.writeFatal }}
}

// classify computes the unprotected-helper set (fixpoint) and the set of
// functions with protected write sites.
func (t *transport) classify(rule string) {
	for round := 0; round < 6; round++ {
		changed := false
		for _, fn := range t.candidates() {
			if t.unprot[fn] {
				continue
			}
			unprotHere, hasSite := false, false
			t.c.explore(rule, fn, t.opts(), func(p *core.Path) {
				for i := range p.Events {
					if _, is := t.writeEvent(&p.Events[i]); is && own(&p.Events[i]) {
						hasSite = true
						if _, ok := muAcquire(p, t.mu, i); !ok {
							unprotHere = true
						}
					}
				}
			})
			if hasSite {
				t.sites[fn] = true
			}
			if unprotHere {
				t.unprot[fn] = true
				changed = true
			}
		}
		if !changed {
			break
		}
	}
}

func init() {
	register("C09", "Decides the lock protocol that makes a close frame the last thing written: every transport write happens inside a critical section of the channel mutex that re-checks the sticky write error after acquiring it and records close-sent before releasing it; the sticky error is never cleared.", c09)
}

func c09(c *Ctx) {
	r := c.R
	r.Rule("C09.writers", "every call that puts bytes on Conn.conn (Write on it, or handing it to external code as a writer) is either inside a critical section of Conn.mu in the same function or in an unexported helper all of whose callers hold Conn.mu at the call")
	r.Rule("C09.protocol", "on every path to a transport write: acquire(mu) < Lock(writeErrMu) < load writeErr < Unlock < branch on that load being nil < write; mu is released exactly once on every path that acquired it")
	r.Rule("C09.close-recorded", "on every path where a transport write succeeded and the frame may be a close frame, the sticky error is set (writeFatal of a non-nil value) before mu is released")
	r.Rule("C09.opcode-agrees", "the value compared with CloseMessage after the write is the opcode that was put into byte 0 of the written frame (callers of write pass the frame type they rendered with)")
	r.Rule("C09.frame-private", "the control frame a WriteControl call writes is the one it built: the frame is assembled in memory private to the call, so a queued ping cannot end up writing a close frame's bytes without the close being recorded (same rule as C08.reply-private)")
	newTransport(c).noSharedBeforeLock("C09.frame-private")
	r.Rule("C09.prepared-type", "the frame type WritePreparedMessage hands to write (which decides whether the close is recorded) is the type the cached frame was rendered with: every variant is rendered by WriteMessage(pm.messageType, pm.data) and frame() returns pm.messageType (same rules as C19.key-complete, C19.cache)")
	c.borrow(c19, map[string]string{"C19.key-complete": "C09.prepared-type", "C19.cache": "C09.prepared-type"})
	r.Rule("C09.sticky-write", "every store to Conn.writeErr is guarded by a test that the current value is nil and stores a value that is not the nil constant; writeErr is stored nowhere else")
	r.Rule("C09.early-check", "beginMessage returns the sticky error before touching the message writer or the buffer")
	r.Assume("Go channel and sync.Mutex happens-before semantics")
	r.Assume("the application does not write to the raw connection obtained through NetConn()/UnderlyingConn()")
	r.Assume("handshake writes in DialContext/Upgrade/httpProxyDialer happen before the Conn is published (they use the local net.Conn, not Conn.conn)")
	t := newTransport(c)
	t.classify("C09.writers")

	// --- C09.writers: unprotected helpers must be private and fully wrapped
	nSites := 0
	for _, fn := range c.P.FuncList {
		if !t.sites[fn] {
			continue
		}
		nSites++
		name := shortFn(fn)
		if !t.unprot[fn] {
			r.Pass("C09.writers", name, "transport-write-under-mu", fn.Pos(), "every transport write in this function is preceded by acquisition of Conn.mu on every path")
			continue
		}
		// helper: all uses must be static calls from functions in sites
		ok, why := true, "unexported helper; every caller holds Conn.mu at the call site"
		if fn.Object() != nil && fn.Object().Exported() {
			ok, why = false, "exported function writes to the transport without holding Conn.mu"
		}
		callers := 0
		for _, g := range c.P.FuncList {
			for _, b := range g.Blocks {
				for _, in := range b.Instrs {
					for _, op := range in.Operands(nil) {
						if *op != ssa.Value(fn) {
							continue
						}
						ci, isCall := in.(ssa.CallInstruction)
						if !isCall || ci.Common().Value != ssa.Value(fn) {
							ok, why = false, "helper that writes without the lock is used as a value in "+shortFn(g)
							continue
						}
						callers++
						if _, isDefer := in.(*ssa.Go); isDefer {
							ok, why = false, "helper started as a goroutine in "+shortFn(g)
						}
						if !t.sites[g] {
							ok, why = false, "caller "+shortFn(g)+" was not analysed as a write site"
						}
					}
				}
			}
		}
		if callers == 0 {
			ok, why = false, "function writes to the transport without holding Conn.mu and has no in-package caller that holds it"
		}
		r.Check("C09.writers", name, "transport-write-helper", fn.Pos(), ok, why)
	}
	r.Floor("C09.writers", 2)

	// --- per protected site: protocol, close-recorded
	for _, fn := range c.P.FuncList {
		if !t.sites[fn] || t.unprot[fn] {
			continue
		}
		t.checkSection(fn, "C09.protocol", "C09.close-recorded")
	}
	r.Floor("C09.protocol", 2)
	r.Floor("C09.close-recorded", 2)

	t.opcodeAgrees()
	t.stickyWrite()
	t.earlyCheck()

	// a writer opened before the close must fail no later than its Close: errors of the final flush reach the caller
	r.Rule("C09.close-error-propagates", "the error of the final flush (ErrCloseSent after a close frame) reaches the result of messageWriter.Close and of the compression wrapper's Close on every path (no dropped error)")
	endMsg := c.fn("(*messageWriter).endMessage")
	sel := func(ev *core.Event) bool { return ev.Static != t.writeFatal && ev.Static != endMsg }
	n := 0
	for _, name := range []string{"(*messageWriter).Close", "(*messageWriter).flushFrame", "(*flateWriteWrapper).Close", "(*Conn).WriteMessage", "(*Conn).WriteJSON", "(*Conn).WritePreparedMessage"} {
		n += c.errMustPropagate("C09.close-error-propagates", c.fn(name), sel, core.Opts{Unroll: 0, Pure: c.pureSet("isControl", "isData")})
	}
	r.Floor("C09.close-error-propagates", 8)
}

// checkSection verifies the critical-section protocol in fn.
func (t *transport) checkSection(fn *ssa.Function, protoRule, closeRule string) {
	c, r := t.c, t.c.R
	name := shortFn(fn)
	type verdict struct {
		ok  bool
		why string
	}
	proto := verdict{true, "acquire(mu) < Lock(writeErrMu) < load(writeErr) < Unlock < [writeErr == nil] < write on every path"}
	rel := verdict{true, "mu released exactly once on every path that acquired it, never without acquisition"}
	closeRec := verdict{true, "after a successful write, either the frame type is refuted to be CloseMessage or writeErr is set before mu is released"}
	nWritePaths := 0
	c.explore(protoRule, fn, t.opts(), func(p *core.Path) {
		if p.End == core.EndCut {
			return
		}
		acqAny, hasAcq := muAcquire(p, t.mu, len(p.Events))
		rels := muReleases(p, t.mu)
		if hasAcq && p.End == core.EndReturn {
			if len(rels) != 1 || rels[0] < acqAny {
				rel = verdict{false, fmt.Sprintf("path acquires Conn.mu but releases it %d time(s) before returning (path ends at %s)", len(rels), c.P.Pos(p.Ret.Pos()))}
			}
		}
		if !hasAcq && len(rels) > 0 {
			rel = verdict{false, "path releases Conn.mu (send) without having acquired it"}
		}
		for i := range p.Events {
			ev := &p.Events[i]
			if _, is := t.writeEvent(ev); !is || !own(ev) {
				continue
			}
			nWritePaths++
			acq, ok := muAcquire(p, t.mu, i)
			if !ok {
				proto = verdict{false, "transport write at " + c.P.Pos(ev.Instr.Pos()) + " reachable without holding Conn.mu"}
				continue
			}
			// the sticky error must be (re)loaded after acquisition, under writeErrMu, and tested nil
			var loadIdx, lockIdx, unlockIdx = -1, -1, -1
			var loaded *core.Term
			for k := acq + 1; k < i; k++ {
				e := &p.Events[k]
				if e.Kind == core.EvLoad && isFieldAddr(e.Addr, t.writeErr) {
					loadIdx, loaded = k, e.Val
				}
				if callsExt(e, "(*sync.Mutex).Lock") && len(e.Args) == 1 && isFieldAddr(e.Args[0], t.writeErrMu) && loadIdx < 0 {
					lockIdx = k
				}
				if callsExt(e, "(*sync.Mutex).Unlock") && len(e.Args) == 1 && isFieldAddr(e.Args[0], t.writeErrMu) && loadIdx >= 0 && unlockIdx < 0 {
					unlockIdx = k
				}
			}
			switch {
			case loadIdx < 0:
				proto = verdict{false, "no load of Conn.writeErr between acquiring Conn.mu and the transport write at " + c.P.Pos(ev.Instr.Pos()) + " (sticky error not re-checked inside the lock)"}
			case lockIdx < 0 || unlockIdx < 0:
				proto = verdict{false, "load of Conn.writeErr inside the critical section is not bracketed by writeErrMu.Lock/Unlock"}
			case !hasLit(p, ev.NLits, true, func(x *core.Term) bool { return isEqNil(x, func(y *core.Term) bool { return y == loaded }) }):
				proto = verdict{false, "transport write at " + c.P.Pos(ev.Instr.Pos()) + " is not guarded by [writeErr == nil] on the value loaded inside the lock"}
			}
			// close-recorded
			if !t.writeSucceeded(p, ev) {
				continue
			}
			end := len(p.Events)
			for _, ri := range rels {
				if ri > i {
					end = ri
					break
				}
			}
			recorded := false
			for k := i + 1; k < end; k++ {
				e := &p.Events[k]
				if e.Kind == core.EvStore && isFieldAddr(e.Addr, t.writeErr) && !e.Val.IsNil() {
					recorded = true
				}
			}
			refuted := false
			for k := ev.NLits; k < len(p.Lits); k++ {
				l := p.Lits[k]
				if !l.Pos && isEqConst(l.T, t.closeMsg, func(*core.Term) bool { return true }) {
					refuted = true
				}
			}
			// the value compared with CloseMessage is known to be another constant on this path (the comparison
			// itself was folded and left no literal): a parameter that the function compares with CloseMessage
			for _, l := range p.Lits {
				if !l.Pos || l.T.Kind != core.KEq || l.T.Args[0].Kind != core.KParam {
					continue
				}
				prm, _ := l.T.Args[0].Ref.(*ssa.Parameter)
				if v, isK := l.T.Args[1].Int64(); isK && v != t.closeMsg && prm != nil && comparedWithConst(prm, t.closeMsg) {
					refuted = true
				}
			}
			if !recorded && !refuted {
				closeRec = verdict{false, "path with a successful transport write at " + c.P.Pos(ev.Instr.Pos()) + " releases Conn.mu without setting writeErr and without excluding that the frame is a close frame"}
			}
		}
	})
	if nWritePaths == 0 {
		proto = verdict{false, "no path with a transport write found (function was classified as a write site)"}
	}
	r.Check(protoRule, name, "critical-section-order", fn.Pos(), proto.ok, proto.why)
	r.Check(protoRule, name, "mu-release-once", fn.Pos(), rel.ok, rel.why)
	if closeRule != "" {
		r.Check(closeRule, name, "close-sent-before-release", fn.Pos(), closeRec.ok, closeRec.why)
	}
}

// writeSucceeded: the path carries the literal that the write's error is nil.
func (t *transport) writeSucceeded(p *core.Path, ev *core.Event) bool {
	res := ev.Result
	if res == nil {
		return false
	}
	return hasLit(p, len(p.Lits), true, func(x *core.Term) bool {
		return isEqNil(x, func(y *core.Term) bool {
			return y == res || (y.Kind == core.KExtract && y.Args[0] == res)
		})
	})
}

// comparedWithConst: the parameter is compared (==, !=, switch) with the constant k somewhere in its function.
func comparedWithConst(prm *ssa.Parameter, k int64) bool {
	for _, ref := range *prm.Referrers() {
		b, ok := ref.(*ssa.BinOp)
		if !ok || (b.Op != token.EQL && b.Op != token.NEQ) {
			continue
		}
		for _, side := range []ssa.Value{b.X, b.Y} {
			if c, isC := side.(*ssa.Const); isC && c.Value != nil && c.Value.Kind() == constant.Int {
				if v, exact := constant.Int64Val(c.Value); exact && v == k {
					return true
				}
			}
		}
	}
	return false
}
