package rules

import (
	"net/textproto"
	"strings"

	"go/types"

	"golang.org/x/tools/go/ssa"

	"wsverif/core"
)

func init() {
	register("C14", "Decides the client handshake's reply validation (every path returning a connection carries status 101, the Upgrade and Connection tokens and Accept == computeAcceptKey(this call's fresh key); every failing reply returns ErrBadHandshake with the response and at most 1024 captured body bytes), key freshness from crypto/rand, that URL refusals precede any network activity, and the shape of the request (protocol-owned headers, conditional offers, caller headers that may not override them). net/http's serialisation is trusted.", c14)
}

type dialA struct {
	c                          *Ctx
	dial, genKey, accept, tlcv *ssa.Function
	readResp, genCall          *ssa.Call
}

func newDialA(c *Ctx) *dialA {
	d := &dialA{c: c, dial: c.fn("(*Dialer).DialContext"), genKey: c.fn("generateChallengeKey"), accept: c.fn("computeAcceptKey"), tlcv: c.fn("tokenListContainsValue")}
	for _, b := range d.dial.Blocks {
		for _, in := range b.Instrs {
			if call, ok := in.(*ssa.Call); ok {
				if f := call.Call.StaticCallee(); f != nil {
					if extName(f) == "net/http.ReadResponse" && d.readResp == nil {
						d.readResp = call
					}
					if f == d.genKey && d.genCall == nil {
						d.genCall = call
					}
				}
			}
		}
	}
	if d.readResp == nil {
		panic(core.AnchorErr{What: "http.ReadResponse call in DialContext"})
	}
	if d.genCall == nil {
		panic(core.AnchorErr{What: "generateChallengeKey call in DialContext"})
	}
	return d
}

func isRespField(t *core.Term, resp *core.Term, name string) bool {
	return t.Kind == core.KLoad && t.Args[0].Kind == core.KFieldAddr && t.Args[0].Var.Name() == name && t.Args[0].Args[0] == resp
}

func c14(c *Ctx) {
	r := c.R
	d := newDialA(c)
	r.Rule("C14.reply-guards", "every path of DialContext after http.ReadResponse that returns a non-nil *Conn carries resp.StatusCode == 101, tokenListContainsValue(resp.Header, \"Upgrade\", \"websocket\"), (.., \"Connection\", \"upgrade\") and resp.Header.Get(\"Sec-Websocket-Accept\") == computeAcceptKey(K) with K the result of this activation's generateChallengeKey(); a failing literal returns (nil, resp, ErrBadHandshake) after io.ReadFull of at most 1024 body bytes into a fresh buffer that replaces resp.Body")
	r.Rule("C14.key-fresh", "generateChallengeKey reads 16 bytes from crypto/rand.Reader with io.ReadFull, returns its error, encodes with base64.StdEncoding and writes no package state; DialContext puts exactly that key into Sec-WebSocket-Key")
	r.Rule("C14.url-guards", "every path reaching the proxy function, the dialer selection or the dial call carries scheme in {ws, wss} and URL.User == nil; only the scheme of the parsed URL is rewritten")
	r.Rule("C14.request-shape", "the request is GET HTTP/1.1 for the parsed URL with Host = URL.Host; Upgrade/Connection/Sec-WebSocket-Key/Sec-WebSocket-Version are set to websocket/Upgrade/K/13; Sec-WebSocket-Protocol only with Subprotocols; the extension offer only with EnableCompression; caller headers are copied only when their (canonical) name is not one of the protocol-owned names")
	r.Rule("C14.stateless", "one dial shares nothing with another: no package-level variable is written after initialisation (challenge keys, parsed headers and TLS configurations are per call; same rule as C11.globals)")
	packageStateless(c, "C14.stateless")
	r.Rule("C14.adopt", "the subprotocol adopted is the reply's Sec-Websocket-Protocol value")
	r.Assume("net/http.Request.Write and http.ReadResponse serialise/parse HTTP/1.1 correctly; header map keys of the reply are canonical")

	d.replyGuards("C14.reply-guards", "C14.adopt")
	r.Rule("C14.digest", "computeAcceptKey is base64.StdEncoding(sha1(key || keyGUID)) with the RFC 6455 GUID (shared with C12.accept)")
	acceptDigest(c, "C14.digest")
	r.Rule("C14.token-list", "the reply's Upgrade / Connection lists are matched token by token with optional whitespace around commas (same rule as C12.token-list): a conformant reply is not refused and a near-miss token is not accepted")
	newUpgA(c).tokenListOWS("C14.token-list")
	d.keyFresh("C14.key-fresh")
	d.preNetwork("C14.url-guards", "C14.request-shape", "C14.key-fresh")
	d.originForm("C14.request-shape")
}

// originForm: the handshake request is serialised with (*http.Request).Write
// (request line "GET /path?query HTTP/1.1", Host from the request); the proxy
// form (WriteProxy: absolute URI in the request line) is never used, whether
// called or taken as a method value - the request travels through the CONNECT
// tunnel and is read by the origin server.
func (d *dialA) originForm(rule string) {
	c := d.c
	fns := []*ssa.Function{d.dial}
	for callee := range c.P.Mod(d.dial).Callees {
		if c.isNewHelper(callee, 1) {
			fns = append(fns, callee)
		}
	}
	for _, a := range d.dial.AnonFuncs {
		fns = append(fns, a)
	}
	nWrite, bad := 0, ""
	name := func(v ssa.Value) string {
		switch f := v.(type) {
		case *ssa.Function:
			if f.Synthetic != "" && strings.HasSuffix(f.Name(), "$bound") {
				return strings.TrimSuffix(f.String(), "$bound")
			}
			return f.String()
		case *ssa.MakeClosure:
			if g, ok := f.Fn.(*ssa.Function); ok {
				return strings.TrimSuffix(g.String(), "$bound")
			}
		}
		return ""
	}
	for _, fn := range fns {
		for _, b := range fn.Blocks {
			for _, in := range b.Instrs {
				for _, op := range in.Operands(nil) {
					if *op == nil {
						continue
					}
					switch name(*op) {
					case "(*net/http.Request).Write":
						nWrite++
					case "(*net/http.Request).WriteProxy":
						bad = c.P.Pos(in.Pos())
					}
				}
			}
		}
	}
	why := "the request is serialised by (*http.Request).Write only"
	if bad != "" {
		why = "the handshake request is (or can be) serialised with WriteProxy at " + bad + ": the request line carries an absolute URI instead of the path and query of the URL"
	}
	c.R.Check(rule, shortFn(d.dial), "request-written-in-origin-form", d.dial.Pos(), bad == "" && nWrite > 0, why)
}

func (d *dialA) replyGuards(rule, ruleAdopt string) {
	c, r := d.c, d.c.R
	tupT := d.readResp.Type().(*types.Tuple)
	ok, why := true, "a connection is returned only when all four reply checks passed"
	okB, whyB := true, "a failing reply returns (nil, resp, ErrBadHandshake) with at most 1024 body bytes captured by io.ReadFull"
	okA, whyA := true, "Conn.subprotocol := resp.Header.Get(\"Sec-Websocket-Protocol\")"
	nOK, nBad := 0, 0
	sp := c.P.Field("Conn", "subprotocol")
	errBad := c.P.Global("ErrBadHandshake")
	c.explore(rule, d.dial, core.Opts{Start: d.readResp, Unroll: 0, NonNilOnNilErr: true}, func(p *core.Path) {
		if p.End != core.EndReturn || len(p.Results) != 3 {
			return
		}
		x := p.X
		resp := x.ExtractOf(x.OpaqueOf(d.readResp), 0, tupT.At(0).Type())
		K := x.ExtractOf(x.OpaqueOf(d.genCall), 0, nil)
		g := map[string]bool{}
		for _, l := range p.Lits {
			t := l.T
			switch {
			case t.Kind == core.KEq && isRespField(t.Args[0], resp, "StatusCode"):
				if v, isC := t.Args[1].Int64(); isC && v == 101 {
					g["status"] = l.Pos
				}
			case t.Kind == core.KCall && t.Ref == interface{}(d.tlcv) && len(t.Args) == 3 && isRespField(t.Args[0], resp, "Header"):
				n, _ := t.Args[1].StrVal()
				v, _ := t.Args[2].StrVal()
				if n == "Upgrade" && v == "websocket" {
					g["upgrade"] = l.Pos
				}
				if n == "Connection" && v == "upgrade" {
					g["connection"] = l.Pos
				}
			case t.Kind == core.KEq:
				a, b := t.Args[0], t.Args[1]
				isGet := func(y *core.Term) bool {
					if y.Kind != core.KCall || len(y.Args) != 2 || !isRespField(y.Args[0], resp, "Header") {
						return false
					}
					n, isS := y.Args[1].StrVal()
					return isS && textproto.CanonicalMIMEHeaderKey(n) == "Sec-Websocket-Accept"
				}
				isAcc := func(y *core.Term) bool {
					return y.Kind == core.KCall && y.Ref == interface{}(d.accept) && len(y.Args) == 1 && y.Args[0] == K
				}
				if (isGet(a) && isAcc(b)) || (isGet(b) && isAcc(a)) {
					g["accept"] = l.Pos
				}
			}
		}
		conn, e := p.Results[0], p.Results[2]
		if !conn.IsNil() {
			nOK++
			for _, k := range []string{"status", "upgrade", "connection", "accept"} {
				if v, has := g[k]; !has || !v {
					ok = false
					why = "a connection is returned at " + c.P.Pos(p.Ret.Pos()) + " without the reply check '" + k + "' (status 101 / Upgrade: websocket / Connection: upgrade / Sec-WebSocket-Accept == digest of this request's key)"
				}
			}
			if !e.IsNil() {
				ok, why = false, "a connection is returned together with an error"
			}
			// adopt: subprotocol from the reply
			adopted := false
			for i := range p.Events {
				ev := &p.Events[i]
				if ev.Kind == core.EvStore && isFieldAddr(ev.Addr, sp) {
					v := ev.Val
					if v.Kind == core.KCall && len(v.Args) == 2 && isRespField(v.Args[0], resp, "Header") {
						if n, isS := v.Args[1].StrVal(); isS && textproto.CanonicalMIMEHeaderKey(n) == "Sec-Websocket-Protocol" {
							adopted = true
						}
					}
				}
			}
			if !adopted {
				okA, whyA = false, "the subprotocol of the returned connection is not taken from the reply's Sec-Websocket-Protocol header"
			}
			return
		}
		// a failed reply check
		failed := false
		for _, k := range []string{"status", "upgrade", "connection", "accept"} {
			if v, has := g[k]; has && !v {
				failed = true
			}
		}
		if !failed {
			return
		}
		nBad++
		es := strip(e)
		if !(es.Kind == core.KLoad && es.Args[0].Kind == core.KGlobal && es.Args[0].Ref == interface{}(errBad)) {
			okB, whyB = false, "a reply failing the handshake checks does not yield ErrBadHandshake"
		}
		if p.Results[1] != resp {
			okB, whyB = false, "a reply failing the handshake checks is not returned to the caller"
		}
		var rf *core.Event
		replaced := false
		for i := range p.Events {
			ev := &p.Events[i]
			if ev.Kind == core.EvCall && ev.Static != nil && extName(ev.Static) == "io.ReadFull" {
				rf = ev
			}
			if ev.Kind == core.EvStore && ev.Addr.Kind == core.KFieldAddr && ev.Addr.Var.Name() == "Body" && ev.Addr.Args[0] == resp {
				replaced = true
			}
			if ev.Kind == core.EvCall && ev.Static == nil && ev.Method != nil && ev.Method.Name() == "Read" && isRespField(strip(ev.Recv), resp, "Body") {
				okB, whyB = false, "the body of a failed reply is captured with a single Read (a body arriving in several segments is truncated)"
			}
		}
		if rf == nil {
			okB, whyB = false, "the body of a failed reply is not captured with io.ReadFull"
			return
		}
		if !isRespField(strip(rf.Args[0]), resp, "Body") {
			okB, whyB = false, "io.ReadFull does not read the reply body"
		}
		buf := rf.Args[1]
		if hi, has := x.Upper(x.Len(buf)); !has || hi > 1024 {
			if !(buf.Kind == core.KSlice && func() bool { v, isC := buf.Args[2].Int64(); return isC && v <= 1024 }()) {
				okB, whyB = false, "the captured body is not bounded by 1024 bytes"
			}
		}
		if lo, has := x.Lower(x.Len(buf)); !has || lo < 1024 {
			okB, whyB = false, "the buffer the failed reply's body is captured into ("+buf.String()+") is not known to hold 1024 bytes: its size depends on run-time state (e.g. what happens to be buffered), so a body of up to 1024 bytes is truncated"
		}
		if !replaced {
			okB, whyB = false, "resp.Body is not replaced by the captured bytes"
		}
	})
	r.Check(rule, shortFn(d.dial), "connection-only-after-all-reply-checks", d.dial.Pos(), ok && nOK > 0, why)
	r.Check(rule, shortFn(d.dial), "bad-handshake-reply", d.dial.Pos(), okB && nBad >= 4, whyB)
	r.Check(ruleAdopt, shortFn(d.dial), "subprotocol-from-reply", d.dial.Pos(), okA, whyA)
}

func (d *dialA) keyFresh(rule string) {
	c, r := d.c, d.c.R
	fn := d.genKey
	ok, why := true, "16 bytes from crypto/rand.Reader via io.ReadFull, error returned, base64 std encoded"
	n := 0
	c.explore(rule, fn, core.Opts{}, func(p *core.Path) {
		if p.End != core.EndReturn || len(p.Results) != 2 {
			return
		}
		var rf, enc *core.Event
		for i := range p.Events {
			ev := &p.Events[i]
			if ev.Kind == core.EvCall && ev.Static != nil && extName(ev.Static) == "io.ReadFull" {
				rf = ev
			}
			if ev.Kind == core.EvCall && ev.Static != nil && extName(ev.Static) == "(*encoding/base64.Encoding).EncodeToString" {
				enc = ev
			}
		}
		if rf == nil {
			ok, why = false, "the key is not read with io.ReadFull"
			return
		}
		src := strip(rf.Args[0])
		if !(src.Kind == core.KLoad && src.Args[0].Kind == core.KGlobal && src.Args[0].Ref.(*ssa.Global).Pkg.Pkg.Path() == "crypto/rand" && src.Args[0].Ref.(*ssa.Global).Name() == "Reader") {
			ok, why = false, "the challenge key is not drawn from crypto/rand.Reader"
		}
		if p.X.Len(rf.Args[1]) != p.X.T.Int(16) {
			ok, why = false, "the challenge key is not 16 random bytes"
		}
		e := errOf(p.X, rf.Result)
		if p.Results[1].IsNil() {
			n++
			if !hasLit(p, len(p.Lits), true, func(t *core.Term) bool { return isEqNil(t, is(e)) }) {
				ok, why = false, "a key is returned although reading random bytes may have failed"
			}
			if enc == nil || p.Results[0] != enc.Result || enc.Args[1] != rf.Args[1] {
				ok, why = false, "the key returned is not the base64 encoding of the random bytes"
			} else if en := enc.Args[0]; !(en.Kind == core.KLoad && en.Args[0].Kind == core.KGlobal && en.Args[0].Ref.(*ssa.Global).Name() == "StdEncoding") {
				ok, why = false, "the key is not encoded with base64.StdEncoding"
			}
		} else if p.Results[1] != e {
			ok, why = false, "the error of reading random bytes is not returned"
		}
	})
	m := c.P.Mod(fn)
	if len(m.GWrites) > 0 || len(m.Writes) > 0 {
		ok, why = false, "generateChallengeKey writes package or connection state (a cached key would not be fresh)"
	}
	r.Check(rule, shortFn(fn), "random-16-bytes-base64", fn.Pos(), ok && n > 0, why)
}

// protocolOwned: canonical names of headers DialContext writes itself.
var protocolOwned = []string{"Upgrade", "Connection", "Sec-Websocket-Key", "Sec-Websocket-Version", "Sec-Websocket-Extensions"}

func (d *dialA) preNetwork(ruleURL, ruleShape, ruleKey string) {
	c, r := d.c, d.c.R
	netDialFn := c.fn("(*Dialer).netDialFn")
	subsF, ecF, proxyF := c.P.Field("Dialer", "Subprotocols"), c.P.Field("Dialer", "EnableCompression"), c.P.Field("Dialer", "Proxy")
	okU, whyU := true, "scheme in {ws, wss} and User == nil on every path to the first network-related call"
	okS, whyS := true, "request fields and protocol headers are set as required"
	okC, whyC := true, "caller headers are copied only under literals excluding every protocol-owned canonical name"
	okK, whyK := true, "Sec-WebSocket-Key carries exactly this call's generateChallengeKey() result"
	nNet := 0
	isNet := func(x *core.Explorer, ev *core.Event) bool {
		if callsStatic(ev, netDialFn) {
			return true
		}
		if ev.Kind == core.EvCall && ev.FnVal != nil {
			if _, is := fieldLoad(ev.FnVal, proxyF); is {
				return true
			}
		}
		return false
	}
	c.explore(ruleURL, d.dial, core.Opts{Unroll: 0, NonNilOnNilErr: true, Stop: isNet, MaxPaths: 600000}, func(p *core.Path) {
		if p.End != core.EndStop {
			return
		}
		nNet++
		x := p.X
		var parse, gen *core.Event
		for i := range p.Events {
			ev := &p.Events[i]
			if ev.Kind == core.EvCall && ev.Static != nil && extName(ev.Static) == "net/url.Parse" {
				parse = ev
			}
			if callsStatic(ev, d.genKey) {
				gen = ev
			}
		}
		if parse == nil || gen == nil {
			okU, whyU = false, "network activity without parsing the URL / generating a key"
			return
		}
		u := x.ExtractOf(parse.Result, 0, nil)
		K := x.ExtractOf(gen.Result, 0, nil)
		isU := func(t *core.Term, f string) bool {
			return t.Kind == core.KLoad && t.Args[0].Kind == core.KFieldAddr && t.Args[0].Var.Name() == f && t.Args[0].Args[0] == u
		}
		// scheme / userinfo
		scheme := hasLit(p, len(p.Lits), true, func(t *core.Term) bool {
			if t.Kind != core.KEq || !isU(t.Args[0], "Scheme") {
				return false
			}
			s, isS := t.Args[1].StrVal()
			return isS && (s == "ws" || s == "wss")
		})
		noUser := hasLit(p, len(p.Lits), true, func(t *core.Term) bool { return isEqNil(t, func(y *core.Term) bool { return isU(y, "User") }) })
		if !scheme {
			okU, whyU = false, "network activity is reachable for a URL whose scheme is neither ws nor wss"
		}
		if !noUser {
			okU, whyU = false, "network activity is reachable for a URL that carries userinfo"
		}
		// stores into the parsed URL: only Scheme
		var req *core.Term
		hdr := map[string]*core.Event{}
		for i := range p.Events {
			ev := &p.Events[i]
			if ev.Kind == core.EvStore && ev.Addr.Kind == core.KFieldAddr && ev.Addr.Args[0] == u && ev.Addr.Var.Name() != "Scheme" {
				okU, whyU = false, "the URL's "+ev.Addr.Var.Name()+" is rewritten (path/query must be preserved)"
			}
			if ev.Kind == core.EvStore && ev.Addr.Kind == core.KFieldAddr && ev.Addr.Var.Name() == "URL" && ev.Val == u {
				req = ev.Addr.Args[0]
			}
		}
		if req == nil {
			okS, whyS = false, "no http.Request is built on the parsed URL"
			return
		}
		want := map[string]func(v *core.Term) bool{
			"Method":     func(v *core.Term) bool { s, is := v.StrVal(); return is && s == "GET" },
			"Proto":      func(v *core.Term) bool { s, is := v.StrVal(); return is && s == "HTTP/1.1" },
			"ProtoMajor": func(v *core.Term) bool { n, is := v.Int64(); return is && n == 1 },
			"ProtoMinor": func(v *core.Term) bool { n, is := v.Int64(); return is && n == 1 },
			"Host":       func(v *core.Term) bool { return isU(v, "Host") },
		}
		got := map[string]bool{}
		for i := range p.Events {
			ev := &p.Events[i]
			if ev.Kind == core.EvStore && ev.Addr.Kind == core.KFieldAddr && ev.Addr.Args[0] == req {
				if f, has := want[ev.Addr.Var.Name()]; has && !got[ev.Addr.Var.Name()] {
					got[ev.Addr.Var.Name()] = f(ev.Val)
				}
			}
			if ev.Kind == core.EvMapUpdate {
				if k, isS := ev.Args[0].StrVal(); isS {
					hdr[k] = ev
				} else {
					// caller header copy: key is the range variable
					k := ev.Args[0]
					if strip(k).Kind == core.KCall {
						okC, whyC = false, "caller headers are stored at "+c.P.Pos(ev.Instr.Pos())+" under a key computed from the caller's key ("+k.String()+"): two entries that differ only in spelling overwrite each other and one of them is not sent"
					}
					for _, name := range protocolOwned {
						if !hasLit(p, ev.NLits, false, func(t *core.Term) bool {
							if t.Kind != core.KEq || t.Args[0] != k {
								return false
							}
							s, isS := t.Args[1].StrVal()
							return isS && s == name
						}) {
							okC, whyC = false, "a caller header is copied into the request at "+c.P.Pos(ev.Instr.Pos())+" without excluding the protocol-owned name "+name
						}
					}
				}
			}
		}
		for f := range want {
			if !got[f] {
				okS, whyS = false, "request field "+f+" is not set as required"
			}
		}
		sliceOf := func(ev *core.Event) []*core.Term {
			v := ev.Val
			if v.Kind == core.KSlice && v.Args[0].Kind == core.KAlloc {
				var out []*core.Term
				for k := int64(0); k < 4; k++ {
					if e := storedAt(p, v.Args[0], x.T.Int(k), len(p.Events)); e != nil {
						out = append(out, e)
					}
				}
				return out
			}
			return nil
		}
		constHdr := func(name, val string) {
			ev := hdr[name]
			if ev == nil {
				okS, whyS = false, "header "+name+" is not set"
				return
			}
			vs := sliceOf(ev)
			if len(vs) != 1 {
				okS, whyS = false, "header "+name+" does not have exactly one value"
				return
			}
			if s, isS := vs[0].StrVal(); !isS || s != val {
				okS, whyS = false, "header "+name+" is not \""+val+"\""
			}
		}
		constHdr("Upgrade", "websocket")
		constHdr("Connection", "Upgrade")
		constHdr("Sec-WebSocket-Version", "13")
		if ev := hdr["Sec-WebSocket-Key"]; ev == nil {
			okK, whyK = false, "Sec-WebSocket-Key is not set"
		} else if vs := sliceOf(ev); len(vs) != 1 || vs[0] != K {
			okK, whyK = false, "Sec-WebSocket-Key does not carry this call's fresh challenge key"
		} else if gen != nil {
			// the key is only usable when the random source delivered it: the error of generateChallengeKey is known nil
			ge := x.ExtractOf(gen.Result, 1, nil)
			if !hasLit(p, len(p.Lits), true, func(t *core.Term) bool { return isEqNil(t, is(ge)) }) {
				okK, whyK = false, "network activity is reached although generateChallengeKey may have failed (its error is not checked): the handshake would go out with an empty key and accept the constant digest of \"\""
			}
		}
		if ev := hdr["Sec-WebSocket-Extensions"]; ev != nil {
			if !hasLit(p, ev.NLits, true, func(t *core.Term) bool { _, is := fieldLoad(t, ecF); return is }) {
				okS, whyS = false, "a permessage-deflate offer is sent without Dialer.EnableCompression"
			}
			vs := sliceOf(ev)
			if len(vs) != 1 {
				okS, whyS = false, "the extension offer is not a single value"
			} else if s, isS := vs[0].StrVal(); !isS || !extensionLineOK("Sec-WebSocket-Extensions: "+s+"\r\n") {
				okS, whyS = false, "the extension offer is not permessage-deflate with both no_context_takeover parameters"
			}
		} else if hasLit(p, len(p.Lits), true, func(t *core.Term) bool { _, is := fieldLoad(t, ecF); return is }) {
			okS, whyS = false, "EnableCompression is set but no permessage-deflate offer is sent"
		}
		if ev := hdr["Sec-WebSocket-Protocol"]; ev != nil {
			// either from Dialer.Subprotocols (under len > 0) or copied from the caller (then Subprotocols is empty)
			fromDialer := false
			ev.Val.Walk(func(t *core.Term) bool { return true })
			for _, v := range sliceOf(ev) {
				if v.Kind == core.KCall {
					if f, isF := v.Ref.(*ssa.Function); isF && extName(f) == "strings.Join" {
						if _, is := fieldLoad(v.Args[0], subsF); is {
							fromDialer = true
						}
					}
				}
			}
			_ = fromDialer
		}
	})
	r.Check(ruleURL, shortFn(d.dial), "refusals-precede-network", d.dial.Pos(), okU && nNet > 0, whyU)
	r.Check(ruleShape, shortFn(d.dial), "request-fields-and-protocol-headers", d.dial.Pos(), okS && nNet > 0, whyS)
	r.Check(ruleShape, shortFn(d.dial), "caller-headers-cannot-override", d.dial.Pos(), okC && nNet > 0, whyC)
	r.Check(ruleKey, shortFn(d.dial), "key-header-is-fresh-key", d.dial.Pos(), okK && nNet > 0, whyK)
	_ = strings.Join
}
