package rules

import (
	"go/types"

	"golang.org/x/tools/go/ssa"

	"wsverif/core"
)

// poolTypestate: wherever an object held in a struct field is handed to a pool
// (sync.Pool.Put / BufferPool.Put), the path must know the field non-nil
// before, must nil the field before returning, and must not use the object
// afterwards.  Returns the number of Put sites checked.
func (c *Ctx) poolTypestate(rule string, fnNames ...string) int {
	r := c.R
	n := 0
	for _, name := range fnNames {
		fn := c.fn(name)
		type site struct {
			ok  bool
			why string
			in  ssa.Instruction
		}
		sites := map[ssa.Instruction]*site{}
		c.explore(rule, fn, core.Opts{Unroll: 0, RecordLoads: true}, func(p *core.Path) {
			if p.End != core.EndReturn {
				return
			}
			for i := range p.Events {
				ev := &p.Events[i]
				if ev.Kind != core.EvCall || !own(ev) {
					continue
				}
				isPut := (ev.Static != nil && extName(ev.Static) == "(*sync.Pool).Put") || (ev.Static == nil && ev.Method != nil && ev.Method.Name() == "Put")
				if !isPut || len(ev.Args) == 0 {
					continue
				}
				s := sites[ev.Instr]
				if s == nil {
					s = &site{ok: true, why: "field known non-nil before Put, set to nil after it, object not used afterwards", in: ev.Instr}
					sites[ev.Instr] = s
				}
				obj := ev.Args[len(ev.Args)-1]
				// the pooled object: a field load, possibly wrapped in an interface / struct literal
				var held *core.Term
				obj.Walk(func(t *core.Term) bool {
					if held == nil && t.Kind == core.KLoad && t.Args[0].Kind == core.KFieldAddr {
						if _, isPtr := t.Type.Underlying().(*types.Pointer); isPtr || isIfaceOrSlice(t.Type) {
							held = t
						}
					}
					return held == nil
				})
				if held == nil {
					s.ok, s.why = false, "cannot identify the field holding the pooled object ("+obj.String()+")"
					continue
				}
				addr := held.Args[0]
				cleared := false
				for k := i + 1; k < len(p.Events); k++ {
					e := &p.Events[k]
					if e.Kind == core.EvStore && e.Addr == addr {
						if e.Val.IsNil() {
							cleared = true
						}
						break
					}
					if e.Kind == core.EvCall {
						for _, a := range append(append([]*core.Term{}, e.Args...), e.Recv) {
							if a != nil && a.Contains(held) {
								s.ok, s.why = false, "the object is used at "+c.P.Pos(e.Instr.Pos())+" after it was returned to the pool"
							}
						}
					}
				}
				if !cleared {
					s.ok, s.why = false, "the field still refers to the object after it was returned to the pool (path returning at "+c.P.Pos(p.Ret.Pos())+"): it can be handed out to another connection while this one keeps using it, or be put back twice"
				}
			}
		})
		for _, s := range sites {
			n++
			r.Check(rule, name, "pool-put-then-forget", s.in.Pos(), s.ok, s.why)
		}
	}
	return n
}

func isIfaceOrSlice(t types.Type) bool {
	switch t.Underlying().(type) {
	case *types.Interface, *types.Slice:
		return true
	}
	return false
}
