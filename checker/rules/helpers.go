package rules

import (
	"go/constant"
	"go/types"
	"strings"

	"golang.org/x/tools/go/ssa"

	"wsverif/core"
)

// fieldLoad: is t a load (any version) of struct field f?  Returns the base.
func fieldLoad(t *core.Term, f *types.Var) (base *core.Term, ok bool) {
	if t != nil && t.Kind == core.KLoad && t.Args[0].Kind == core.KFieldAddr && t.Args[0].Var == f {
		return t.Args[0].Args[0], true
	}
	return nil, false
}

// isFieldAddr: is t the address of field f?
func isFieldAddr(t *core.Term, f *types.Var) bool {
	return t != nil && t.Kind == core.KFieldAddr && t.Var == f
}

// strip removes conversions and interface boxing.
func strip(t *core.Term) *core.Term {
	for t != nil && (t.Kind == core.KConv || t.Kind == core.KMakeIface) {
		t = t.Args[0]
	}
	return t
}

// mentionsFieldLoad: does t contain a load of field f?
func mentionsFieldLoad(t *core.Term, f *types.Var) bool {
	found := false
	t.Walk(func(x *core.Term) bool {
		if _, ok := fieldLoad(x, f); ok {
			found = true
		}
		return !found
	})
	return found
}

// lit lookup: is there a literal (pred, polarity) among the first n literals?
func hasLit(p *core.Path, n int, pol bool, pred func(t *core.Term) bool) bool {
	if n > len(p.Lits) {
		n = len(p.Lits)
	}
	for i := 0; i < n; i++ {
		if p.Lits[i].Pos == pol && pred(p.Lits[i].T) {
			return true
		}
	}
	return false
}

// isEqNil: t is (x == nil) with x satisfying pred.
func isEqNil(t *core.Term, pred func(x *core.Term) bool) bool {
	return t.Kind == core.KEq && t.Args[1].IsNil() && pred(t.Args[0])
}

// isEqConst: t is (x == c).
func isEqConst(t *core.Term, c int64, pred func(x *core.Term) bool) bool {
	if t.Kind != core.KEq {
		return false
	}
	v, ok := t.Args[1].Int64()
	return ok && v == c && pred(t.Args[0])
}

// callsStatic: event is a (non-deferred-registration) call of fn.
func callsStatic(ev *core.Event, fn *ssa.Function) bool {
	return ev.Kind == core.EvCall && ev.Static == fn
}

// invokes: event is an interface-method call of m.
func invokes(ev *core.Event, m *types.Func) bool {
	return ev.Kind == core.EvCall && ev.Static == nil && ev.Method == m
}

// callsExt: static call of an external function/method with this full name
// (e.g. "(*sync.Mutex).Lock", "io.CopyN").
func callsExt(ev *core.Event, full string) bool {
	return ev.Kind == core.EvCall && ev.Static != nil && ev.Static.Blocks == nil && extName(ev.Static) == full
}

func extName(f *ssa.Function) string {
	if f == nil {
		return ""
	}
	if o := f.Object(); o != nil {
		if fn, ok := o.(*types.Func); ok {
			return fn.FullName()
		}
	}
	return f.String()
}

// muAcquire finds the event index at which the 1-slot channel mutex in field
// mu was acquired before event index upTo: a plain receive, or a select whose
// taken case is the receive on mu.
func muAcquire(p *core.Path, mu *types.Var, upTo int) (int, bool) {
	for i := 0; i < upTo && i < len(p.Events); i++ {
		ev := &p.Events[i]
		switch ev.Kind {
		case core.EvRecv:
			if _, ok := fieldLoad(ev.Addr, mu); ok {
				return i, true
			}
		case core.EvSelect:
			for k, st := range ev.States {
				if st.Send {
					continue
				}
				if _, ok := fieldLoad(st.Chan, mu); !ok {
					continue
				}
				res := ev.Result
				if hasLit(p, len(p.Lits), true, func(t *core.Term) bool {
					return isEqConst(t, int64(k), func(x *core.Term) bool {
						return x.Kind == core.KExtract && x.N == 0 && x.Args[0] == res
					})
				}) {
					return i, true
				}
			}
		}
	}
	return 0, false
}

// muReleases lists event indices that send on the channel mutex.
func muReleases(p *core.Path, mu *types.Var) []int {
	var out []int
	for i := range p.Events {
		ev := &p.Events[i]
		if ev.Kind == core.EvSend {
			if _, ok := fieldLoad(ev.Addr, mu); ok {
				out = append(out, i)
			}
		}
	}
	return out
}

// shortFn trims the package path from diagnostics.
func shortFn(f *ssa.Function) string { return core.FuncName(f) }

func joinNames(fs map[string]bool) string {
	var s []string
	for k := range fs {
		s = append(s, k)
	}
	sortStrings(s)
	return strings.Join(s, ", ")
}

// knowsLt: among the first n literals the path carries x < c (integer comparisons are canonicalised to this form).
func knowsLt(p *core.Path, n int, c int64, pred func(x *core.Term) bool) bool {
	return hasLit(p, n, true, func(t *core.Term) bool {
		v, isC := t.Args1Int()
		return t.Kind == core.KLt && isC && v == c && pred(t.Args[0])
	})
}

// knowsGe: the path carries x >= c.
func knowsGe(p *core.Path, n int, c int64, pred func(x *core.Term) bool) bool {
	return hasLit(p, n, false, func(t *core.Term) bool {
		v, isC := t.Args1Int()
		return t.Kind == core.KLt && isC && v == c && pred(t.Args[0])
	})
}

func is(x *core.Term) func(*core.Term) bool { return func(y *core.Term) bool { return y == x } }

// evalBoolResult evaluates a single-parameter boolean function's path for an
// integer argument: (result, true) if the path's literals hold for that
// argument and the result is evaluable; (_, false) if the path is not taken.
func evalBoolResult(p *core.Path, param *ssa.Parameter, arg int64) (bool, bool) {
	leaf := func(t *core.Term) (constant.Value, bool) {
		if t.Kind == core.KParam && t.Ref == param {
			return constant.MakeInt64(arg), true
		}
		return nil, false
	}
	for _, l := range p.Lits {
		v, ok := p.X.Eval(l.T, leaf)
		if !ok {
			return false, false
		}
		if constant.BoolVal(v) != l.Pos {
			return false, false
		}
	}
	if len(p.Results) != 1 {
		return false, false
	}
	v, ok := p.X.Eval(p.Results[0], leaf)
	if !ok {
		return false, false
	}
	return constant.BoolVal(v), true
}

// isW: like is, but also matches the canonical (widening-stripped) form that comparisons use.
func isW(x *core.Explorer, t *core.Term) func(*core.Term) bool {
	w := x.StripWiden(t)
	return func(y *core.Term) bool { return y == t || y == w }
}

// own: the event belongs to the explored function itself or to a helper that
// did not exist when the rules were written (and was therefore inlined); events
// inside explicitly inlined known functions (writeFatal, setReadRemaining,
// deferred closures) are not "own".
func own(ev *core.Event) bool {
	return ev.Depth == 0 || ev.Fn == nil || !knownFuncs[core.FuncName(ev.Fn)]
}

// ctorStore: the store initialises a field of an object that the same function
// has just created (composite literal / new, or the result of newConn): it
// happens before the object is published.
func ctorStore(st *ssa.Store) bool {
	fa, ok := st.Addr.(*ssa.FieldAddr)
	if !ok {
		return false
	}
	switch x := fa.X.(type) {
	case *ssa.Alloc:
		return true
	case *ssa.Call:
		if f := x.Call.StaticCallee(); f != nil && f.Name() == "newConn" {
			return true
		}
	}
	return false
}
