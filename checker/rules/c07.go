package rules

import (
	"os"
	"fmt"
	"go/types"
	"sort"
	"strings"

	"golang.org/x/tools/go/ssa"

	"wsverif/core"
)

func init() {
	register("C07", "Decides, for every function reachable from network input (frame parser and message reader, handshake response handling, CONNECT reply handling, request-header parsers, origin check, default handlers and WriteControl), that each index, slice, make-size, integer-division, unchecked type-assertion and explicit panic site is discharged on every path by interval/relational facts (branch literals, counting-loop invariants, library facts about lengths), that every loop makes progress (counter, strictly shrinking string, or consumed input), and that allocation sizes are bounded by the input received. Nil dereferences and the internals of imported packages are not decided.", c07)
}

// c07Entries: functions that consume bytes received from the network.
var c07Entries = []string{"(*Conn).NextReader", "(*messageReader).Read", "(*Conn).ReadMessage", "(*Conn).ReadJSON", "(*joinReader).Read",
	"(*flateReadWrapper).Read", "(*flateReadWrapper).Close", "(*Dialer).DialContext", "(*httpProxyDialer).DialContext", "(*Upgrader).Upgrade",
	"checkSameOrigin", "Subprotocols", "IsWebSocketUpgrade", "tokenListContainsValue", "parseExtensions", "nextToken", "nextTokenOrQuoted",
	"skipSpace", "equalASCIIFold", "isValidChallengeKey", "maskBytes", "(*Conn).WriteControl", "FormatCloseMessage", "decompressNoContextTakeover",
	"(*Conn).SetPingHandler$1", "(*Conn).SetCloseHandler$1", "(*Conn).SetPongHandler$1", "hostPortNoPort", "computeAcceptKey", "(*CloseError).Error",
	"IsCloseError", "IsUnexpectedCloseError"}

// stableKey renders a term without path-specific numbers (construct keys).
func stableKey(t *core.Term) string {
	if t == nil {
		return "?"
	}
	switch t.Kind {
	case core.KConst:
		return t.String()
	case core.KParam, core.KFree:
		return strings.TrimPrefix(t.String(), "free:")
	case core.KLoad:
		return strings.TrimPrefix(stableKey(t.Args[0]), "&")
	case core.KFieldAddr:
		return "&" + strings.TrimPrefix(stableKey(t.Args[0]), "&") + "." + t.Var.Name()
	case core.KIndexAddr:
		return "&" + strings.TrimPrefix(stableKey(t.Args[0]), "&") + "[" + stableKey(t.Args[1]) + "]"
	case core.KAlloc:
		a := t.Ref.(*ssa.Alloc)
		if a.Comment != "" {
			return "&" + a.Comment
		}
		return "&local"
	case core.KGlobal:
		return "&" + t.Ref.(*ssa.Global).Name()
	case core.KLen:
		return "len(" + stableKey(t.Args[0]) + ")"
	case core.KCap:
		return "cap(" + stableKey(t.Args[0]) + ")"
	case core.KConv:
		return stableKey(t.Args[0])
	case core.KBin:
		return "(" + stableKey(t.Args[0]) + t.Op.String() + stableKey(t.Args[1]) + ")"
	case core.KExtract:
		return stableKey(t.Args[0]) + "." + fmt.Sprint(t.N)
	case core.KCall:
		return calleeKey(t) + "()"
	case core.KSlice:
		return stableKey(t.Args[0]) + "[" + stableKey(t.Args[1]) + ":" + stableKey(t.Args[2]) + "]"
	case core.KNone:
		return ""
	case core.KFresh:
		return "loopvar"
	case core.KMake:
		if len(t.Args) > 0 {
			return "make(" + stableKey(t.Args[0]) + ")"
		}
		return "make"
	case core.KAppend:
		return "append(" + stableKey(t.Args[0]) + ", " + stableKey(t.Args[1]) + ")"
	case core.KIndex:
		return stableKey(t.Args[0]) + "[" + stableKey(t.Args[1]) + "]"
	case core.KMakeIface:
		return stableKey(t.Args[0])
	case core.KOpaque:
		if v, ok := t.Ref.(ssa.Value); ok {
			if n, isNext := v.(*ssa.Next); isNext {
				_ = n
				return "rangevar"
			}
		}
		return "value"
	}
	return "expr"
}

func calleeKey(t *core.Term) string {
	switch r := t.Ref.(type) {
	case *ssa.Function:
		if r.Blocks == nil {
			return extName(r)
		}
		return core.FuncName(r)
	case *types.Func:
		return r.Name()
	case string:
		return r
	}
	return "call"
}

// c07Table: obligations discharged by review rather than by the analysis.
// Keyed by function + construct (no line numbers); a changed construct no
// longer matches and fails.  These entries are NOT armed: a change behind one
// that keeps the construct text is not detected.
var c07Table = map[string]string{
	"decompressNoContextTakeover / assert expr.0.(Resetter)": "the value comes from flateReaderPool, whose New is flate.NewReader and into which only flate readers are Put; compress/flate documents that NewReader's result implements flate.Resetter; a nil value (comma-ok failed) cannot occur because sync.Pool.Get calls New",
}

type c07site struct {
	fn       *ssa.Function
	in       ssa.Instruction
	kind     string
	key      string
	proven   bool
	failWhy  string
	visited  int
	unproven int
}

type c07state struct {
	c     *Ctx
	sites map[ssa.Instruction]*c07site
	read  *ssa.Function
	rule  string // rule the sites are reported under (default C07.panic-sites)
	floor int
	what  string // consequence clause of a failed site
}

func (st *c07state) ruleName() string {
	if st.rule != "" {
		return st.rule
	}
	return "C07.panic-sites"
}

func c07(c *Ctx) {
	r := c.R
	r.Rule("C07.panic-sites", "every index, slice, make, integer division, slice-to-array conversion, unchecked type assertion and explicit panic in the network-input scope is discharged on every path: 0 <= index < len, 0 <= lo <= hi <= len/cap, size >= 0, divisor != 0, from branch literals, counting-loop invariants (counter >= start, counter <= tested bound) and the listed library facts; undecided sites fail unless a reviewed table entry with the same construct exists")
	r.Rule("C07.progress", "every loop in scope has a progress argument: a counter that increases towards the tested bound, a range loop, a string cursor that strictly shrinks on every back edge (through suffix-preserving helpers), or a successful transport read on every back edge")
	r.Rule("C07.nil-result", "functions in scope that return (value, error) never return a nil value with a nil error: the handshake code dereferences what a dialer, a proxy dialer or a parser handed back after testing only the error")
	r.Rule("C07.alloc", "allocation sizes in scope are constants or linear in the length of data already received (same def-use rule as C06.no-claimed-alloc for frame lengths)")
	r.Assume("io.Reader.Read / bufio.Reader.Read return 0 <= n <= len(p); bufio.Reader.Peek(n) returns at most n bytes and exactly n when err == nil; Buffered() >= 0")
	r.Assume("strings.LastIndex(s, sep) is in [-1, len(s)-len(sep)]; strings.HasPrefix(s, p) implies len(s) >= len(p); strings.SplitN(s, sep, n>0) returns between 1 and n elements")
	r.Assume("utf8.DecodeRuneInString(s) returns 0 <= size <= len(s) and size >= 1 for non-empty s; copy returns min(len(dst), len(src)); binary.BigEndian.Uint16/Uint64/PutUint16/PutUint64 need 2/8 bytes; base64 Encoding.Decode/Encode and hex.Decode/Encode need a destination of DecodedLen/EncodedLen bytes")
	r.Assume("nil-pointer dereferences and panics inside imported packages are out of scope")

	st := &c07state{c: c, sites: map[ssa.Instruction]*c07site{}, read: c.fn("(*Conn).read")}
	scope := st.scope()
	names := make([]string, 0, len(scope))
	for fn := range scope {
		names = append(names, shortFn(fn))
	}
	sort.Strings(names)
	for _, n := range names {
		fn := c.P.Funcs[n]
		// a helper extracted by a later refactoring is analysed inside the functions that call it (explore() inlines
		// it there, with the facts its callers established); analysing it alone would demand guards it never had
		if hs := c.hostsOf(fn); !(len(hs) == 1 && hs[0] == fn) {
			inScope := true
			for _, h := range hs {
				if !scope[h] {
					inScope = false
				}
			}
			if inScope {
				continue
			}
		}
		st.analyse(fn)
	}
	st.report()
	st.explicitPanics(scope)
	st.progress(scope)
	st.alloc(scope)
	st.nilOrError(scope)
	if len(scope) < 35 {
		r.Fail("C07.panic-sites", "", "scope", c.fn("(*Conn).advanceFrame").Pos(), fmt.Sprintf("only %d functions in the network-input scope", len(scope)))
	}
}

// scope: in-package functions reachable from the entry points.
func (st *c07state) scope() map[*ssa.Function]bool {
	c := st.c
	out := map[*ssa.Function]bool{}
	var add func(f *ssa.Function)
	add = func(f *ssa.Function) {
		if f == nil || out[f] || !c.P.InPkg(f) || f.Synthetic != "" {
			return
		}
		out[f] = true
		for g := range c.P.Mod(f).Callees {
			add(g)
		}
		for _, a := range f.AnonFuncs {
			add(a)
		}
	}
	for _, n := range c07Entries {
		if strings.Contains(n, "$") {
			add(c.P.FuncOpt(n)) // closures are optional entries (a refactoring may turn them into methods, which are reached through their callers)
			continue
		}
		add(c.fn(n))
	}
	// whatever the handler fields can hold is reachable from network input too
	for _, f := range []string{"handlePing", "handlePong", "handleClose"} {
		for _, v := range c.P.FieldStores(c.P.Field("Conn", f)) {
			switch fv := v.(type) {
			case *ssa.MakeClosure:
				add(fv.Fn.(*ssa.Function))
			case *ssa.Function:
				add(fv)
			}
		}
	}
	return out
}

// libFacts assumes library facts about a call result.
func (st *c07state) libFacts(x *core.Explorer, ev *core.Event) {
	res := ev.Result
	if res == nil {
		return
	}
	name := ""
	if ev.Static != nil && ev.Static.Blocks == nil {
		name = extName(ev.Static)
	} else if ev.Static == nil && ev.Method != nil {
		name = "iface." + ev.Method.Name()
	}
	ext := func(i int) *core.Term { return x.ExtractOf(res, i, nil) }
	switch name {
	case "(*bufio.Reader).Read", "iface.Read", "io.ReadFull":
		buf := ev.Args[len(ev.Args)-1]
		n := ext(0)
		x.AssumeGE(n, 0)
		x.AssumeLEq(n, x.Len(buf))
	case "(*bufio.Reader).Buffered":
		x.AssumeGE(res, 0)
	case "(*bufio.Reader).Peek":
		p := ext(0)
		x.AssumeLEq(x.Len(p), ev.Args[1])
	case "strings.LastIndex", "strings.Index", "strings.IndexByte", "strings.LastIndexByte":
		x.AssumeGE(res, -1)
		x.AssumeLit(x.Lt(res, x.Len(ev.Args[0])), true)
	case "strings.SplitN":
		if n, ok := ev.Args[2].Int64(); ok && n > 0 {
			x.AssumeGE(x.Len(res), 1)
			x.AssumeLE(x.Len(res), n)
		}
	case "unicode/utf8.DecodeRuneInString":
		size := ext(1)
		x.AssumeGE(size, 0)
		x.AssumeLEq(size, x.Len(ev.Args[0]))
		if lo, has := x.Lower(x.Len(ev.Args[0])); has && lo >= 1 {
			x.AssumeGE(size, 1)
		}
	case "(*bytes.Buffer).Len":
		x.AssumeGE(res, 0)
	case "(*encoding/base64.Encoding).EncodedLen", "(*encoding/base64.Encoding).DecodedLen":
		// padded standard encodings only (StdEncoding, URLEncoding)
		enc := strip(ev.Args[0])
		if enc.Kind == core.KLoad && enc.Args[0].Kind == core.KGlobal {
			if g := enc.Args[0].Ref.(*ssa.Global); g.Pkg != nil && g.Pkg.Pkg.Path() == "encoding/base64" && (g.Name() == "StdEncoding" || g.Name() == "URLEncoding") {
				if n, ok := ev.Args[1].Int64(); ok && n >= 0 {
					v := (n + 2) / 3 * 4
					if name == "(*encoding/base64.Encoding).DecodedLen" {
						v = n / 4 * 3
					}
					x.AssumeGE(res, v)
					x.AssumeLE(res, v)
				}
			}
		}
	}
	// library preconditions: big-endian accessors need 2 / 8 bytes
	need := map[string]int64{"(encoding/binary.bigEndian).Uint16": 2, "(encoding/binary.bigEndian).Uint64": 8, "(encoding/binary.bigEndian).Uint32": 4,
		"(encoding/binary.bigEndian).PutUint16": 2, "(encoding/binary.bigEndian).PutUint64": 8, "(encoding/binary.bigEndian).PutUint32": 4}
	if n, ok := need[name]; ok && len(ev.Args) >= 2 && st.sites != nil {
		buf := ev.Args[1]
		s := st.sites[ev.Instr]
		if s == nil {
			s = &c07site{fn: ev.Fn, in: ev.Instr, proven: true, kind: "precondition", key: "call " + name + "(" + stableKey(buf) + ")"}
			st.sites[ev.Instr] = s
		}
		s.visited++
		if lo, has := x.Lower(x.Len(buf)); !(has && lo >= n) {
			s.unproven++
			if s.proven {
				s.proven = false
				s.failWhy = fmt.Sprintf("%s needs %d bytes but len(%s) is not known to be >= %d", name, n, buf, n)
			}
		}
	}
	// library preconditions: codecs writing into a caller-supplied buffer need room for the whole output
	type codec struct {
		dst, src int
		need     func(n int64) int64
	}
	codecs := map[string]codec{
		"(*encoding/base64.Encoding).Decode": {1, 2, func(n int64) int64 { return (n*3 + 3) / 4 }},
		"(*encoding/base64.Encoding).Encode": {1, 2, func(n int64) int64 { return (n + 2) / 3 * 4 }},
		"encoding/hex.Decode":                {0, 1, func(n int64) int64 { return n / 2 }},
		"encoding/hex.Encode":                {0, 1, func(n int64) int64 { return 2 * n }},
	}
	if cd, ok := codecs[name]; ok && len(ev.Args) > cd.src && st.sites != nil {
		dst, src := ev.Args[cd.dst], ev.Args[cd.src]
		s := st.sites[ev.Instr]
		if s == nil {
			s = &c07site{fn: ev.Fn, in: ev.Instr, proven: true, kind: "precondition", key: "call " + name + "(" + stableKey(dst) + ")"}
			st.sites[ev.Instr] = s
		}
		s.visited++
		lo, hasLo := x.Lower(x.Len(dst))
		hi, hasHi := x.Upper(x.Len(src))
		if !(hasLo && hasHi && lo >= cd.need(hi)) {
			s.unproven++
			if s.proven {
				s.proven = false
				if hasLo && hasHi {
					s.failWhy = fmt.Sprintf("%s writes up to %d bytes for a %d-byte input but the destination %s has only %d: index out of range inside the library", name, cd.need(hi), hi, dst, lo)
				} else {
					s.failWhy = fmt.Sprintf("%s: the destination %s is not known to have room for the output of the input %s (it panics when too small)", name, dst, src)
				}
			}
		}
	}
	// in-package summary: (*Conn).read(n) returns at most n bytes
	if ev.Static == st.read {
		x.AssumeLEq(x.Len(ext(0)), ev.Args[1])
	}
}

// factConsequences: consequences of a branch literal.
func (st *c07state) factConsequences(x *core.Explorer, t *core.Term, pol bool) {
	// HasPrefix(s, "c") true => len(s) >= len(c)
	if t.Kind == core.KCall && pol {
		if f, ok := t.Ref.(*ssa.Function); ok && extName(f) == "strings.HasPrefix" && len(t.Args) == 2 {
			if p, isS := t.Args[1].StrVal(); isS {
				x.AssumeGE(x.Len(t.Args[0]), int64(len(p)))
			}
		}
	}
	// err == nil of (*Conn).read(n) / Peek(n) => len(result) == n
	if t.Kind == core.KEq && pol && t.Args[1].IsNil() {
		e := t.Args[0]
		if e.Kind == core.KExtract && e.N == 1 && e.Args[0].Kind == core.KCall {
			call := e.Args[0]
			f, _ := call.Ref.(*ssa.Function)
			if f == st.read || (f != nil && extName(f) == "(*bufio.Reader).Peek") {
				p := x.ExtractOf(call, 0, nil)
				n := call.Args[1]
				x.AssumeLEq(x.Len(p), n)
				x.AssumeLEq(n, x.Len(p))
				if c, isC := n.Int64(); isC {
					x.AssumeGE(x.Len(p), c)
					x.AssumeLE(x.Len(p), c)
				}
			}
		}
	}
}

func (st *c07state) opts() core.Opts {
	return core.Opts{Unroll: 0, LoopInvariants: true, NonNilOnNilErr: true, MaxPaths: 400000,
		AfterCall: st.libFacts, OnFact: st.factConsequences, OnInstr: st.onInstr, OnInvariantFail: st.invariantFail}
}

// invariantFail: a loop counter advanced by a non-constant amount was assumed to stay >= its entry value, and a back
// edge does not re-establish that: every site that relied on it is unproven, which is reported as a site of its own.
func (st *c07state) invariantFail(x *core.Explorer, fn *ssa.Function, phi *ssa.Phi, nv *core.Term) {
	s := st.sites[phi]
	if s == nil {
		s = &c07site{fn: fn, in: phi, proven: true, kind: "loop-invariant", key: "loop variable " + phi.Comment + " stays >= its entry value"}
		st.sites[phi] = s
	}
	if os.Getenv("WSVERIF_DEBUG") != "" {
		lo, has := x.Lower(nv)
		fmt.Fprintf(os.Stderr, "invariantFail %s nv=%v kind=%d lower=%d/%v\n", phi.Comment, nv, nv.Kind, lo, has)
		for _, a := range nv.Args {
			l2, h2 := x.Lower(a)
			fmt.Fprintf(os.Stderr, "   arg %v kind=%d type=%v lower=%d/%v\n", a, a.Kind, a.Type, l2, h2)
		}
	}
	s.visited++
	s.unproven++
	s.proven = false
	s.failWhy = "the loop variable " + phi.Comment + " is advanced to " + nv.String() + ", which is not known to be >= its value at loop entry (the bounds proofs inside the loop assumed it)"
}

func (st *c07state) analyse(fn *ssa.Function) {
	if fn == nil {
		return
	}
	// first with loops generalised at their first visit; where a site stays
	// unproven, once more with the first iteration of every loop peeled (an
	// invariant that holds only from the second iteration on, e.g. after a
	// leading escape character was consumed).  Either proof is a proof.
	saved := st.sites
	st.sites = map[ssa.Instruction]*c07site{}
	err := st.analyseWith(fn, st.opts())
	first := st.sites
	if err == nil && !allProven(first) {
		st.sites = map[ssa.Instruction]*c07site{}
		o := st.opts()
		o.Unroll = 1
		if os.Getenv("WSVERIF_DEBUG") == "2" {
			fmt.Fprintf(os.Stderr, "=== peeled retry of %s\n", shortFn(fn))
		}
		err2 := st.analyseWith(fn, o)
		if err2 == nil && allProven(st.sites) {
			first = st.sites
		} else if os.Getenv("WSVERIF_DEBUG") != "" {
			fmt.Fprintf(os.Stderr, "peeled retry of %s: err=%v\n", shortFn(fn), err2)
			for _, s2 := range st.sites {
				if !s2.proven {
					fmt.Fprintf(os.Stderr, "   still unproven: %s %s: %s (%d of %d)\n", st.c.P.Pos(s2.in.Pos()), s2.key, s2.failWhy, s2.unproven, s2.visited)
				}
			}
		}
	}
	st.sites = saved
	for in, s := range first {
		if old := st.sites[in]; old != nil {
			old.visited += s.visited
			old.unproven += s.unproven
			if old.proven && !s.proven {
				old.proven, old.failWhy = false, s.failWhy
			}
			if old.key == "" {
				old.key, old.kind = s.key, s.kind
			}
		} else {
			st.sites[in] = s
		}
	}
	if err != nil {
		st.c.R.Fail(st.ruleName(), core.FuncName(fn), "path-enumeration", fn.Pos(), "path enumeration incomplete: "+err.Error())
	}
}

func allProven(m map[ssa.Instruction]*c07site) bool {
	for _, s := range m {
		if !s.proven {
			return false
		}
	}
	return true
}

func (st *c07state) analyseWith(fn *ssa.Function, o core.Opts) error {
	// DialContext is analysed in two regions (before / after the dial call) to keep the path count bounded
	if shortFn(fn) == "(*Dialer).DialContext" {
		sites := st.c.acquireSites(fn)
		if len(sites) == 1 {
			site := sites[0]
			a := o
			a.Stop = func(x *core.Explorer, ev *core.Event) bool { return ev.Instr == ssa.Instruction(site) }
			_, err := st.c.exploreErr(fn, a, func(p *core.Path) {})
			b := o
			b.Start = site
			_, err2 := st.c.exploreErr(fn, b, func(p *core.Path) {})
			if err == nil {
				err = err2
			}
			return err
		}
	}
	_, err := st.c.exploreErr(fn, o, func(p *core.Path) {})
	return err
}

func prove(x *core.Explorer, t *core.Term) bool  { return x.Prove(t) }
func leq(x *core.Explorer, a, b *core.Term) bool { return x.ProveLeq(a, b) }
func lt(x *core.Explorer, a, b *core.Term) bool  { return x.ProveLt(a, b) }
func nonNeg(x *core.Explorer, a *core.Term) bool { return x.NonNeg(a) }

// lengthOf: the length term of an indexable operand (array pointer, slice, string, array value).
func lengthOf(x *core.Explorer, base *core.Term, typ types.Type) *core.Term {
	t := typ
	if p, ok := t.Underlying().(*types.Pointer); ok {
		t = p.Elem()
	}
	if a, ok := t.Underlying().(*types.Array); ok {
		return x.T.Int(a.Len())
	}
	return x.Len(base)
}

func (st *c07state) onInstr(x *core.Explorer, fn *ssa.Function, in ssa.Instruction, ops []*core.Term) {
	s := st.sites[in]
	if s == nil {
		s = &c07site{fn: fn, in: in, proven: true}
		st.sites[in] = s
	}
	s.visited++
	fail := func(key, why string) {
		if s.key == "" {
			s.key = key
		}
		s.unproven++
		if s.proven {
			s.proven = false
			s.failWhy = why
		}
		if os.Getenv("WSVERIF_DEBUG") == "2" {
			fmt.Fprintf(os.Stderr, "UNPROVEN %s %s\n", st.c.P.Pos(in.Pos()), why)
			for _, l := range x.PrefixLits() {
				fmt.Fprintf(os.Stderr, "      [%v] %v\n", l.Pos, l.T)
			}
		}
	}
	switch v := in.(type) {
	case *ssa.IndexAddr, *ssa.Index, *ssa.Lookup:
		s.kind = "index"
		var typ types.Type
		switch vv := v.(type) {
		case *ssa.IndexAddr:
			typ = vv.X.Type()
		case *ssa.Index:
			typ = vv.X.Type()
		case *ssa.Lookup:
			typ = vv.X.Type()
		}
		base, idx := ops[0], ops[1]
		key := "index " + stableKey(base) + "[" + stableKey(idx) + "]"
		if s.key == "" {
			s.key = key
		}
		L := lengthOf(x, base, typ)
		if !nonNeg(x, idx) {
			fail(key, "index "+idx.String()+" may be negative")
			return
		}
		if !lt(x, idx, L) {
			fail(key, "index "+idx.String()+" is not known to be < "+L.String())
		}
	case *ssa.Slice:
		s.kind = "slice"
		base, lo, hi, max := ops[0], ops[1], ops[2], ops[3]
		key := "slice " + stableKey(base) + "[" + stableKey(lo) + ":" + stableKey(hi) + "]"
		if s.key == "" {
			s.key = key
		}
		L := lengthOf(x, base, v.X.Type())
		zero := x.T.Int(0)
		loT, hiT := lo, hi
		if lo.Kind == core.KNone {
			loT = zero
		}
		if hi.Kind == core.KNone {
			hiT = L
		}
		if max.Kind != core.KNone {
			// s[lo:hi:max]: hi <= max <= cap; treat max like the bound
			if !leq(x, hiT, max) {
				fail(key, "hi > max in a three-index slice")
				return
			}
		}
		if !nonNeg(x, loT) {
			fail(key, "slice low bound "+loT.String()+" may be negative")
			return
		}
		if !leq(x, loT, hiT) {
			fail(key, "slice bounds: "+loT.String()+" is not known to be <= "+hiT.String())
			return
		}
		if hi.Kind != core.KNone {
			// hi <= cap(base); len <= cap, arrays: constant
			if !leq(x, hiT, L) && !leq(x, hiT, x.CapOf(base)) {
				fail(key, "slice high bound "+hiT.String()+" is not known to be <= len/cap of "+stableKey(base))
			}
		}
	case *ssa.MakeSlice:
		s.kind = "make"
		key := "make " + stableKey(ops[0])
		if s.key == "" {
			s.key = key
		}
		if !nonNeg(x, ops[0]) {
			fail(key, "make size "+ops[0].String()+" may be negative")
		}
	case *ssa.BinOp:
		s.kind = "div"
		key := "divide by " + stableKey(ops[1])
		if s.key == "" {
			s.key = key
		}
		if c, isC := ops[1].Int64(); !(isC && c != 0) {
			if lo, has := x.Lower(ops[1]); !(has && lo >= 1) {
				fail(key, "divisor may be zero")
			}
		}
	case *ssa.TypeAssert:
		s.kind = "assert"
		key := "assert " + stableKey(ops[0]) + ".(" + types.TypeString(v.AssertedType, func(*types.Package) string { return "" }) + ")"
		if s.key == "" {
			s.key = key
		}
		// go/ssa emits x.(I) with I the static type of x as a non-nil check for method values on interfaces
		if types.Identical(v.AssertedType, v.X.Type()) {
			o := ops[0]
			if o.Kind == core.KExtract && o.N == 0 && o.Args[0].Kind == core.KTypeAssert {
				okT := x.ExtractOf(o.Args[0], 1, nil)
				if prove(x, okT) {
					return
				}
			}
			fail(key, "method value taken from an interface value that may be nil")
			return
		}
		fail(key, "type assertion without comma-ok")
	case *ssa.SliceToArrayPointer:
		s.kind = "slice-to-array"
		key := "array conversion of " + stableKey(ops[0])
		if s.key == "" {
			s.key = key
		}
		n := v.Type().Underlying().(*types.Pointer).Elem().Underlying().(*types.Array).Len()
		if lo, has := x.Lower(x.Len(ops[0])); !(has && lo >= n) {
			fail(key, "slice may be shorter than the array")
		}
	}
}

func (st *c07state) report() {
	c, r := st.c, st.c.R
	var sites []*c07site
	for _, s := range st.sites {
		sites = append(sites, s)
	}
	sort.Slice(sites, func(i, j int) bool {
		if sites[i].in.Pos() != sites[j].in.Pos() {
			return sites[i].in.Pos() < sites[j].in.Pos()
		}
		return sites[i].key < sites[j].key
	})
	nProven, nTable := 0, 0
	for _, s := range sites {
		fn := shortFn(s.fn)
		if s.proven {
			nProven++
			r.Check(st.ruleName(), fn, s.key, s.in.Pos(), true, fmt.Sprintf("in bounds on all %d visits", s.visited))
			continue
		}
		reason, ok := c07Table[fn+" / "+s.key]
		if !ok {
			// the construct may have moved into a helper extracted from the function the entry names
			for _, h := range c.hostsOf(s.fn) {
				if rs, has := c07Table[shortFn(h)+" / "+s.key]; has {
					reason, ok = rs, true
				}
			}
		}
		if ok {
			nTable++
			r.Table("C07.panic-sites " + fn + " / " + s.key + ": " + reason)
			r.Check(st.ruleName(), fn, s.key, s.in.Pos(), true, "discharged by reviewed table entry (not by analysis): "+reason)
			continue
		}
		r.Check(st.ruleName(), fn, s.key, s.in.Pos(), false, s.failWhy+fmt.Sprintf(" (on %d of %d visits); %s", s.unproven, s.visited, st.consequence()))
	}
	r.Notes = append(r.Notes, fmt.Sprintf("%d sites proven, %d by table", nProven, nTable))
	_ = c
	if st.floor == 0 {
		st.floor = 60
	}
	r.Floor(st.ruleName(), st.floor)
}

func (st *c07state) consequence() string {
	if st.what != "" {
		return st.what
	}
	return "a peer-controlled value reaching this site can panic"
}
