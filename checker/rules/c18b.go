package rules

import (
	"go/types"

	"golang.org/x/tools/go/ssa"

	"wsverif/core"
)

func isTLSClient(ev *core.Event) bool {
	return ev.Kind == core.EvCall && ev.Static != nil && extName(ev.Static) == "crypto/tls.Client"
}

func c18tls(c *Ctx) {
	r := c.R
	d := newDialA(c)
	doHS, hostPort, clone := c.fn("doHandshake"), c.fn("hostPortNoPort"), c.fn("cloneTLSConfig")
	sites := c.acquireSites(d.dial)
	if len(sites) != 1 {
		r.Fail("C18.tls-everywhere", shortFn(d.dial), "dial-site", d.dial.Pos(), "expected exactly one dial call in DialContext")
		return
	}
	site := sites[0]
	tup := site.Type().(*types.Tuple)
	// the parsed URL value (SSA) and the dial address argument
	var parsedURL ssa.Value
	for _, b := range d.dial.Blocks {
		for _, in := range b.Instrs {
			if call, isCall := in.(*ssa.Call); isCall {
				if f := call.Call.StaticCallee(); f != nil && (extName(f) == "net/url.Parse" || c.returnsParsedURL(f)) {
					for _, ref := range *call.Referrers() {
						if ex, isEx := ref.(*ssa.Extract); isEx && ex.Index == 0 {
							parsedURL = ex
						}
					}
				}
			}
		}
	}
	isReqWrite := func(ev *core.Event) bool {
		return ev.Kind == core.EvCall && ev.Static != nil && len(ev.Args) > 0 && (extName(ev.Static) == "(*net/http.Request).Write" || extName(ev.Static) == "(*net/http.Request).WriteProxy")
	}
	ok, why := true, "https + proxy => TLS client over the tunnel, handshaken, and the request is written to it; no TLS client otherwise"
	okV, whyV := true, "tls.Client result goes through doHandshake with the same config; ServerName defaults to hostNoPort of the backend URL"
	nTunnel, nPlain := 0, 0
	c.explore("C18.tls-everywhere", d.dial, core.Opts{Start: site, Unroll: 0, NonNilOnNilErr: true, Stop: func(x *core.Explorer, ev *core.Event) bool { return isReqWrite(ev) }}, func(p *core.Path) {
		if p.End != core.EndStop {
			return
		}
		x := p.X
		wr := &p.Events[len(p.Events)-1]
		conn := x.ExtractOf(x.OpaqueOf(site), 0, tup.At(0).Type())
		https, httpsKnown := false, false
		proxy, proxyKnown := false, false
		for _, l := range p.Lits {
			if l.T.Kind == core.KEq && dialerField(l.T.Args[0], "Scheme") {
				if s, isS := l.T.Args[1].StrVal(); isS && s == "https" {
					https, httpsKnown = l.Pos, true
				}
			}
			if isEqNil(l.T, func(y *core.Term) bool {
				if y.Kind != core.KOpaque {
					return false
				}
				v, isV := y.Ref.(ssa.Value)
				return isV && isURLPtr(v.Type())
			}) {
				proxy, proxyKnown = !l.Pos, true
			}
		}
		var tc, hs *core.Event
		var cfgStore *core.Term
		for i := range p.Events {
			ev := &p.Events[i]
			if isTLSClient(ev) {
				tc = ev
			}
			if callsStatic(ev, doHS) {
				hs = ev
			}
			if ev.Kind == core.EvStore && ev.Addr.Kind == core.KFieldAddr && ev.Addr.Var.Name() == "ServerName" {
				cfgStore = ev.Val
			}
		}
		target := strip(wr.Args[len(wr.Args)-1]) // the writer is the last argument (the receiver may be bound)
		tunnel := proxyKnown && proxy && httpsKnown && https
		if !tunnel {
			nPlain++
			if tc != nil {
				ok, why = false, "a TLS client is created on a path that is not (https via proxy)"
			}
			if target != conn {
				ok, why = false, "the handshake request is written to something other than the dialed connection"
			}
			// when a proxy and the scheme were not both tested, the code does not distinguish the tunnel case
			if !proxyKnown && httpsKnown && https {
				ok, why = false, "an https path does not test whether a proxy tunnel needs TLS"
			}
			return
		}
		nTunnel++
		if tc == nil || hs == nil {
			ok, why = false, "wss through a proxy: the request is written without a TLS session over the tunnel"
			return
		}
		if strip(tc.Args[0]) != conn {
			ok, why = false, "the TLS client does not wrap the tunnel connection"
		}
		if target != tc.Result {
			ok, why = false, "wss through a proxy: the request is written to the raw tunnel instead of the TLS connection"
		}
		if hs.Args[1] != tc.Result || hs.Args[2] != tc.Args[1] {
			okV, whyV = false, "doHandshake is not given the TLS client just created and its config"
		}
		if !hasLit(p, len(p.Lits), true, func(t *core.Term) bool { return isEqNil(t, is(hs.Result)) }) {
			ok, why = false, "the request is written although the TLS handshake / verification may have failed"
		}
		cfg := tc.Args[1]
		if !(cfg.Kind == core.KCall && cfg.Ref == interface{}(clone)) {
			okV, whyV = false, "the TLS config is not a clone of Dialer.TLSClientConfig"
		}
		// ServerName default
		emptyName := hasLit(p, len(p.Lits), true, func(t *core.Term) bool {
			if t.Kind != core.KEq {
				return false
			}
			s, isS := t.Args[1].StrVal()
			return isS && s == "" && dialerField(t.Args[0], "ServerName")
		})
		if emptyName {
			good := false
			if cfgStore != nil && cfgStore.Kind == core.KExtract && cfgStore.N == 1 && cfgStore.Args[0].Kind == core.KOpaque {
				if call, isCall := cfgStore.Args[0].Ref.(*ssa.Call); isCall && call.Call.StaticCallee() == hostPort && call.Call.Args[0] == parsedURL {
					good = true
				}
			}
			if !good {
				okV, whyV = false, "an empty ServerName is not defaulted to the host of the backend URL (the certificate would be verified for another name)"
			}
		}
	})
	r.Check("C18.tls-everywhere", shortFn(d.dial), "tls-over-proxy-tunnel", d.dial.Pos(), ok && nTunnel > 0 && nPlain > 0, why)
	r.Check("C18.verify", shortFn(d.dial), "handshake-and-server-name", d.dial.Pos(), okV && nTunnel > 0, whyV)
	// dial address is hostPort of the backend URL
	{
		good := false
		for _, a := range site.Call.Args { // the address argument, wherever the dial helper takes it
			if ex, isEx := a.(*ssa.Extract); isEx && ex.Index == 0 && isStringType(ex.Type()) {
				if call, isCall := ex.Tuple.(*ssa.Call); isCall && call.Call.StaticCallee() == hostPort && call.Call.Args[0] == parsedURL {
					good = true
				}
			}
		}
		r.Check("C18.connect", shortFn(d.dial), "dial-address-is-backend-hostport", site.Pos(), good, "the address dialed (and CONNECTed to) must be hostPort of the URL being dialed")
	}
	// scheme mapping
	{
		ok, why := true, "ws -> http and wss -> https, nothing else"
		n := 0
		var stop = func(x *core.Explorer, ev *core.Event) bool {
			return ev.Kind == core.EvCall && ev.Static != nil && extName(ev.Static) == "(*net/http.Request).WithContext"
		}
		c.explore("C18.tls-everywhere", d.dial, core.Opts{Unroll: 0, NonNilOnNilErr: true, Stop: stop}, func(p *core.Path) {
			for i := range p.Events {
				ev := &p.Events[i]
				if ev.Kind == core.EvStore && ev.Addr.Kind == core.KFieldAddr && ev.Addr.Var.Name() == "Scheme" {
					n++
					v, _ := ev.Val.StrVal()
					from := ""
					for _, l := range p.Lits[:ev.NLits] {
						if l.Pos && l.T.Kind == core.KEq && dialerField(l.T.Args[0], "Scheme") {
							from, _ = l.T.Args[1].StrVal()
						}
					}
					if !((from == "ws" && v == "http") || (from == "wss" && v == "https")) {
						ok, why = false, "scheme "+from+" is mapped to "+v
					}
				}
			}
		})
		r.Check("C18.tls-everywhere", shortFn(d.dial), "scheme-mapping", d.dial.Pos(), ok && n >= 2, why)
	}
	// the TLS-wrapping first hop
	{
		fn := c.returnedFunc("netDialWithTLSHandshake")
		ok, why := true, "dial, tls.Client(conn, clone(cfg)) with ServerName defaulting to hostNoPort(u), doHandshake(ctx, tlsConn, cfg) == nil before returning tlsConn"
		n := 0
		c.explore("C18.verify", fn, core.Opts{NonNilOnNilErr: true}, func(p *core.Path) {
			if p.End != core.EndReturn || len(p.Results) != 2 || !p.Results[1].IsNil() {
				return
			}
			n++
			var tc, hs, hp *core.Event
			var nameStore *core.Term
			for i := range p.Events {
				ev := &p.Events[i]
				if isTLSClient(ev) {
					tc = ev
				}
				if callsStatic(ev, doHS) {
					hs = ev
				}
				if callsStatic(ev, hostPort) {
					hp = ev
				}
				if ev.Kind == core.EvStore && ev.Addr.Kind == core.KFieldAddr && ev.Addr.Var.Name() == "ServerName" {
					nameStore = ev.Val
				}
			}
			if tc == nil || hs == nil || hp == nil {
				ok, why = false, "a connection is returned without TLS client + handshake"
				return
			}
			if strip(p.Results[0]) != tc.Result {
				ok, why = false, "the connection returned is not the TLS connection"
			}
			if hs.Args[1] != tc.Result || hs.Args[2] != tc.Args[1] || !hasLit(p, len(p.Lits), true, func(t *core.Term) bool { return isEqNil(t, is(hs.Result)) }) {
				ok, why = false, "the TLS connection is returned without a successful doHandshake on it with its own config"
			}
			if cfg := tc.Args[1]; !(cfg.Kind == core.KCall && cfg.Ref == interface{}(clone)) {
				ok, why = false, "the TLS config of the first hop is not a clone of the caller's config: defaulting ServerName writes into Dialer.TLSClientConfig, so the backend handshake (and every later dial) verifies the certificate against the first host's name"
			}
			if !isCapturedState(fn, hp.Args[0]) {
				ok, why = false, "the host used for verification is not taken from the URL being dialed"
			}
			emptyName := hasLit(p, len(p.Lits), true, func(t *core.Term) bool {
				if t.Kind != core.KEq {
					return false
				}
				s, isS := t.Args[1].StrVal()
				return isS && s == "" && dialerField(t.Args[0], "ServerName")
			})
			if emptyName && nameStore != p.X.ExtractOf(hp.Result, 1, nil) {
				ok, why = false, "an empty ServerName is not defaulted to hostNoPort of the URL being dialed"
			}
		})
		r.Check("C18.verify", shortFn(fn), "tls-first-hop", fn.Pos(), ok && n > 0, why)
	}
	// cloneTLSConfig: every dial gets its own config value
	{
		ok, why := true, "cloneTLSConfig returns cfg.Clone() or a freshly allocated config (never a value shared between dials)"
		n := 0
		c.explore("C18.verify", clone, core.Opts{}, func(p *core.Path) {
			if p.End != core.EndReturn || len(p.Results) != 1 {
				return
			}
			n++
			res := strip(p.Results[0])
			switch {
			case res.Kind == core.KAlloc:
			case res.Kind == core.KCall:
				if f, isF := res.Ref.(*ssa.Function); !isF || extName(f) != "(*crypto/tls.Config).Clone" {
					ok, why = false, "cloneTLSConfig returns "+res.String()+", not a clone of its argument"
				}
			default:
				ok, why = false, "cloneTLSConfig returns "+res.String()+" at "+c.P.Pos(p.Ret.Pos())+": a config shared between dials keeps the ServerName the first dial defaulted, so later hosts are verified against the first host's name"
			}
		})
		r.Check("C18.verify", shortFn(clone), "fresh-config-per-dial", clone.Pos(), ok && n >= 2, why)
	}
	// who writes the TLS configuration: apart from defaulting ServerName the library leaves every field as the
	// application set it (a session cache, root set, verification callback or skip flag installed by the library
	// changes what the certificate is verified against, or whether it is verified at all on a resumed session)
	{
		neutral := map[string]bool{"ServerName": true, "NextProtos": true}
		nSN := 0
		for _, fn := range c.P.FuncList {
			for _, b := range fn.Blocks {
				for _, in := range b.Instrs {
					st, isSt := in.(*ssa.Store)
					if !isSt {
						continue
					}
					fa, isFA := st.Addr.(*ssa.FieldAddr)
					if !isFA {
						continue
					}
					pt, isP := fa.X.Type().Underlying().(*types.Pointer)
					if !isP {
						continue
					}
					nt, isN := pt.Elem().(*types.Named)
					if !isN || nt.Obj().Pkg() == nil || nt.Obj().Pkg().Path() != "crypto/tls" || nt.Obj().Name() != "Config" {
						continue
					}
					f := fieldOf(fa)
					if f.Name() == "ServerName" {
						nSN++
					}
					r.Check("C18.verify", shortFn(fn), "tls-config-field-written:"+f.Name(), st.Pos(), neutral[f.Name()], "the library sets tls.Config."+f.Name()+" on the configuration used for the handshake: only ServerName (defaulted from the URL host) may differ from what the application configured; a library-installed "+f.Name()+" changes how, or whether, the server certificate is verified")
				}
			}
		}
		if nSN < 1 { // two sites today; a helper shared by both hops leaves one
			r.Fail("C18.verify", "package", "tls-config-field-written:floor", clone.Pos(), "no ServerName defaulting site was found")
		}
	}
	// doHandshake
	{
		ok, why := true, "nil only after HandshakeContext == nil and (InsecureSkipVerify or VerifyHostname(cfg.ServerName) == nil)"
		n := 0
		c.explore("C18.verify", doHS, core.Opts{}, func(p *core.Path) {
			if p.End != core.EndReturn || len(p.Results) != 1 {
				return
			}
			resNil := p.Results[0].IsNil() || hasLit(p, len(p.Lits), true, func(t *core.Term) bool { return isEqNil(t, is(p.Results[0])) })
			if res := p.Results[0]; !resNil {
				// returning the verdict of VerifyHostname itself is the same as testing it
				isVH := false
				if res.Kind == core.KCall {
					if f, isF := res.Ref.(*ssa.Function); isF && extName(f) == "(*crypto/tls.Conn).VerifyHostname" {
						isVH = true
					}
				}
				if !isVH {
					return
				}
				n++
				var hc *core.Event
				for i := range p.Events {
					ev := &p.Events[i]
					if ev.Kind == core.EvCall && ev.Static != nil && extName(ev.Static) == "(*crypto/tls.Conn).HandshakeContext" {
						hc = ev
					}
				}
				if hc == nil || !hasLit(p, len(p.Lits), true, func(t *core.Term) bool { return isEqNil(t, is(hc.Result)) }) {
					ok, why = false, "hostname verification is returned without a successful TLS handshake before it"
				} else if !dialerField(res.Args[1], "ServerName") || res.Args[0] != hc.Args[0] {
					ok, why = false, "the hostname verified is not cfg.ServerName of this connection"
				}
				return
			}
			n++
			var hc, vh *core.Event
			for i := range p.Events {
				ev := &p.Events[i]
				if ev.Kind == core.EvCall && ev.Static != nil && extName(ev.Static) == "(*crypto/tls.Conn).HandshakeContext" {
					hc = ev
				}
				if ev.Kind == core.EvCall && ev.Static != nil && extName(ev.Static) == "(*crypto/tls.Conn).VerifyHostname" {
					vh = ev
				}
			}
			if hc == nil || !hasLit(p, len(p.Lits), true, func(t *core.Term) bool { return isEqNil(t, is(hc.Result)) }) {
				ok, why = false, "doHandshake can succeed without a successful TLS handshake"
				return
			}
			skip := hasLit(p, len(p.Lits), true, func(t *core.Term) bool { return dialerField(t, "InsecureSkipVerify") })
			if skip {
				return
			}
			if vh == nil || !hasLit(p, len(p.Lits), true, func(t *core.Term) bool { return isEqNil(t, is(vh.Result)) }) {
				ok, why = false, "doHandshake can succeed without hostname verification although InsecureSkipVerify is not set"
				return
			}
			if !dialerField(vh.Args[1], "ServerName") || vh.Args[0] != hc.Args[0] {
				ok, why = false, "the hostname verified is not cfg.ServerName of this connection"
			}
		})
		r.Check("C18.verify", shortFn(doHS), "handshake-then-verify-hostname", doHS.Pos(), ok && n >= 2, why)
	}
}

func isURLPtr(t types.Type) bool {
	p, ok := t.Underlying().(*types.Pointer)
	if !ok {
		return false
	}
	n, ok := p.Elem().(*types.Named)
	return ok && n.Obj().Name() == "URL" && n.Obj().Pkg() != nil && n.Obj().Pkg().Path() == "net/url"
}

func c18connect(c *Ctx) {
	r := c.R
	fn := c.fn("(*httpProxyDialer).DialContext")
	hostPort := c.fn("hostPortNoPort")
	ok, why := true, "CONNECT addr via the proxy; Basic credentials only with a password; connection returned only for 200"
	nOK, nRefused := 0, 0
	c.explore("C18.connect", fn, core.Opts{NonNilOnNilErr: true}, func(p *core.Path) {
		if p.End != core.EndReturn || len(p.Results) != 2 {
			return
		}
		x := p.X
		addrP := fn.Params[3]
		var dial, write, readResp *core.Event
		writes := 0
		var req *core.Term
		var authSet *core.Event
		for i := range p.Events {
			ev := &p.Events[i]
			if ev.Kind == core.EvCall && ev.FnVal != nil && dialerField(ev.FnVal, "forwardDial") {
				dial = ev
			}
			if ev.Kind == core.EvCall && ev.Static != nil && extName(ev.Static) == "(*net/http.Request).Write" {
				write = ev
				writes++
			}
			if ev.Kind == core.EvCall && ev.Static != nil && extName(ev.Static) == "net/http.ReadResponse" {
				readResp = ev
			}
			if ev.Kind == core.EvCall && ev.Static != nil && extName(ev.Static) == "(net/http.Header).Set" {
				if k, _ := ev.Args[1].StrVal(); k == "Proxy-Authorization" {
					authSet = ev
				}
			}
		}
		if dial == nil {
			ok, why = false, "the proxy is not reached through the forward dial function"
			return
		}
		// first hop address
		a := dial.Args[2]
		if !(a.Kind == core.KExtract && a.N == 0 && a.Args[0].Kind == core.KCall && a.Args[0].Ref == interface{}(hostPort) && dialerField(a.Args[0].Args[0], "proxyURL")) {
			ok, why = false, "the first hop does not go to hostPort(proxy URL)"
		}
		conn := x.ExtractOf(dial.Result, 0, nil)
		if p.Results[1].IsNil() {
			nOK++
			if strip(p.Results[0]) != conn {
				ok, why = false, "the tunnel returned is not the connection to the proxy"
			}
			if write == nil || readResp == nil || writes != 1 {
				ok, why = false, "the tunnel is returned without exactly one CONNECT request and a parsed reply"
				return
			}
			req = write.Args[0]
			resp := x.ExtractOf(readResp.Result, 0, nil)
			is200 := hasLit(p, len(p.Lits), true, func(t *core.Term) bool {
				return isEqConst(t, 200, func(y *core.Term) bool { return isRespField(y, resp, "StatusCode") })
			})
			if !is200 {
				ok, why = false, "the tunnel is returned although the proxy's reply status is not known to be 200"
			}
			// request shape
			var method, host, opaque *core.Term
			for i := range p.Events {
				ev := &p.Events[i]
				if ev.Kind != core.EvStore || ev.Addr.Kind != core.KFieldAddr {
					continue
				}
				switch {
				case ev.Addr.Args[0] == req && ev.Addr.Var.Name() == "Method":
					method = ev.Val
				case ev.Addr.Args[0] == req && ev.Addr.Var.Name() == "Host":
					host = ev.Val
				case ev.Addr.Var.Name() == "Opaque":
					opaque = ev.Val
				}
			}
			if m, _ := method.StrVal(); method == nil || m != "CONNECT" {
				ok, why = false, "the request to the proxy is not a CONNECT"
			}
			isAddr := func(t *core.Term) bool { return t != nil && t.Kind == core.KParam && t.Ref == addrP }
			if !isAddr(host) || !isAddr(opaque) {
				ok, why = false, "CONNECT target (URL.Opaque / Host) is not the requested backend address"
			}
			if strip(write.Args[1]) != conn {
				ok, why = false, "the CONNECT request is not written to the proxy connection"
			}
			// credentials
			pwSet := hasLit(p, len(p.Lits), true, func(t *core.Term) bool {
				if t.Kind != core.KExtract || t.N != 1 || t.Args[0].Kind != core.KCall {
					return false
				}
				f, isF := t.Args[0].Ref.(*ssa.Function)
				return isF && extName(f) == "(*net/url.Userinfo).Password"
			})
			if (authSet != nil) != pwSet {
				ok, why = false, "Proxy-Authorization is sent iff the proxy URL carries a password: violated"
			}
			if authSet != nil {
				// the header the credentials are put into belongs to this dial: made here, or a clone
				if ci, isCI := authSet.Instr.(ssa.CallInstruction); isCI && len(ci.Common().Args) > 0 {
					var fresh func(v ssa.Value, depth int) bool
					fresh = func(v ssa.Value, depth int) bool {
						if depth > 4 {
							return false
						}
						switch x := v.(type) {
						case *ssa.MakeMap:
							return true
						case *ssa.ChangeType:
							return fresh(x.X, depth+1)
						case *ssa.Call:
							f := x.Call.StaticCallee()
							if f != nil && f.Blocks != nil && c.P.InPkg(f) && f.Signature.Results().Len() == 1 {
								// a helper that returns a fresh header on every path
								n := 0
								for _, b := range f.Blocks {
									for _, in := range b.Instrs {
										if ret, isRet := in.(*ssa.Return); isRet {
											n++
											if !fresh(ret.Results[0], depth+1) {
												return false
											}
										}
									}
								}
								return n > 0
							}
							return f != nil && extName(f) == "(net/http.Header).Clone"
						case *ssa.Phi:
							for _, e := range x.Edges {
								if !fresh(e, depth+1) {
									return false
								}
							}
							return len(x.Edges) > 0
						}
						return false
					}
					if !fresh(ci.Common().Args[0], 0) {
						ok, why = false, "Proxy-Authorization is set on a header that was not created for this dial ("+ci.Common().Args[0].Name()+" at "+c.P.Pos(authSet.Instr.Pos())+"): the credentials stay in a map that later dials, possibly through another proxy, send again"
					}
				}
				v := authSet.Args[2]
				good := v.Kind == core.KBin && v.Op.String() == "+"
				if good {
					pre, isS := v.Args[0].StrVal()
					good = isS && pre == "Basic " && v.Args[1].Kind == core.KCall
					if good {
						f, isF := v.Args[1].Ref.(*ssa.Function)
						good = isF && extName(f) == "(*encoding/base64.Encoding).EncodeToString"
					}
				}
				if good {
					// RFC 7617: the standard alphabet with padding
					enc := strip(v.Args[1].Args[0])
					std := enc.Kind == core.KLoad && enc.Args[0].Kind == core.KGlobal
					if std {
						g := enc.Args[0].Ref.(*ssa.Global)
						std = g.Pkg != nil && g.Pkg.Pkg.Path() == "encoding/base64" && g.Name() == "StdEncoding"
					}
					if !std {
						ok, why = false, "the Basic credentials are not encoded with base64.StdEncoding (got "+enc.String()+"): credentials whose encoding contains '+' or '/' are rejected by the proxy"
					}
				}
				if !good {
					ok, why = false, "Proxy-Authorization is not 'Basic ' + base64(user:password)"
				} else {
					// the encoded text is Username() + ":" + Password() of the proxy URL's userinfo (decoded forms; Userinfo.String()
					// would send the percent-encoded form)
					cred := strip(v.Args[1].Args[len(v.Args[1].Args)-1])
					var parts []*core.Term
					var flat func(t *core.Term)
					flat = func(t *core.Term) {
						if t.Kind == core.KBin && t.Op.String() == "+" {
							flat(t.Args[0])
							flat(t.Args[1])
							return
						}
						parts = append(parts, t)
					}
					flat(cred)
					isCallOf := func(t *core.Term, name string) bool {
						if t.Kind == core.KExtract {
							t = t.Args[0]
						}
						f, isF := t.Ref.(*ssa.Function)
						return t.Kind == core.KCall && isF && extName(f) == name
					}
					sep, _ := func() (string, bool) {
						if len(parts) == 3 {
							return parts[1].StrVal()
						}
						return "", false
					}()
					if !(len(parts) == 3 && isCallOf(parts[0], "(*net/url.Userinfo).Username") && sep == ":" && isCallOf(parts[2], "(*net/url.Userinfo).Password")) {
						ok, why = false, "the Basic credentials are not Username() + \":\" + Password() of the proxy URL (got "+cred.String()+"): another rendering of the userinfo, e.g. the percent-encoded Userinfo.String(), is not what the proxy expects"
					}
				}
			}
			return
		}
		// failure after a parsed reply with non-200
		if readResp != nil {
			resp := x.ExtractOf(readResp.Result, 0, nil)
			not200 := hasLit(p, len(p.Lits), false, func(t *core.Term) bool {
				return isEqConst(t, 200, func(y *core.Term) bool { return isRespField(y, resp, "StatusCode") })
			})
			if not200 {
				nRefused++
			}
		}
	})
	r.Check("C18.connect", shortFn(fn), "connect-exchange", fn.Pos(), ok && nOK > 0 && nRefused > 0, why)
}

// returnsParsedURL: an in-package helper (extracted by a later refactoring)
// whose first result is, on every return, the URL produced by url.Parse in
// that helper (or nil next to an error).
func (c *Ctx) returnsParsedURL(f *ssa.Function) bool {
	if f == nil || !c.P.InPkg(f) || f.Signature.Results().Len() < 1 || !isURLPtr(f.Signature.Results().At(0).Type()) || !c.isNewHelper(f, 1) {
		return false
	}
	n := 0
	for _, b := range f.Blocks {
		for _, in := range b.Instrs {
			ret, ok := in.(*ssa.Return)
			if !ok {
				continue
			}
			switch v := ret.Results[0].(type) {
			case *ssa.Const:
				if v.Value != nil {
					return false
				}
			case *ssa.Extract:
				call, isCall := v.Tuple.(*ssa.Call)
				if !isCall || v.Index != 0 || call.Call.StaticCallee() == nil || extName(call.Call.StaticCallee()) != "net/url.Parse" {
					return false
				}
				n++
			default:
				return false
			}
		}
	}
	return n > 0
}

// dialerConfigNotSwapped: the TLS configuration the backend handshake clones
// is the caller's Dialer.TLSClientConfig: where DialContext (or a helper)
// works on a local copy of the Dialer, that copy's TLSClientConfig is not
// overwritten (a proxy-hop configuration swapped in would also be used for the
// backend certificate).
func dialerConfigNotSwapped(c *Ctx, rule string) {
	d := newDialA(c)
	cfgF := c.P.Field("Dialer", "TLSClientConfig")
	fns := []*ssa.Function{d.dial}
	for callee := range c.P.Mod(d.dial).Callees {
		if c.isNewHelper(callee, 1) {
			fns = append(fns, callee)
		}
	}
	ok, why := true, "no local copy of the Dialer has its TLSClientConfig replaced"
	for _, fn := range fns {
		for _, b := range fn.Blocks {
			for _, in := range b.Instrs {
				st, isSt := in.(*ssa.Store)
				if !isSt {
					continue
				}
				fa, isFA := st.Addr.(*ssa.FieldAddr)
				if !isFA || fieldOf(fa) != cfgF {
					continue
				}
				if _, local := fa.X.(*ssa.Alloc); local {
					ok, why = false, shortFn(fn)+" replaces TLSClientConfig in a local copy of the Dialer at "+c.P.Pos(st.Pos())+": code further down that clones d.TLSClientConfig for the backend handshake then verifies the backend with that other configuration"
				}
			}
		}
	}
	c.R.Check(rule, shortFn(d.dial), "backend-config-is-the-callers", d.dial.Pos(), ok, why)
}

// proxyHonoured: the URL the Proxy function returned is the one handed to
// netDialFn: between the two calls DialContext does not replace it (a proxy
// the application configured is never silently bypassed).
func proxyHonoured(c *Ctx, rule string) {
	d := newDialA(c)
	netDialFn := c.fn("(*Dialer).netDialFn")
	proxyF := c.P.Field("Dialer", "Proxy")
	var site *ssa.Call
	for _, b := range d.dial.Blocks {
		for _, in := range b.Instrs {
			call, ok := in.(*ssa.Call)
			if !ok || call.Call.IsInvoke() {
				continue
			}
			if u, isU := call.Call.Value.(*ssa.UnOp); isU {
				if fa, isFA := u.X.(*ssa.FieldAddr); isFA && fieldOf(fa) == proxyF {
					site = call
				}
			}
		}
	}
	if site == nil {
		c.R.Fail(rule, shortFn(d.dial), "proxy-call", d.dial.Pos(), "the call of Dialer.Proxy was not found in DialContext")
		return
	}
	ok, why := true, "netDialFn receives the URL Dialer.Proxy returned"
	n := 0
	c.explore(rule, d.dial, core.Opts{Start: site, Unroll: 0, NonNilOnNilErr: true, Stop: func(x *core.Explorer, ev *core.Event) bool { return callsStatic(ev, netDialFn) }}, func(p *core.Path) {
		if p.End != core.EndStop {
			return
		}
		n++
		ev := &p.Events[len(p.Events)-1]
		want := p.X.ExtractOf(p.X.OpaqueOf(site), 0, nil)
		if len(ev.Args) < 3 || strip(ev.Args[2]) != want {
			ok, why = false, "a path from the Proxy call to netDialFn at "+c.P.Pos(ev.Instr.Pos())+" passes "+ev.Args[2].String()+" instead of the URL the Proxy function returned: the configured proxy is bypassed"
		}
	})
	c.R.Check(rule, shortFn(d.dial), "proxy-url-passed-unchanged", d.dial.Pos(), ok && n > 0, why)
}
