package rules

import (
	"go/token"
	"go/types"

	"golang.org/x/tools/go/ssa"

	"wsverif/core"
)

func init() {
	register("C17", "Decides that no path of either handshake can strand bytes in a reader the connection will not read from: Upgrade either reuses the hijacked bufio.Reader, or wraps the connection so that the hijacked buffer is drained first, or knows that buffer to be empty; brNetConn.Read serves only buffered bytes (never touching the socket through the hijacked reader) and detaches the reader only once it is empty; the client parses the 101 response from the very bufio.Reader of the Conn it returns. Delivery for every split point is a value property over bufio and is not decided.", c17)
}

func c17(c *Ctx) {
	r := c.R
	u := newUpgA(c)
	r.Rule("C17.server-reader-choice", "on every path of Upgrade from Hijack to newConn at least one holds: the bufio.Reader given to newConn is the hijacked one; the connection given to newConn is a brNetConn{br: hijacked reader, Conn: hijacked conn}; the path knows hijackedReader.Buffered() == 0")
	r.Rule("C17.newconn-reader", "newConn keeps a reader it is given and otherwise builds one directly on the connection it stores")
	r.Rule("C17.brnetconn", "brNetConn.Read: while br != nil it reads through br into p truncated to br.Buffered(), returns that read's (n, err) and drops br only after a Buffered() == 0 observed after the read; with br == nil it delegates to the embedded connection; brNetConn declares no other net.Conn method")
	r.Rule("C17.client-reader", "the reader handed to http.ReadResponse in DialContext is Conn.br of the Conn created by newConn on the dialed connection, and that Conn is the one returned; DialContext creates no other bufio.Reader")
	r.Assume("bufio.Reader.Read with len(p) <= Buffered() returns buffered bytes without reading from the underlying connection")
	r.Rule("C17.reader-fits-control-frames", "whichever reader the connection ends up with (reused hijacked reader, or its own) holds a maximal control frame: a reused small reader would fail on the first large ping and lose everything after it (same rule as C08.read-buffer)")
	c08readBufferAs(c, newReader(c), "C17.reader-fits-control-frames")
	r.Rule("C17.reader-stable", "the connection keeps the one reader it was built with: Conn.br is assigned only by newConn, and bufio.Reader.Reset is never called on Conn.br or on a brNetConn's reader (Reset discards the buffered bytes - frames that arrived together with the handshake)")
	readerStable(c, "C17.reader-stable")

	// ---- server reader choice
	{
		brT, connT := c.P.Field("brNetConn", "br"), c.P.Field("brNetConn", "Conn")
		ok, why := true, "reuse, wrap, or known-empty on every path"
		n := 0
		kinds := map[string]int{}
		sites := c.acquireSites(u.upgrade)
		if len(sites) != 1 {
			r.Fail("C17.server-reader-choice", shortFn(u.upgrade), "hijack-site", u.upgrade.Pos(), "expected exactly one Hijack call")
		} else {
			hij := sites[0]
			tup := hij.Type().(*types.Tuple)
			c.explore("C17.server-reader-choice", u.upgrade, core.Opts{Start: hij, Unroll: 0, NonNilOnNilErr: true, Stop: func(x *core.Explorer, ev *core.Event) bool { return callsStatic(ev, u.newConn) }}, func(p *core.Path) {
				if p.End != core.EndStop {
					return
				}
				n++
				x := p.X
				nc := &p.Events[len(p.Events)-1]
				hconn := x.ExtractOf(x.OpaqueOf(hij), 0, tup.At(0).Type())
				brw := x.ExtractOf(x.OpaqueOf(hij), 1, tup.At(1).Type())
				isHijackedReader := func(t *core.Term) bool {
					return t.Kind == core.KLoad && t.Args[0].Kind == core.KFieldAddr && t.Args[0].Var.Name() == "Reader" && t.Args[0].Args[0] == brw
				}
				connArg, brArg := nc.Args[0], nc.Args[5]
				reuse := isHijackedReader(brArg)
				wrap := false
				if a := strip(connArg); a.Kind == core.KAlloc {
					var gotBr, gotConn bool
					for i := range p.Events {
						ev := &p.Events[i]
						if ev.Kind == core.EvStore && ev.Addr.Kind == core.KFieldAddr && ev.Addr.Args[0] == a {
							if ev.Addr.Var == brT && isHijackedReader(ev.Val) {
								gotBr = true
							}
							if ev.Addr.Var == connT && strip(ev.Val) == hconn {
								gotConn = true
							}
						}
					}
					wrap = gotBr && gotConn
					if !wrap {
						ok, why = false, "the connection is wrapped but not as brNetConn{br: hijacked reader, Conn: hijacked connection}"
					}
				} else if strip(connArg) != hconn {
					ok, why = false, "newConn is given a connection that is neither the hijacked one nor a brNetConn around it"
				}
				isBufferedCall := func(y *core.Term) bool {
					if y.Kind != core.KCall || len(y.Args) != 1 || !isHijackedReader(y.Args[0]) {
						return false
					}
					f, isF := y.Ref.(*ssa.Function)
					return isF && extName(f) == "(*bufio.Reader).Buffered"
				}
				empty := knowsLt(p, len(p.Lits), 1, isBufferedCall) || hasLit(p, len(p.Lits), true, func(t *core.Term) bool { return isEqConst(t, 0, isBufferedCall) })
				if !brArg.IsNil() && !reuse {
					ok, why = false, "newConn is given a reader that is not the hijacked one"
				}
				if reuse || wrap {
					for i := range p.Events {
						ev := &p.Events[i]
						if ev.Kind == core.EvCall && ev.Static != nil && !c.P.InPkg(ev.Static) && len(ev.Args) > 0 && isHijackedReader(ev.Args[0]) {
							switch extName(ev.Static) {
							case "(*bufio.Reader).Size", "(*bufio.Reader).Buffered":
							default:
								ok, why = false, "Upgrade calls "+extName(ev.Static)+" on the hijacked reader at "+c.P.Pos(ev.Instr.Pos())+" before handing it to the connection: the bytes the client sent early are buffered in it and would be discarded or consumed"
							}
						}
					}
				}
				switch {
				case reuse:
					kinds["reuse"]++
				case wrap:
					kinds["wrap"]++
				case empty:
					kinds["empty"]++
				default:
					ok, why = false, "a path from Hijack to newConn neither reuses the hijacked reader, nor wraps the connection with it, nor knows it to be empty: bytes the client sent early and net/http already buffered are lost"
				}
			})
		}
		r.Check("C17.server-reader-choice", shortFn(u.upgrade), "hijacked-buffer-not-stranded", u.upgrade.Pos(), ok && n > 0 && kinds["reuse"] > 0 && kinds["wrap"] > 0 && kinds["empty"] > 0, why)
	}
	// ---- newConn reader
	{
		nc := u.newConn
		brF, connF := c.P.Field("Conn", "br"), c.P.Field("Conn", "conn")
		ok, why := true, "br given => kept; otherwise bufio.NewReaderSize(conn) on the connection stored in Conn.conn"
		n := 0
		c.explore("C17.newconn-reader", nc, core.Opts{}, func(p *core.Path) {
			if p.End != core.EndReturn {
				return
			}
			n++
			var br, conn *core.Term
			for i := range p.Events {
				ev := &p.Events[i]
				if ev.Kind == core.EvStore && isFieldAddr(ev.Addr, brF) {
					br = ev.Val
				}
				if ev.Kind == core.EvStore && isFieldAddr(ev.Addr, connF) {
					conn = ev.Val
				}
			}
			if br == nil || conn == nil {
				ok, why = false, "newConn does not set Conn.br / Conn.conn"
				return
			}
			if !(conn.Kind == core.KParam && conn.Ref == nc.Params[0]) {
				ok, why = false, "Conn.conn is not the connection given to newConn"
			}
			given := hasLit(p, len(p.Lits), false, func(t *core.Term) bool {
				return isEqNil(t, func(y *core.Term) bool { return y.Kind == core.KParam && y.Ref == nc.Params[5] })
			})
			if given {
				if !(br.Kind == core.KParam && br.Ref == nc.Params[5]) {
					ok, why = false, "newConn replaces the reader it was given (bytes buffered in it are lost)"
				}
				// nothing may consume or drop what the given reader holds: no method is called on it here
				for i := range p.Events {
					ev := &p.Events[i]
					if ev.Kind == core.EvCall && ev.Static != nil && !c.P.InPkg(ev.Static) && len(ev.Args) > 0 {
						if a := strip(ev.Args[0]); a.Kind == core.KParam && a.Ref == nc.Params[5] {
							switch extName(ev.Static) {
							case "(*bufio.Reader).Size", "(*bufio.Reader).Buffered":
							default:
								ok, why = false, "newConn calls "+extName(ev.Static)+" on the reader it was given at "+c.P.Pos(ev.Instr.Pos())+": bytes the client sent ahead of the handshake reply are buffered in it and would be discarded or consumed"
							}
						}
					}
				}
				return
			}
			good := br.Kind == core.KCall && len(br.Args) >= 1 && strip(br.Args[0]).Kind == core.KParam && strip(br.Args[0]).Ref == nc.Params[0]
			if good {
				f, isF := br.Ref.(*ssa.Function)
				good = isF && (extName(f) == "bufio.NewReaderSize" || extName(f) == "bufio.NewReader")
			}
			if !good {
				ok, why = false, "the reader newConn creates is not built directly on the connection it stores"
			}
		})
		r.Check("C17.newconn-reader", shortFn(nc), "reader-kept-or-built-on-conn", nc.Pos(), ok && n > 0, why)
	}
	c17brnetconn(c)
	c17client(c)
}

func c17brnetconn(c *Ctx) {
	r := c.R
	fn := c.fn("(*brNetConn).Read")
	brF := c.P.Field("brNetConn", "br")
	ok, why := true, "buffered-only read, result returned, reader dropped only when observed empty after the read"
	nBuf, nDirect := 0, 0
	c.explore("C17.brnetconn", fn, core.Opts{RecordLoads: true}, func(p *core.Path) {
		if p.End != core.EndReturn || len(p.Results) != 2 {
			return
		}
		hasBr := hasLit(p, len(p.Lits), false, func(t *core.Term) bool {
			return isEqNil(t, func(y *core.Term) bool { _, is := fieldLoad(y, brF); return is })
		})
		var read *core.Event
		readIdx := -1
		var buffered []*core.Event
		var bufIdx []int
		for i := range p.Events {
			ev := &p.Events[i]
			if ev.Kind == core.EvCall && ev.Static != nil && extName(ev.Static) == "(*bufio.Reader).Read" {
				read, readIdx = ev, i
			}
			if ev.Kind == core.EvCall && ev.Static != nil && extName(ev.Static) == "(*bufio.Reader).Buffered" {
				buffered = append(buffered, ev)
				bufIdx = append(bufIdx, i)
			}
		}
		if !hasBr {
			nDirect++
			if read != nil {
				ok, why = false, "the hijacked reader is used although it was dropped"
			}
			res := p.Results[0]
			if !(res.Kind == core.KExtract && res.Args[0].Kind == core.KCall) {
				ok, why = false, "with the buffer drained Read does not delegate to the embedded connection"
				return
			}
			call := res.Args[0]
			m, isM := call.Ref.(*types.Func)
			if !isM || m.Name() != "Read" || len(call.Args) != 1 || call.Args[0].Kind != core.KParam {
				ok, why = false, "with the buffer drained Read does not delegate to the embedded connection's Read(p)"
			}
			return
		}
		nBuf++
		if read == nil || len(buffered) == 0 || bufIdx[0] > readIdx {
			ok, why = false, "with buffered data pending Read does not read through the hijacked reader after consulting Buffered()"
			return
		}
		if _, is := fieldLoad(read.Args[0], brF); !is {
			ok, why = false, "the buffered read does not use brNetConn.br"
		}
		n0 := buffered[0].Result
		buf := read.Args[1]
		pParam := fn.Params[1]
		trunc := buf.Kind == core.KSlice && buf.Args[0].Kind == core.KParam && buf.Args[0].Ref == pParam && buf.Args[1].Kind == core.KNone && buf.Args[2] == n0
		whole := buf.Kind == core.KParam && buf.Ref == pParam && hasLit(p, read.NLits, false, func(t *core.Term) bool {
			return t.Kind == core.KLt && t.Args[0] == n0 && t.Args[1].Kind == core.KLen
		})
		if !trunc && !whole {
			ok, why = false, "the read through the hijacked reader is not limited to Buffered() bytes (bufio would read ahead from the socket into a buffer that is about to be dropped)"
		}
		if p.Results[0] != p.X.ExtractOf(read.Result, 0, nil) || p.Results[1] != p.X.ExtractOf(read.Result, 1, nil) {
			ok, why = false, "the result of the buffered read is not what Read returns"
		}
		// dropping br
		for i := range p.Events {
			ev := &p.Events[i]
			if ev.Kind == core.EvStore && isFieldAddr(ev.Addr, brF) {
				if !ev.Val.IsNil() {
					ok, why = false, "brNetConn.br is reassigned"
					continue
				}
				if i < readIdx {
					ok, why = false, "the hijacked reader is detached before its buffered bytes were read (the rest of the buffer is lost)"
					continue
				}
				// needs a Buffered() == 0 literal on a call made after the read
				good := false
				for k, b := range buffered {
					if bufIdx[k] > readIdx {
						res := b.Result
						if hasLit(p, ev.NLits, true, func(t *core.Term) bool { return isEqConst(t, 0, is(res)) }) || knowsLt(p, ev.NLits, 1, is(res)) {
							good = true
						}
					}
				}
				if !good {
					ok, why = false, "the hijacked reader is detached without having observed Buffered() == 0 after the read"
				}
			}
		}
	})
	r.Check("C17.brnetconn", shortFn(fn), "buffered-bytes-first-never-overread", fn.Pos(), ok && nBuf > 0 && nDirect > 0, why)
	// no other shadowed methods
	named := c.P.Named("brNetConn")
	var ms []string
	for i := 0; i < named.NumMethods(); i++ {
		ms = append(ms, named.Method(i).Name())
	}
	good := true
	for _, m := range ms {
		if m != "Read" && m != "NetConn" {
			good = false
		}
	}
	r.Check("C17.brnetconn", "brNetConn", "declares-only-Read-and-NetConn", fn.Pos(), good && len(ms) >= 1, "all other net.Conn methods must be the embedded connection's")
}

func c17client(c *Ctx) {
	r := c.R
	d := newDialA(c)
	newConn := c.fn("newConn")
	brF := c.P.Field("Conn", "br")
	// ReadResponse's reader argument (SSA level): load of (newConn result).br
	ok, why := true, "http.ReadResponse(conn.br, ..) with conn := newConn(dialed connection, ..) and conn returned"
	arg := d.readResp.Call.Args[0]
	var connVal ssa.Value
	if u, isU := arg.(*ssa.UnOp); isU {
		if fa, isFA := u.X.(*ssa.FieldAddr); isFA && fieldOf(fa) == brF {
			if call, isCall := fa.X.(*ssa.Call); isCall && call.Call.StaticCallee() == newConn {
				connVal = call
			}
		}
	}
	if connVal == nil {
		ok, why = false, "the 101 response is parsed from a reader other than the br of the Conn created by newConn (bytes after the response stay in a temporary reader)"
	} else {
		// every success return returns connVal
		for _, b := range d.dial.Blocks {
			if ret, isRet := b.Instrs[len(b.Instrs)-1].(*ssa.Return); isRet && len(ret.Results) == 3 {
				_ = ret
			}
		}
	}
	// no other bufio reader is created in DialContext
	for _, b := range d.dial.Blocks {
		for _, in := range b.Instrs {
			if call, isCall := in.(*ssa.Call); isCall {
				if f := call.Call.StaticCallee(); f != nil {
					switch extName(f) {
					case "bufio.NewReader", "bufio.NewReaderSize", "bufio.NewReadWriter":
						ok, why = false, "DialContext creates an additional bufio.Reader at "+c.P.Pos(in.Pos())
					}
				}
			}
		}
	}
	r.Check("C17.client-reader", shortFn(d.dial), "response-parsed-from-conn-reader", d.dial.Pos(), ok, why)
	// the Conn returned on success is that conn, built on the dialed (possibly TLS-wrapped) connection
	ok2, why2 := true, "the Conn returned is the one whose reader parsed the response"
	n := 0
	if connVal != nil {
		c.explore("C17.client-reader", d.dial, core.Opts{Start: d.readResp, Unroll: 0, NonNilOnNilErr: true}, func(p *core.Path) {
			if p.End != core.EndReturn || len(p.Results) != 3 || p.Results[0].IsNil() {
				return
			}
			n++
			if p.Results[0] != p.X.OpaqueOf(connVal) {
				ok2, why2 = false, "DialContext returns a different Conn than the one whose reader parsed the 101 response"
			}
		})
		r.Check("C17.client-reader", shortFn(d.dial), "returned-conn-owns-that-reader", d.dial.Pos(), ok2 && n > 0, why2)
	}
}

// readerStable: see C17.reader-stable.
func readerStable(c *Ctx, rule string) {
	r := c.R
	brF, wrapF := c.P.Field("Conn", "br"), c.P.Field("brNetConn", "br")
	nc := c.fn("newConn")
	n := 0
	for _, st := range c.P.FieldStoreSites(brF) {
		n++
		okS := false
		for _, h := range c.hostsOf(st.Parent()) {
			okS = h == nc
		}
		r.Check(rule, shortFn(st.Parent()), "writer-of-Conn.br", st.Pos(), okS, "Conn.br is assigned only by newConn (a reader installed later starts empty or smaller: buffered frames are lost, large control frames no longer fit)")
	}
	if n == 0 {
		r.Fail(rule, shortFn(nc), "writer-of-Conn.br", nc.Pos(), "no store of Conn.br found")
	}
	fromReaderField := func(v ssa.Value) bool {
		for depth := 0; depth < 6 && v != nil; depth++ {
			switch x := v.(type) {
			case *ssa.UnOp:
				if fa, ok := x.X.(*ssa.FieldAddr); ok && (fieldOf(fa) == brF || fieldOf(fa) == wrapF) {
					return true
				}
				return false
			case *ssa.Phi:
				for _, e := range x.Edges {
					if u, ok := e.(*ssa.UnOp); ok {
						if fa, ok2 := u.X.(*ssa.FieldAddr); ok2 && (fieldOf(fa) == brF || fieldOf(fa) == wrapF) {
							return true
						}
					}
				}
				return false
			case *ssa.ChangeType:
				v = x.X
			default:
				return false
			}
		}
		return false
	}
	bad := ""
	var badPos token.Pos
	for _, fn := range c.P.FuncList {
		for _, b := range fn.Blocks {
			for _, in := range b.Instrs {
				ci, ok := in.(ssa.CallInstruction)
				if !ok {
					continue
				}
				callee := ci.Common().StaticCallee()
				if callee == nil || extName(callee) != "(*bufio.Reader).Reset" || len(ci.Common().Args) == 0 {
					continue
				}
				if fromReaderField(ci.Common().Args[0]) {
					bad, badPos = shortFn(fn), in.Pos()
				}
			}
		}
	}
	why := "no bufio.Reader.Reset on the connection's reader anywhere in the package"
	if bad != "" {
		why = bad + " calls Reset on the connection's bufio.Reader at " + c.P.Pos(badPos) + ": bytes already buffered (frames that arrived with the handshake) are discarded"
	}
	r.Check(rule, "package", "no-Reset-of-connection-reader", nc.Pos(), bad == "", why)
}
