package rules

import (
	"golang.org/x/tools/go/ssa"

	"wsverif/core"
)

// sticky: read errors are permanent (shared by C04, C05, C08).
func (rd *reader) sticky(rule string) {
	c, r := rd.c, rd.c.R
	// (a) callers of advanceFrame
	callers := map[*ssa.Function]bool{}
	for _, g := range c.P.FuncList {
		for _, b := range g.Blocks {
			for _, in := range b.Instrs {
				for _, op := range in.Operands(nil) {
					if *op == ssa.Value(rd.advance) {
						callers[g] = true
					}
				}
			}
		}
	}
	nCallers := 0
	for _, g := range c.P.FuncList {
		if !callers[g] {
			continue
		}
		nCallers++
		ok, why := true, "advanceFrame is called under [readErr == nil]; its error is tested and a non-nil error is stored to readErr before the function returns or loops"
		nCalls := 0
		c.explore(rule, g, core.Opts{Unroll: 0, RecordLoads: true, Inline: rd.inl()}, func(p *core.Path) {
			var cur *core.Term // current content of readErr as far as this path knows
			for i := range p.Events {
				ev := &p.Events[i]
				switch {
				case ev.Kind == core.EvLoad && isFieldAddr(ev.Addr, rd.readErr):
					cur = ev.Val
				case ev.Kind == core.EvStore && isFieldAddr(ev.Addr, rd.readErr):
					cur = ev.Val
				case callsStatic(ev, rd.advance):
					nCalls++
					cc := cur
					if cc == nil || !(cc.IsNil() || hasLit(p, ev.NLits, true, func(t *core.Term) bool { return isEqNil(t, func(y *core.Term) bool { return y == cc }) })) {
						ok, why = false, "advanceFrame called at "+c.P.Pos(ev.Instr.Pos())+" without [readErr == nil] on the current value (a failed connection keeps parsing)"
					}
					e := errOf(p.X, ev.Result)
					isNil := hasLit(p, len(p.Lits), true, func(t *core.Term) bool { return isEqNil(t, func(y *core.Term) bool { return y == e }) })
					isNon := hasLit(p, len(p.Lits), false, func(t *core.Term) bool { return isEqNil(t, func(y *core.Term) bool { return y == e }) })
					if p.End == core.EndCut && !isNil && !isNon {
						continue
					}
					switch {
					case isNil:
					case isNon:
						stored := false
						for k := i + 1; k < len(p.Events); k++ {
							if e2 := &p.Events[k]; e2.Kind == core.EvStore && isFieldAddr(e2.Addr, rd.readErr) && e2.Val == e {
								stored = true
							}
						}
						if !stored {
							ok, why = false, "the error returned by advanceFrame at "+c.P.Pos(ev.Instr.Pos())+" is not stored to Conn.readErr on a path (error not sticky)"
						}
					default:
						ok, why = false, "the error returned by advanceFrame at "+c.P.Pos(ev.Instr.Pos())+" is not tested"
					}
				}
			}
		})
		if nCalls == 0 {
			ok, why = false, "advanceFrame is used as a value, not called"
		}
		r.Check(rule, shortFn(g), "advanceFrame-call-discipline", g.Pos(), ok, why)
	}
	// (b) stores to readErr never overwrite an error of an earlier call
	storeFns := map[*ssa.Function]bool{}
	for _, s := range c.P.FieldStoreSites(rd.readErr) {
		for _, h := range c.hostsOf(s.Parent()) { // extracted helpers are judged inside their callers
			storeFns[h] = true
		}
	}
	for _, g := range c.P.FuncList {
		if !storeFns[g] {
			continue
		}
		ok, why := true, "every store to readErr happens while the value found at entry is known nil, or replaces a value stored earlier in the same call"
		c.explore(rule, g, core.Opts{Unroll: 0, RecordLoads: true, Inline: rd.inl()}, func(p *core.Path) {
			var cur *core.Term
			curFromStore := false
			for i := range p.Events {
				ev := &p.Events[i]
				switch {
				case ev.Kind == core.EvLoad && isFieldAddr(ev.Addr, rd.readErr):
					cur, curFromStore = ev.Val, false
				case ev.Kind == core.EvStore && isFieldAddr(ev.Addr, rd.readErr):
					if !curFromStore {
						cc := cur
						if cc == nil || !hasLit(p, ev.NLits, true, func(t *core.Term) bool { return isEqNil(t, func(y *core.Term) bool { return y == cc }) }) {
							ok, why = false, "store to Conn.readErr at "+c.P.Pos(ev.Instr.Pos())+" may overwrite a non-nil error of an earlier call"
						}
					}
					cur, curFromStore = ev.Val, true
				case ev.Kind == core.EvCall && !ev.Inlined && ev.Static != nil && c.P.InPkg(ev.Static) && c.P.Mod(ev.Static).Writes[rd.readErr]:
					cur, curFromStore = nil, false
				}
			}
		})
		r.Check(rule, shortFn(g), "store-readErr-preserves-earlier-error", g.Pos(), ok, why)
	}
	// (c) NextReader returns the sticky error and no reader with it
	{
		ok, why := true, "NextReader returns (noFrame, nil, readErr) whenever readErr is non-nil; a reader is returned only with a nil error"
		c.explore(rule, rd.nextReader, core.Opts{Unroll: 0, RecordLoads: true, Inline: rd.inl()}, func(p *core.Path) {
			if p.End != core.EndReturn || len(p.Results) != 3 {
				return
			}
			var cur *core.Term
			for i := range p.Events {
				ev := &p.Events[i]
				if (ev.Kind == core.EvLoad || ev.Kind == core.EvStore) && isFieldAddr(ev.Addr, rd.readErr) {
					cur = ev.Val
				}
			}
			e, rdr := p.Results[2], p.Results[1]
			if e.IsNil() {
				if rdr.IsNil() {
					ok, why = false, "NextReader can return neither a reader nor an error"
				}
				return
			}
			if !rdr.IsNil() {
				ok, why = false, "NextReader returns a reader together with a non-nil error"
			}
			if e != cur {
				ok, why = false, "NextReader returns "+e.String()+" instead of the sticky Conn.readErr at "+c.P.Pos(p.Ret.Pos())
			}
		})
		r.Check(rule, shortFn(rd.nextReader), "returns-sticky-error", rd.nextReader.Pos(), ok, why)
	}
	if nCallers < 2 {
		r.Fail(rule, "", "advanceFrame-callers", rd.advance.Pos(), "fewer than 2 callers of advanceFrame found")
	}
}

// close1002: the protocol-error helper sends close 1002 and fails.
func (rd *reader) close1002(rule string) {
	c, r := rd.c, rd.c.R
	fcm := c.fn("FormatCloseMessage")
	closeMsg := c.P.ConstInt("CloseMessage")
	protoCode := c.P.ConstInt("CloseProtocolError")
	maxCtl := c.P.ConstInt("maxControlFramePayloadSize")
	ok, why := true, "WriteControl(CloseMessage, FormatCloseMessage(1002, message)[<=125], deadline) on every path; result is a non-nil error"
	n := 0
	c.explore(rule, rd.protoErr, core.Opts{}, func(p *core.Path) {
		if p.End != core.EndReturn {
			return
		}
		n++
		sent := false
		for i := range p.Events {
			ev := &p.Events[i]
			if !callsStatic(ev, rd.writeControl) || len(ev.Args) != 4 {
				continue
			}
			sent = true
			if v, isC := ev.Args[1].Int64(); !isC || v != closeMsg {
				ok, why = false, "handleProtocolError sends a control frame that is not a close frame"
			}
			data := ev.Args[2]
			sliced := false
			if data.Kind == core.KSlice {
				if hi, isC := data.Args[2].Int64(); isC && hi <= maxCtl {
					sliced = true
				}
				data = data.Args[0]
			}
			if data.Kind != core.KCall || data.Ref != interface{}(fcm) {
				ok, why = false, "close payload is not built by FormatCloseMessage"
				continue
			}
			if v, isC := data.Args[0].Int64(); !isC || v != protoCode || protoCode != 1002 {
				ok, why = false, "close frame sent on a protocol error does not carry status 1002"
			}
			if !futureDeadline(ev.Args[3]) {
				ok, why = false, "the 1002 close frame is sent with the deadline "+ev.Args[3].String()+", which is not now + a positive constant: a deadline that may already have passed (e.g. one the application set for an earlier write) makes WriteControl return a timeout without sending anything"
			}
			// length guard: payload truncated or known <= 125, or the reason text truncated / known <= 123 before
			// formatting (FormatCloseMessage returns 2 + len(text) bytes: C08.defaults / status-code-encoding)
			textBounded := false
			if len(data.Args) >= 2 {
				text := data.Args[1]
				if text.Kind == core.KSlice {
					if hi, isC := text.Args[2].Int64(); isC && hi <= maxCtl-2 {
						textBounded = true
					}
				}
				if knowsLt(p, ev.NLits, maxCtl-1, func(y *core.Term) bool { return y == p.X.Len(text) }) {
					textBounded = true
				}
			}
			if !sliced && !textBounded && !knowsLt(p, ev.NLits, maxCtl+1, func(y *core.Term) bool { return y.Kind == core.KLen }) {
				ok, why = false, "close payload may exceed 125 bytes (WriteControl would refuse it and nothing would be sent)"
			}
		}
		if !sent {
			ok, why = false, "a path of handleProtocolError sends no close frame"
		}
		if len(p.Results) != 1 || !c.nonNilErr(p.Results[0]) {
			ok, why = false, "handleProtocolError may return a nil error"
		}
	})
	if n == 0 {
		ok, why = false, "no returning path"
	}
	r.Check(rule, shortFn(rd.protoErr), "sends-1002-and-fails", rd.protoErr.Pos(), ok, why)
}

// futureDeadline: t is time.Now().Add(d) with a positive constant d, or the
// zero time (WriteControl treats it as "no deadline").
func futureDeadline(t *core.Term) bool {
	t = strip(t)
	if t.Kind == core.KSliceLit && len(t.Args) == 0 {
		return true
	}
	if t.Kind != core.KCall || len(t.Args) != 2 {
		return false
	}
	f, ok := t.Ref.(*ssa.Function)
	if !ok || extName(f) != "(time.Time).Add" {
		return false
	}
	now := strip(t.Args[0])
	g, ok := now.Ref.(*ssa.Function)
	if now.Kind != core.KCall || !ok || extName(g) != "time.Now" {
		return false
	}
	d, isC := t.Args[1].Int64()
	return isC && d > 0
}
