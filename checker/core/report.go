package core

import (
	"encoding/json"
	"fmt"
	"go/token"
	"os"
	"sort"
	"strings"
)

// Ob is one proof obligation of a rule on one construct.
type Ob struct {
	Rule      string `json:"rule"`
	Func      string `json:"function"`
	Construct string `json:"construct"` // normalised, line-free identification
	Pos       string `json:"site"`
	OK        bool   `json:"ok"`
	Reason    string `json:"reason"`
	Trivial   bool   `json:"-"` // anchor lookups etc.; not counted in distinct_nontrivial
	Known     bool   `json:"known_finding,omitempty"`
	Variant   string `json:"variant,omitempty"`
}

// KnownFinding is an entry of /verif/known_findings.json.
type KnownFinding struct {
	Property  string `json:"property"`
	Rule      string `json:"rule"`
	Function  string `json:"function"`
	Construct string `json:"construct"`
	Status    string `json:"status"` // "known" | "fixed"
	Commit    string `json:"commit,omitempty"`
	What      string `json:"what"`
}

// Result accumulates the obligations of one property run.
type Result struct {
	Prop        string
	P           *Prog
	Obs         []Ob
	Floors      map[string]int
	Assumptions []string
	TableNotes  []string // obligations discharged by a reviewed table entry
	Analysed    map[string]bool
	PathsSeen   int
	Notes       []string
	Rules       map[string]string // rule -> description
}

func NewResult(prop string, p *Prog) *Result {
	return &Result{Prop: prop, P: p, Floors: map[string]int{}, Analysed: map[string]bool{}, Rules: map[string]string{}}
}

// Rule registers a rule description (shown in evidence).
func (r *Result) Rule(id, desc string) { r.Rules[id] = desc }

// Check records an obligation.
func (r *Result) Check(rule, fn, construct string, pos token.Pos, ok bool, reason string) bool {
	r.Obs = append(r.Obs, Ob{Rule: rule, Func: fn, Construct: construct, Pos: r.P.Pos(pos), OK: ok, Reason: reason, Variant: r.P.Variant.Name})
	if fn != "" {
		r.Analysed[fn] = true
	}
	return ok
}

// Fail / Pass are conveniences.
func (r *Result) Fail(rule, fn, construct string, pos token.Pos, reason string) {
	r.Check(rule, fn, construct, pos, false, reason)
}
func (r *Result) Pass(rule, fn, construct string, pos token.Pos, reason string) {
	r.Check(rule, fn, construct, pos, true, reason)
}

// Floor requires at least n obligations (passed or failed) for rule; a rule
// that matches fewer instances than were confirmed by hand fails.
func (r *Result) Floor(rule string, n int) { r.Floors[rule] = n }

func (r *Result) Assume(s string) {
	for _, a := range r.Assumptions {
		if a == s {
			return
		}
	}
	r.Assumptions = append(r.Assumptions, s)
}

func (r *Result) Table(s string) { r.TableNotes = append(r.TableNotes, s) }

// Finish applies floors and de-duplicates obligations (same rule+function+
// construct reached on several paths count once; any failure wins).
func (r *Result) Finish() {
	type key struct{ rule, fn, c, v string }
	idx := map[key]int{}
	var out []Ob
	for _, o := range r.Obs {
		k := key{o.Rule, o.Func, o.Construct, o.Variant}
		if i, ok := idx[k]; ok {
			if out[i].OK && !o.OK {
				out[i] = o
			}
			continue
		}
		idx[k] = len(out)
		out = append(out, o)
	}
	r.Obs = out
	count := map[string]int{}
	for _, o := range r.Obs {
		count[o.Rule]++
	}
	var rules []string
	for rule := range r.Floors {
		rules = append(rules, rule)
	}
	sort.Strings(rules)
	for _, rule := range rules {
		if count[rule] < r.Floors[rule] {
			r.Obs = append(r.Obs, Ob{Rule: rule, Func: "", Construct: "floor", Pos: "-", OK: false, Variant: r.P.Variant.Name,
				Reason: fmt.Sprintf("rule matched %d instances, floor confirmed by reading is %d (vacuous or partially blind rule)", count[rule], r.Floors[rule])})
		}
	}
}

// LoadKnown reads the committed known-findings file.
func LoadKnown(path string) ([]KnownFinding, error) {
	b, err := os.ReadFile(path)
	if err != nil {
		if os.IsNotExist(err) {
			return nil, nil
		}
		return nil, err
	}
	var f struct {
		Findings []KnownFinding `json:"findings"`
	}
	if err := json.Unmarshal(b, &f); err != nil {
		return nil, err
	}
	return f.Findings, nil
}

// ApplyKnown marks failed obligations that match a "known" entry.
func ApplyKnown(obs []Ob, prop string, known []KnownFinding) (printed []string) {
	seen := map[string]bool{}
	for i := range obs {
		o := &obs[i]
		if o.OK {
			continue
		}
		for _, k := range known {
			if k.Status == "known" && k.Property == prop && k.Rule == o.Rule && k.Function == o.Func && k.Construct == o.Construct {
				o.Known = true
				line := fmt.Sprintf("KNOWN-FINDING: property=%s %s", prop, k.What)
				if !seen[line] {
					seen[line] = true
					printed = append(printed, line)
				}
			}
		}
	}
	return printed
}

func (o Ob) Diag() string {
	v := ""
	if o.Variant != "" && o.Variant != VDefault.Name {
		v = " [" + o.Variant + "]"
	}
	return fmt.Sprintf("%s: rule=%s instance=%s / %s%s : %s", o.Pos, o.Rule, o.Func, o.Construct, v, strings.TrimSpace(o.Reason))
}
