package core

import (
	"sync"
	"go/constant"
	"go/token"
	"go/types"

	"golang.org/x/tools/go/ssa"
)

// ---- term constructors with light, sound simplification ----

func isUnsigned(t types.Type) bool {
	if t == nil {
		return false
	}
	b, ok := t.Underlying().(*types.Basic)
	return ok && b.Info()&types.IsUnsigned != 0
}

func intBits(t types.Type, sizes types.Sizes) (bits int, unsigned, ok bool) {
	if t == nil {
		return 0, false, false
	}
	b, isB := t.Underlying().(*types.Basic)
	if !isB || b.Info()&types.IsInteger == 0 {
		return 0, false, false
	}
	if b.Kind() == types.UntypedInt || b.Kind() == types.UntypedRune {
		return 0, false, false
	}
	return int(sizes.Sizeof(t)) * 8, b.Info()&types.IsUnsigned != 0, true
}

// wrap truncates an integer constant to the width of typ.
func wrapConst(v constant.Value, typ types.Type, sizes types.Sizes) constant.Value {
	if v == nil || v.Kind() != constant.Int || typ == nil {
		return v
	}
	bits, uns, ok := intBits(typ, sizes)
	if !ok {
		return v
	}
	mod := constant.Shift(constant.MakeInt64(1), token.SHL, uint(bits))
	// v mod 2^bits, non-negative
	q := constant.BinaryOp(v, token.REM, mod)
	if constant.Sign(q) < 0 {
		q = constant.BinaryOp(q, token.ADD, mod)
	}
	if !uns {
		half := constant.Shift(constant.MakeInt64(1), token.SHL, uint(bits-1))
		if constant.Compare(q, token.GEQ, half) {
			q = constant.BinaryOp(q, token.SUB, mod)
		}
	}
	return q
}

func (x *Explorer) Not(a *Term) *Term {
	if a.Kind == KNot {
		return a.Args[0]
	}
	if b, ok := a.BoolVal(); ok {
		return x.T.Bool(!b)
	}
	return x.T.mk(Term{Kind: KNot, Args: []*Term{a}, Type: types.Typ[types.Bool]})
}

// nonNilShape: terms that can never be the nil value.
func nonNilShape(t *Term) bool {
	switch t.Kind {
	case KAlloc, KGlobal, KFieldAddr, KIndexAddr, KFunc, KClosure, KMakeIface, KMake, KSliceLit:
		return true
	case KConst:
		return t.Val != nil
	case KConv:
		return nonNilShape(t.Args[0])
	case KCall:
		// constructors of the standard library that never return nil
		if f, ok := t.Ref.(*ssa.Function); ok && f.Blocks == nil && f.Pkg != nil {
			switch f.Pkg.Pkg.Path() + "." + f.Name() {
			case "errors.New", "fmt.Errorf", "bufio.NewReader", "bufio.NewReaderSize", "bufio.NewWriter", "bufio.NewWriterSize", "bytes.NewReader", "strings.NewReader":
				return true
			}
		}
		if f, ok := t.Ref.(*ssa.Function); ok && f.Blocks != nil && f.Signature.Results().Len() == 1 {
			return alwaysNonNilResult(f, 0, 0)
		}
	case KExtract:
		if c := t.Args[0]; c.Kind == KCall {
			if f, ok := c.Ref.(*ssa.Function); ok && f.Blocks != nil && t.N < f.Signature.Results().Len() {
				return alwaysNonNilResult(f, t.N, 0)
			}
		}
	}
	return false
}

// alwaysNonNilResult: every return of the in-package function f yields, as
// result k, a value that cannot be nil by construction (a boxed value, a fresh
// allocation, a function, or the same result of another such function).  A
// purely syntactic summary: spilled results (functions with defer) are not
// followed and count as "may be nil".
var nonNilSummaries sync.Map

type nonNilKey struct {
	f *ssa.Function
	k int
}

func alwaysNonNilResult(f *ssa.Function, k, depth int) bool {
	if v, ok := nonNilSummaries.Load(nonNilKey{f, k}); ok {
		return v.(bool)
	}
	if depth > 4 {
		return false
	}
	res, n := true, 0
	var shape func(v ssa.Value) bool
	shape = func(v ssa.Value) bool {
		switch v := v.(type) {
		case *ssa.MakeInterface, *ssa.Alloc, *ssa.MakeSlice, *ssa.MakeMap, *ssa.MakeChan, *ssa.MakeClosure, *ssa.Function:
			return true
		case *ssa.ChangeInterface:
			return shape(v.X)
		case *ssa.Call:
			if g := v.Call.StaticCallee(); g != nil && g.Blocks != nil && g.Signature.Results().Len() == 1 {
				return alwaysNonNilResult(g, 0, depth+1)
			}
		case *ssa.Extract:
			if c, ok := v.Tuple.(*ssa.Call); ok {
				if g := c.Call.StaticCallee(); g != nil && g.Blocks != nil {
					return alwaysNonNilResult(g, v.Index, depth+1)
				}
			}
		}
		return false
	}
	for _, b := range f.Blocks {
		for _, in := range b.Instrs {
			if r, ok := in.(*ssa.Return); ok {
				n++
				if k >= len(r.Results) || !shape(r.Results[k]) {
					res = false
				}
			}
		}
	}
	res = res && n > 0
	if depth == 0 {
		nonNilSummaries.Store(nonNilKey{f, k}, res)
	}
	return res
}

func (x *Explorer) Eq(a, b *Term) *Term {
	if isIntegerTerm(a) && isIntegerTerm(b) {
		a, b = x.stripWiden(a), x.stripWiden(b)
	}
	if a == b {
		// identical symbolic value (NaN aside, irrelevant here)
		return x.T.Bool(true)
	}
	if a.IsConst() && b.IsConst() {
		if a.Val.Kind() == b.Val.Kind() || (a.Val.Kind() != constant.String && b.Val.Kind() != constant.String && a.Val.Kind() != constant.Bool && b.Val.Kind() != constant.Bool) {
			return x.T.Bool(constant.Compare(a.Val, token.EQL, b.Val))
		}
	}
	if a.IsNil() && b.IsNil() {
		return x.T.Bool(true)
	}
	if (a.IsNil() && (nonNilShape(b) || x.nonNilGlobalLoad(b))) || (b.IsNil() && (nonNilShape(a) || x.nonNilGlobalLoad(a))) {
		return x.T.Bool(false)
	}
	// distinct allocations are distinct addresses
	if a.Kind == KAlloc && b.Kind == KAlloc {
		return x.T.Bool(false)
	}
	// bool == const  ->  the bool or its negation
	if bv, ok := b.BoolVal(); ok {
		if bv {
			return a
		}
		return x.Not(a)
	}
	if av, ok := a.BoolVal(); ok {
		if av {
			return b
		}
		return x.Not(b)
	}
	// canonical order: constants / nil second, else by ID
	if (a.Kind == KConst && b.Kind != KConst) || (a.Kind != KConst && b.Kind != KConst && a.ID > b.ID) {
		a, b = b, a
	}
	return x.T.mk(Term{Kind: KEq, Args: []*Term{a, b}, Type: types.Typ[types.Bool]})
}

// stripWiden removes value-preserving integer conversions (widening, or same
// width and signedness) so that int64(len(b)) and len(b) compare as one term.
func (x *Explorer) stripWiden(t *Term) *Term {
	for t.Kind == KConv {
		b1, u1, ok1 := intBits(t.Args[0].Type, x.P.Pkg.TypesSizes)
		b2, u2, ok2 := intBits(t.Type, x.P.Pkg.TypesSizes)
		if !ok1 || !ok2 {
			if t.Args[0].Type == nil && ok2 && (t.Args[0].Kind == KLen || t.Args[0].Kind == KCap) && b2 >= 32 && !u2 {
				t = t.Args[0]
				continue
			}
			return t
		}
		if (b2 > b1 && (u1 == u2 || u1)) || (b2 == b1 && u1 == u2) {
			t = t.Args[0]
			continue
		}
		return t
	}
	return t
}

func (x *Explorer) Lt(a, b *Term) *Term {
	a, b = x.stripWiden(a), x.stripWiden(b)
	if a == b {
		return x.T.Bool(false)
	}
	// canonical form for integer comparisons with a constant: (c < x) == !(x < c+1)
	if cv, ok := a.Int64(); ok && !b.IsConst() && cv < (1<<62) && cv > -(1<<62) && isIntegerTerm(b) {
		return x.Not(x.Lt(b, x.T.Const(constant.MakeInt64(cv+1), b.Type)))
	}
	if a.IsConst() && b.IsConst() && a.Val.Kind() == b.Val.Kind() {
		return x.T.Bool(constant.Compare(a.Val, token.LSS, b.Val))
	}
	// interval reasoning for len()/byte/mask terms
	if lo, ok := x.lower(b); ok {
		if hi, ok2 := x.upper(a); ok2 && hi < lo {
			return x.T.Bool(true)
		}
	}
	if hi, ok := x.upper(b); ok {
		if lo, ok2 := x.lower(a); ok2 && lo >= hi {
			return x.T.Bool(false)
		}
	}
	return x.T.mk(Term{Kind: KLt, Args: []*Term{a, b}, Type: types.Typ[types.Bool]})
}

// lower / upper: cheap constant bounds of integer terms.
func (x *Explorer) lower(t *Term) (int64, bool) {
	if k, ok := x.known[t.ID]; ok && k != nil {
		if c, isC := k.Int64(); isC {
			return c, true
		}
	}
	if b, ok := x.bounds[t.ID]; ok && b.hasLo {
		if s, ok2 := x.lowerS(t); ok2 && s > b.lo {
			return s, true
		}
		return b.lo, true
	}
	return x.lowerS(t)
}

func (x *Explorer) lowerS(t *Term) (int64, bool) {
	switch t.Kind {
	case KConst:
		return t.Int64()
	case KLen, KCap:
		a := t.Args[0]
		switch a.Kind {
		case KAppend:
			l1, _ := x.lower(x.Len(a.Args[0]))
			l2, _ := x.lower(x.Len(a.Args[1]))
			return l1 + l2, true
		case KSliceLit:
			return int64(len(a.Args)), true
		}
		return 0, true
	case KConv:
		if b1, uns, ok := intBits(t.Args[0].Type, x.P.Pkg.TypesSizes); ok {
			b2, uns2, ok2 := intBits(t.Type, x.P.Pkg.TypesSizes)
			if ok2 && (b2 > b1 || (b2 == b1 && uns == uns2)) && !(uns2 && !uns) {
				if lo, has := x.lower(t.Args[0]); has {
					return lo, true
				}
			}
			if uns && ok2 && b2 > b1 {
				return 0, true
			}
			if uns2 {
				return 0, true
			}
		}
	case KBin:
		if t.Op == token.REM {
			if c, ok := t.Args[1].Int64(); ok && c > 0 {
				if lo, has := x.lower(t.Args[0]); has && lo >= 0 {
					return 0, true
				}
				return -(c - 1), true
			}
		}
		if (t.Op == token.QUO || t.Op == token.MUL) && !isUnsigned(t.Type) {
			if c, ok := t.Args[1].Int64(); ok && c > 0 {
				if lo, has := x.lower(t.Args[0]); has && lo >= 0 {
					if t.Op == token.QUO {
						return lo / c, true
					}
					return lo * c, true
				}
			}
		}
		if t.Op == token.SUB && !isUnsigned(t.Type) {
			if lo, has := x.lower(t.Args[0]); has {
				if hi, has2 := x.upper(t.Args[1]); has2 {
					return lo - hi, true
				}
			}
		}
		if t.Op == token.ADD || t.Op == token.SUB {
			if c, ok := t.Args[1].Int64(); ok {
				if lo, has := x.lower(t.Args[0]); has && !isUnsigned(t.Type) {
					if t.Op == token.ADD {
						return lo + c, true
					}
					return lo - c, true
				}
			}
			if t.Op == token.ADD {
				l1, ok1 := x.lower(t.Args[0])
				l2, ok2 := x.lower(t.Args[1])
				if ok1 && ok2 && !isUnsigned(t.Type) {
					return l1 + l2, true
				}
			}
		}
		if t.Op == token.AND {
			if isUnsigned(t.Type) {
				return 0, true
			}
			for _, a := range t.Args {
				if c, ok := a.Int64(); ok && c >= 0 {
					return 0, true
				}
			}
		}
		if isUnsigned(t.Type) {
			return 0, true
		}
	case KLoad, KIndex, KParam, KExtract, KField:
		if t.Type != nil && isUnsigned(t.Type) {
			return 0, true
		}
	}
	return 0, false
}

func (x *Explorer) upper(t *Term) (int64, bool) {
	if k, ok := x.known[t.ID]; ok && k != nil {
		if c, isC := k.Int64(); isC {
			return c, true
		}
	}
	if b, ok := x.bounds[t.ID]; ok && b.hasHi {
		if s, ok2 := x.upperS(t); ok2 && s < b.hi {
			return s, true
		}
		return b.hi, true
	}
	return x.upperS(t)
}

func (x *Explorer) upperS(t *Term) (int64, bool) {
	switch t.Kind {
	case KConst:
		return t.Int64()
	case KLen:
		a := t.Args[0]
		if a.IsNil() {
			return 0, true
		}
		if a.Kind == KSliceLit {
			return int64(len(a.Args)), true
		}
	case KConv:
		if b1, uns, ok := intBits(t.Args[0].Type, x.P.Pkg.TypesSizes); ok {
			b2, uns2, ok2 := intBits(t.Type, x.P.Pkg.TypesSizes)
			if ok2 && (b2 > b1 || (b2 == b1 && uns == uns2)) && !(uns2 && !uns) {
				if hi, has := x.upper(t.Args[0]); has {
					return hi, true
				}
				if uns && b1 <= 32 {
					return int64(1)<<uint(b1) - 1, true
				}
			}
			// narrowing of a value known to fit keeps the bound
			if ok2 && b2 < b1 {
				lo, hasLo := x.lower(t.Args[0])
				hi, hasHi := x.upper(t.Args[0])
				if hasLo && hasHi && lo >= 0 && b2 >= 8 && hi < int64(1)<<uint(b2-1) {
					return hi, true
				}
			}
		}
	case KBin:
		if t.Op == token.REM {
			if c, ok := t.Args[1].Int64(); ok && c > 0 {
				return c - 1, true
			}
		}
		if t.Op == token.SUB {
			if hi, has := x.upper(t.Args[0]); has {
				if lo, has2 := x.lower(t.Args[1]); has2 {
					return hi - lo, true
				}
			}
		}
		if t.Op == token.ADD || t.Op == token.SUB {
			if c, ok := t.Args[1].Int64(); ok {
				if hi, has := x.upper(t.Args[0]); has {
					if t.Op == token.ADD {
						return hi + c, true
					}
					return hi - c, true
				}
			}
		}
		if t.Op == token.AND {
			best, found := int64(0), false
			for _, a := range t.Args {
				if c, ok := a.Int64(); ok && c >= 0 && (!found || c < best) {
					best, found = c, true
				}
			}
			if found {
				return best, true
			}
		}
	case KLoad, KIndex, KParam, KExtract, KField:
		if t.Type != nil {
			if bits, uns, ok := intBits(t.Type, x.P.Pkg.TypesSizes); ok && uns && bits <= 32 {
				return int64(1)<<uint(bits) - 1, true
			}
		}
	}
	return 0, false
}

func (x *Explorer) Len(a *Term) *Term {
	switch a.Kind {
	case KConst:
		if s, ok := a.StrVal(); ok {
			return x.T.Int(int64(len(s)))
		}
		if a.Val == nil {
			return x.T.Int(0)
		}
	case KSliceLit:
		return x.T.Int(int64(len(a.Args)))
	case KMake:
		if len(a.Args) > 0 {
			return a.Args[0]
		}
	case KSlice:
		// constant bounds
		if hi, ok := a.Args[2].Int64(); ok {
			if a.Args[1].Kind == KNone {
				return x.T.Int(hi)
			}
			if lo, ok2 := a.Args[1].Int64(); ok2 {
				return x.T.Int(hi - lo)
			}
		}
		// x[lo:hi] with hi present: hi - lo ; x[lo:]: len(x) - lo
		if a.Args[2].Kind != KNone {
			if a.Args[1].Kind == KNone {
				return x.stripWiden(a.Args[2])
			}
			return x.Bin(token.SUB, x.stripWiden(a.Args[2]), x.stripWiden(a.Args[1]), types.Typ[types.Int])
		}
		if a.Args[1].Kind != KNone && a.Args[0].Type != nil {
			if _, isPtr := a.Args[0].Type.Underlying().(*types.Pointer); !isPtr {
				return x.Bin(token.SUB, x.Len(a.Args[0]), x.stripWiden(a.Args[1]), types.Typ[types.Int])
			}
		}
		// arr[lo:] of an array (through its pointer): static length - lo
		if a.Args[1].Kind != KNone && a.Args[2].Kind == KNone && a.Args[0].Type != nil {
			if pt, ok := a.Args[0].Type.Underlying().(*types.Pointer); ok {
				if at, ok := pt.Elem().Underlying().(*types.Array); ok {
					return x.Bin(token.SUB, x.T.Int(at.Len()), x.stripWiden(a.Args[1]), types.Typ[types.Int])
				}
			}
		}
		// full slice of an array: its static length
		if a.Args[1].Kind == KNone && a.Args[2].Kind == KNone && a.Args[0].Type != nil {
			if pt, ok := a.Args[0].Type.Underlying().(*types.Pointer); ok {
				if at, ok := pt.Elem().Underlying().(*types.Array); ok {
					return x.T.Int(at.Len())
				}
			}
		}
	case KAppend:
		l1, l2 := x.Len(a.Args[0]), x.Len(a.Args[1])
		if l1.IsConst() && l2.IsConst() {
			return x.Bin(token.ADD, l1, l2, types.Typ[types.Int])
		}
	case KConv:
		// len([]byte(s)) == len(s) for string<->[]byte conversions
		if isBytesOrString(a.Type) && isBytesOrString(a.Args[0].Type) {
			return x.Len(a.Args[0])
		}
	}
	return x.T.mk(Term{Kind: KLen, Args: []*Term{a}, Type: types.Typ[types.Int]})
}

func isBytesOrString(t types.Type) bool {
	if t == nil {
		return false
	}
	switch u := t.Underlying().(type) {
	case *types.Basic:
		return u.Info()&types.IsString != 0
	case *types.Slice:
		b, ok := u.Elem().Underlying().(*types.Basic)
		return ok && b.Kind() == types.Byte
	}
	return false
}

// Bin builds a binary operation (comparisons are canonicalised to Eq/Lt/Not).
func (x *Explorer) Bin(op token.Token, a, b *Term, typ types.Type) *Term {
	switch op {
	case token.EQL:
		return x.Eq(a, b)
	case token.NEQ:
		return x.Not(x.Eq(a, b))
	case token.LSS:
		return x.Lt(a, b)
	case token.GTR:
		return x.Lt(b, a)
	case token.LEQ:
		return x.Not(x.Lt(b, a))
	case token.GEQ:
		return x.Not(x.Lt(a, b))
	}
	if a.IsConst() && b.IsConst() {
		if v, ok := foldBin(op, a.Val, b.Val); ok {
			return x.T.Const(wrapConst(v, typ, x.P.Pkg.TypesSizes), typ)
		}
	}
	// (p + q) - p  =  q ;  (p + q) - q  =  p   (integers)
	if op == token.SUB && a.Kind == KBin && a.Op == token.ADD && isIntegerTerm(a) && !isUnsigned(typ) {
		if a.Args[0] == b {
			return a.Args[1]
		}
		if a.Args[1] == b {
			return a.Args[0]
		}
	}
	// x - x, x ^ x
	if a == b && (op == token.SUB || op == token.XOR) && isIntegerTerm(a) {
		return x.T.Const(constant.MakeInt64(0), typ)
	}
	// x + 0, x | 0, x - 0
	if c, ok := b.Int64(); ok && c == 0 && (op == token.ADD || op == token.OR || op == token.SUB || op == token.XOR || op == token.SHL || op == token.SHR) {
		return a
	}
	if c, ok := a.Int64(); ok && c == 0 && (op == token.ADD || op == token.OR || op == token.XOR) {
		return b
	}
	// commutative: order operands
	if (op == token.ADD && !isStringType(typ)) || op == token.MUL || op == token.AND || op == token.OR || op == token.XOR {
		if (a.Kind == KConst && b.Kind != KConst) || (a.Kind != KConst && b.Kind != KConst && a.ID > b.ID) {
			a, b = b, a
		}
		// (y + c1) + c2 -> y + (c1+c2)
		if op == token.ADD && b.IsConst() && a.Kind == KBin && a.Op == token.ADD && a.Args[1].IsConst() {
			if v, ok := foldBin(token.ADD, a.Args[1].Val, b.Val); ok {
				return x.Bin(token.ADD, a.Args[0], x.T.Const(wrapConst(v, typ, x.P.Pkg.TypesSizes), typ), typ)
			}
		}
	}
	res := x.T.mk(Term{Kind: KBin, Op: op, Args: []*Term{a, b}, Type: typ})
	// linear cancellation over signed integers: len(p) - (n + ((len(p) - n) - 4)) is 4, (a + b) - b is a
	if (op == token.ADD || op == token.SUB) && isIntegerTerm(res) && !isUnsigned(typ) && (a.Kind == KBin || b.Kind == KBin) {
		if atoms, k, ok := x.linear(res, 0); ok {
			nz := 0
			var only *Term
			var coef int64
			for id, cf := range atoms {
				if cf != 0 {
					nz++
					only, coef = x.T.byID[id], cf
				}
			}
			switch {
			case nz == 0:
				return x.T.Const(constant.MakeInt64(k), typ)
			case nz == 1 && coef == 1 && k == 0 && only != nil:
				return only
			}
		}
	}
	return res
}

// linear writes an integer term as sum(coef_i * atom_i) + k over +, - and
// constant factors (atoms are sub-terms it does not look into).
func (x *Explorer) linear(t *Term, depth int) (map[int]int64, int64, bool) {
	if depth > 12 {
		return nil, 0, false
	}
	if c, ok := t.Int64(); ok {
		return map[int]int64{}, c, true
	}
	if t.Kind == KBin && (t.Op == token.ADD || t.Op == token.SUB) && !isUnsigned(t.Type) && !isStringType(t.Type) {
		la, ka, ok1 := x.linear(t.Args[0], depth+1)
		lb, kb, ok2 := x.linear(t.Args[1], depth+1)
		if !ok1 || !ok2 {
			return nil, 0, false
		}
		out := map[int]int64{}
		for id, c := range la {
			out[id] += c
		}
		sign := int64(1)
		if t.Op == token.SUB {
			sign = -1
		}
		for id, c := range lb {
			out[id] += sign * c
		}
		return out, ka + sign*kb, true
	}
	w := x.stripWiden(t)
	if w != t {
		return x.linear(w, depth+1)
	}
	return map[int]int64{t.ID: 1}, 0, true
}

func isStringType(t types.Type) bool {
	if t == nil {
		return false
	}
	b, ok := t.Underlying().(*types.Basic)
	return ok && b.Info()&types.IsString != 0
}

func foldBin(op token.Token, a, b constant.Value) (v constant.Value, ok bool) {
	defer func() {
		if recover() != nil {
			ok = false
		}
	}()
	switch op {
	case token.SHL, token.SHR:
		s, exact := constant.Uint64Val(b)
		if !exact || s > 512 {
			return nil, false
		}
		return constant.Shift(a, op, uint(s)), true
	case token.QUO:
		if a.Kind() == constant.Int && b.Kind() == constant.Int {
			if constant.Sign(b) == 0 {
				return nil, false
			}
			return constant.BinaryOp(a, token.QUO_ASSIGN, b), true
		}
	case token.REM:
		if constant.Sign(b) == 0 {
			return nil, false
		}
	case token.AND_NOT:
		return constant.BinaryOp(a, token.AND_NOT, b), true
	}
	if a.Kind() != b.Kind() {
		return nil, false
	}
	return constant.BinaryOp(a, op, b), true
}

func (x *Explorer) Conv(a *Term, typ types.Type) *Term {
	if a.IsConst() && a.Val.Kind() == constant.Int {
		if _, _, ok := intBits(typ, x.P.Pkg.TypesSizes); ok {
			return x.T.Const(wrapConst(a.Val, typ, x.P.Pkg.TypesSizes), typ)
		}
	}
	if a.IsConst() && a.Val.Kind() == constant.String && isStringType(typ) {
		return x.T.Const(a.Val, typ)
	}
	if a.Type != nil && types.Identical(a.Type, typ) {
		return a
	}
	return x.T.mk(Term{Kind: KConv, Type: typ, Args: []*Term{a}})
}

// Lower / Upper expose the constant bounds known for a term on the current path.
func (x *Explorer) Lower(t *Term) (int64, bool) { return x.lower(t) }
func (x *Explorer) Upper(t *Term) (int64, bool) { return x.upper(t) }

// nonNilGlobalLoad: t loads a package-level variable of this package that is
// assigned exactly once, in the package initialiser, with a non-nil value.
func (x *Explorer) nonNilGlobalLoad(t *Term) bool {
	for t.Kind == KMakeIface || t.Kind == KConv {
		t = t.Args[0]
	}
	if t.Kind != KLoad || t.Args[0].Kind != KGlobal {
		return false
	}
	return x.P.NonNilGlobal(t.Args[0].Ref.(*ssa.Global))
}

func isIntegerTerm(t *Term) bool {
	if t.Type == nil {
		return t.Kind == KLen || t.Kind == KCap
	}
	b, ok := t.Type.Underlying().(*types.Basic)
	return ok && b.Info()&types.IsInteger != 0
}

// CapOf builds cap(a).
func (x *Explorer) CapOf(a *Term) *Term {
	return x.T.mk(Term{Kind: KCap, Args: []*Term{a}, Type: types.Typ[types.Int]})
}

// StripWiden exposes the canonical form used inside comparisons.
func (x *Explorer) StripWiden(t *Term) *Term { return x.stripWiden(t) }
