package core

import (
	"go/constant"
	"go/token"
	"go/types"
)

// Value of a finite-domain evaluation: an integer/bool/string constant.
// Eval evaluates a pure scalar term under an assignment of leaf terms to
// constants.  It is used to extract decision tables of guards over finite
// alphabets (header bytes, state bits, close codes): the terms are those of
// the analysed source; no library code is executed.
func (x *Explorer) Eval(t *Term, leaf func(*Term) (constant.Value, bool)) (constant.Value, bool) {
	if v, ok := leaf(t); ok {
		return v, true
	}
	switch t.Kind {
	case KConst:
		if t.Val == nil {
			return nil, false
		}
		return t.Val, true
	case KNot:
		v, ok := x.Eval(t.Args[0], leaf)
		if !ok || v.Kind() != constant.Bool {
			return nil, false
		}
		return constant.MakeBool(!constant.BoolVal(v)), true
	case KEq, KLt:
		a, ok1 := x.Eval(t.Args[0], leaf)
		b, ok2 := x.Eval(t.Args[1], leaf)
		if !ok1 || !ok2 {
			return nil, false
		}
		if a.Kind() != b.Kind() && !(numeric(a) && numeric(b)) {
			return nil, false
		}
		op := token.EQL
		if t.Kind == KLt {
			op = token.LSS
		}
		if a.Kind() == constant.Bool && t.Kind == KLt {
			return nil, false
		}
		return constant.MakeBool(constant.Compare(a, op, b)), true
	case KBin:
		a, ok1 := x.Eval(t.Args[0], leaf)
		b, ok2 := x.Eval(t.Args[1], leaf)
		if !ok1 || !ok2 {
			return nil, false
		}
		v, ok := foldBin(t.Op, a, b)
		if !ok {
			return nil, false
		}
		return wrapConst(v, t.Type, x.P.Pkg.TypesSizes), true
	case KUn:
		a, ok := x.Eval(t.Args[0], leaf)
		if !ok {
			return nil, false
		}
		switch t.Op {
		case token.SUB:
			return wrapConst(constant.UnaryOp(token.SUB, a, 0), t.Type, x.P.Pkg.TypesSizes), true
		case token.XOR:
			bits, uns, okb := intBits(t.Type, x.P.Pkg.TypesSizes)
			if !okb {
				return nil, false
			}
			prec := uint(0)
			if uns {
				prec = uint(bits)
			}
			return wrapConst(constant.UnaryOp(token.XOR, a, prec), t.Type, x.P.Pkg.TypesSizes), true
		}
	case KConv:
		a, ok := x.Eval(t.Args[0], leaf)
		if !ok {
			return nil, false
		}
		if a.Kind() == constant.Int {
			if _, _, isInt := intBits(t.Type, x.P.Pkg.TypesSizes); isInt {
				return wrapConst(a, t.Type, x.P.Pkg.TypesSizes), true
			}
			return nil, false
		}
		if a.Kind() == constant.String && isStringType(t.Type) {
			return a, true
		}
		if a.Kind() == constant.Bool {
			return a, true
		}
	case KLen:
		a, ok := x.Eval(t.Args[0], leaf)
		if ok && a.Kind() == constant.String {
			return constant.MakeInt64(int64(len(constant.StringVal(a)))), true
		}
	}
	return nil, false
}

func numeric(v constant.Value) bool { return v.Kind() == constant.Int || v.Kind() == constant.Float }

// Leaves collects the maximal sub-terms of t for which isLeaf holds.
func Leaves(t *Term, isLeaf func(*Term) bool, out map[*Term]bool) {
	if isLeaf(t) {
		out[t] = true
		return
	}
	for _, a := range t.Args {
		Leaves(a, isLeaf, out)
	}
}

// Evaluable reports whether t consists only of scalar operators over leaves
// accepted by isLeaf and constants.
func Evaluable(t *Term, isLeaf func(*Term) bool) bool {
	if isLeaf(t) {
		return true
	}
	switch t.Kind {
	case KConst:
		return t.Val != nil
	case KNot, KEq, KLt, KBin, KUn, KConv:
		for _, a := range t.Args {
			if !Evaluable(a, isLeaf) {
				return false
			}
		}
		return true
	}
	return false
}

var _ = types.Typ
