package core

import "sort"

// Linear integer arithmetic over the facts of the current path: the last
// resort of ProveLeq / ProveLt.  The goal's negation and the relevant recorded
// facts (a < b, !(a < b), a == b between integer terms, constant bounds) are
// written as  sum c_i * atom_i + k <= 0  over opaque atoms (any term that is
// not a +/- of other terms) and Fourier-Motzkin elimination looks for a
// contradiction.  Infeasible over the rationals implies infeasible over the
// integers, so a "proved" answer is sound; strict inequalities use the integer
// tightening a < b  <=>  a + 1 <= b.  Machine overflow is ignored exactly as in
// the rest of the prover (signed index arithmetic).

type linCon struct {
	c map[int]int64
	k int64
}

const (
	linMaxFacts = 80
	linMaxCons  = 600
	linMaxCoef  = int64(1) << 40
)

// linDiff: a - b + k <= 0 as a constraint.
func (x *Explorer) linDiff(a, b *Term, k int64) (linCon, bool) {
	if !isIntegerTerm(a) || !isIntegerTerm(b) {
		return linCon{}, false
	}
	la, ka, ok1 := x.linear(a, 0)
	lb, kb, ok2 := x.linear(b, 0)
	if !ok1 || !ok2 {
		return linCon{}, false
	}
	out := linCon{c: map[int]int64{}, k: ka - kb + k}
	for id, c := range la {
		out.c[id] += c
	}
	for id, c := range lb {
		out.c[id] -= c
	}
	for id, c := range out.c {
		if c == 0 {
			delete(out.c, id)
		}
	}
	return out, true
}

// linProve decides a <= b (strict: a < b) from the path's facts.
func (x *Explorer) linProve(a, b *Term, strict bool) bool {
	if x.inLin {
		return false
	}
	x.inLin = true
	defer func() { x.inLin = false }()
	// negated goal: strict ? b <= a : b + 1 <= a
	k := int64(1)
	if strict {
		k = 0
	}
	goal, ok := x.linDiff(b, a, k)
	if !ok {
		return false
	}
	if len(goal.c) == 0 {
		return goal.k > 0
	}
	// candidate facts
	type cand struct {
		con linCon
	}
	var pool []linCon
	ids := make([]int, 0, len(x.facts))
	for id := range x.facts {
		ids = append(ids, id)
	}
	sort.Ints(ids)
	for _, id := range ids {
		v := x.facts[id]
		t := x.T.byID[id]
		if t == nil || len(t.Args) != 2 {
			continue
		}
		switch {
		case t.Kind == KLt && v: // A < B
			if c, ok := x.linDiff(t.Args[0], t.Args[1], 1); ok {
				pool = append(pool, c)
			}
		case t.Kind == KLt && !v: // B <= A
			if c, ok := x.linDiff(t.Args[1], t.Args[0], 0); ok {
				pool = append(pool, c)
			}
		case t.Kind == KEq && v:
			if c, ok := x.linDiff(t.Args[0], t.Args[1], 0); ok {
				pool = append(pool, c)
				if c2, ok2 := x.linDiff(t.Args[1], t.Args[0], 0); ok2 {
					pool = append(pool, c2)
				}
			}
		}
	}
	// relevance closure from the goal's atoms
	atoms := map[int]bool{}
	for id := range goal.c {
		atoms[id] = true
	}
	used := make([]bool, len(pool))
	cons := []linCon{goal}
	for round := 0; round < 4; round++ {
		grew := false
		for i, c := range pool {
			if used[i] || len(cons) > linMaxFacts {
				continue
			}
			hit := false
			for id := range c.c {
				if atoms[id] {
					hit = true
					break
				}
			}
			if !hit {
				continue
			}
			used[i] = true
			cons = append(cons, c)
			for id := range c.c {
				if !atoms[id] {
					atoms[id] = true
					grew = true
				}
			}
		}
		if !grew {
			break
		}
	}
	// constant bounds and known values of the atoms
	aids := make([]int, 0, len(atoms))
	for id := range atoms {
		aids = append(aids, id)
	}
	sort.Ints(aids)
	for _, id := range aids {
		t := x.T.byID[id]
		if t == nil {
			continue
		}
		if lo, has := x.lower(t); has && lo > -linMaxCoef { // lo - t <= 0
			cons = append(cons, linCon{c: map[int]int64{id: -1}, k: lo})
		}
		if hi, has := x.upper(t); has && hi < linMaxCoef { // t - hi <= 0
			cons = append(cons, linCon{c: map[int]int64{id: 1}, k: -hi})
		}
	}
	return fmInfeasible(cons, aids)
}

func gcd64(a, b int64) int64 {
	if a < 0 {
		a = -a
	}
	if b < 0 {
		b = -b
	}
	for b != 0 {
		a, b = b, a%b
	}
	return a
}

// normalise divides by the gcd of the coefficients, rounding the constant up
// (integer tightening); reports false when a coefficient grew too large.
func (c *linCon) normalise() bool {
	g := int64(0)
	for _, v := range c.c {
		if v > linMaxCoef || v < -linMaxCoef {
			return false
		}
		g = gcd64(g, v)
	}
	if c.k > linMaxCoef || c.k < -linMaxCoef {
		return false
	}
	if g > 1 {
		for id, v := range c.c {
			c.c[id] = v / g
		}
		// sum + k <= 0 with sum a multiple of g: sum/g + ceil(k/g) <= 0
		q := c.k / g
		if c.k%g != 0 && c.k > 0 {
			q++
		}
		c.k = q
	}
	return true
}

// fmInfeasible: the conjunction of the constraints has no rational solution.
func fmInfeasible(cons []linCon, atoms []int) bool {
	left := map[int]bool{}
	for _, id := range atoms {
		left[id] = true
	}
	for len(left) > 0 {
		// a constraint without atoms and a positive constant is the contradiction
		for _, c := range cons {
			if len(c.c) == 0 && c.k > 0 {
				return true
			}
		}
		// pick the atom whose elimination creates the fewest constraints
		best, bestCost := -1, int64(1)<<62
		ids := make([]int, 0, len(left))
		for id := range left {
			ids = append(ids, id)
		}
		sort.Ints(ids)
		for _, id := range ids {
			var p, n int64
			for _, c := range cons {
				switch v := c.c[id]; {
				case v > 0:
					p++
				case v < 0:
					n++
				}
			}
			if cost := p*n - p - n; cost < bestCost {
				best, bestCost = id, cost
			}
		}
		delete(left, best)
		var pos, neg, rest []linCon
		for _, c := range cons {
			switch v := c.c[best]; {
			case v > 0:
				pos = append(pos, c)
			case v < 0:
				neg = append(neg, c)
			default:
				rest = append(rest, c)
			}
		}
		if int64(len(rest))+int64(len(pos))*int64(len(neg)) > linMaxCons {
			return false
		}
		for _, p := range pos {
			for _, n := range neg {
				cp, cn := p.c[best], -n.c[best]
				g := gcd64(cp, cn)
				mp, mn := cn/g, cp/g // p*mp + n*mn cancels the atom
				nc := linCon{c: map[int]int64{}, k: p.k*mp + n.k*mn}
				for id, v := range p.c {
					nc.c[id] += v * mp
				}
				for id, v := range n.c {
					nc.c[id] += v * mn
				}
				for id, v := range nc.c {
					if v == 0 {
						delete(nc.c, id)
					}
				}
				if !nc.normalise() {
					return false
				}
				if len(nc.c) == 0 && nc.k <= 0 {
					continue // trivially true
				}
				rest = append(rest, nc)
			}
		}
		cons = rest
	}
	for _, c := range cons {
		if len(c.c) == 0 && c.k > 0 {
			return true
		}
	}
	return false
}
