package core

import (
	"go/token"
	"go/types"

	"golang.org/x/tools/go/ssa"
)

// doCall performs a call described by ev.  site is the *ssa.Call value (nil
// for deferred calls).  cont receives the result term (nil if none).
func (x *Explorer) doCall(fr *frame, in ssa.Instruction, ev Event, site *ssa.Call, cont func(res *Term)) {
	var resType types.Type
	if site != nil {
		resType = site.Type()
	} else if ci, ok := in.(ssa.CallInstruction); ok && ev.Builtin == "" {
		// deferred call: its results are discarded by the language, but the rules want to see that an error was dropped
		if rs := ci.Common().Signature().Results(); rs.Len() == 1 {
			resType = rs.At(0).Type()
		} else if rs.Len() > 1 {
			resType = rs
		}
	}
	// builtins
	if ev.Builtin != "" {
		res := x.builtin(fr, in, &ev, resType)
		if x.event(ev) {
			return
		}
		cont(res)
		return
	}
	callee := ev.Static
	if callee != nil && x.P.InPkg(callee) {
		if x.Opts.Pure != nil && x.Opts.Pure(callee) {
			res := x.T.mk(Term{Kind: KApp, Ref: callee, Args: ev.Args, Type: resType})
			ev.Result = res
			if x.event(ev) {
				return
			}
			cont(res)
			return
		}
		if fr.depth < x.Opts.MaxDepth && (ev.Deferred && callee.Parent() != nil || (x.Opts.Inline != nil && x.Opts.Inline(callee, fr.depth+1))) && !x.onStack(fr, callee) {
			ev.Inlined = true
			if x.event(ev) {
				return
			}
			nf := &frame{fn: callee, env: map[ssa.Value]*Term{}, visits: map[*ssa.BasicBlock]int{}, depth: fr.depth + 1, parent: fr}
			for i, p := range callee.Params {
				if i < len(ev.Args) {
					nf.env[p] = ev.Args[i]
				}
			}
			if ev.FnVal != nil && ev.FnVal.Kind == KClosure {
				nf.free = ev.FnVal.Args
			} else {
				for _, fv := range callee.FreeVars {
					nf.free = append(nf.free, x.T.mk(Term{Kind: KFree, Ref: fv, Type: fv.Type()}))
				}
			}
			nf.ret = func(rs []*Term, r *ssa.Return) {
				var res *Term
				switch len(rs) {
				case 0:
				case 1:
					res = rs[0]
				default:
					res = x.tuple(rs)
				}
				if x.event(Event{Kind: EvReturn, Instr: r, Fn: callee, Depth: nf.depth, Args: rs, Result: res}) {
					return
				}
				cont(res)
			}
			x.enter(nf, nil, callee.Blocks[0])
			return
		}
	}
	// not inlined: opaque result, havoc what the callee may modify
	if x.Opts.Observe != nil {
		x.Opts.Observe(x, &ev)
	}
	res := x.T.mk(Term{Kind: KCall, N: x.next(), Ref: calleeRef(&ev), Args: ev.Args, Type: resType})
	ev.Result = res
	x.havocCall(in, &ev)
	// a bufio.Reader / bufio.Writer method dereferences its receiver at once:
	// the call returns only for a non-nil receiver
	if f := ev.Static; f != nil && f.Blocks == nil && f.Signature.Recv() != nil && len(ev.Args) > 0 && ev.Args[0] != nil {
		if pt, ok := f.Signature.Recv().Type().(*types.Pointer); ok {
			if nt, ok := pt.Elem().(*types.Named); ok && nt.Obj().Pkg() != nil && nt.Obj().Pkg().Path() == "bufio" && (nt.Obj().Name() == "Reader" || nt.Obj().Name() == "Writer") {
				x.AssumeLit(x.Eq(ev.Args[0], x.T.Const(nil, ev.Args[0].Type)), false)
			}
		}
	}
	if x.Opts.AfterCall != nil {
		x.Opts.AfterCall(x, &ev)
	}
	if x.event(ev) {
		return
	}
	if resType == nil {
		cont(nil)
		return
	}
	if tup, ok := resType.(*types.Tuple); ok && tup.Len() == 0 {
		cont(nil)
		return
	}
	cont(res)
}

func (x *Explorer) onStack(fr *frame, fn *ssa.Function) bool {
	for f := fr; f != nil; f = f.parent {
		if f.fn == fn {
			return true
		}
	}
	return false
}

func calleeRef(ev *Event) interface{} {
	switch {
	case ev.Static != nil:
		return ev.Static
	case ev.Method != nil:
		return ev.Method
	case ev.FnVal != nil:
		return ev.FnVal
	}
	return nil
}

// havocCall invalidates the cells a non-inlined call may modify.
func (x *Explorer) havocCall(in ssa.Instruction, ev *Event) {
	fields := map[*types.Var]bool{}
	globals := map[*ssa.Global]bool{}
	allocs := map[*ssa.Alloc]bool{}
	index, deref, external := false, false, false
	var targets []*ssa.Function
	switch {
	case ev.Static != nil && x.P.InPkg(ev.Static):
		targets = []*ssa.Function{ev.Static}
	case ev.Static != nil:
		external = true
		// in-package function values handed to external code may run
		for _, a := range ev.Args {
			if a.Kind == KClosure || a.Kind == KFunc {
				if f := a.Ref.(*ssa.Function); x.P.InPkg(f) {
					targets = append(targets, f)
				}
			}
		}
	default:
		if ci, ok := in.(ssa.CallInstruction); ok {
			targets, external = x.P.Callees(ci)
		} else {
			external = true
		}
	}
	// closures: stores through captured variables hit exactly the bound cells
	closureBind := func(cl *Term) {
		if cl == nil || cl.Kind != KClosure {
			return
		}
		f := cl.Ref.(*ssa.Function)
		m := x.P.Mod(f)
		for idx := range m.FreeStores {
			if idx < len(cl.Args) {
				if root := addrRoot(cl.Args[idx]); root != nil && root.Kind == KAlloc {
					allocs[root.Ref.(*ssa.Alloc)] = true
				} else {
					deref = true
				}
			}
		}
	}
	closureBind(ev.FnVal)
	for _, a := range ev.Args {
		closureBind(a)
	}
	for _, t := range targets {
		m := x.P.Mod(t)
		for k := range m.Writes {
			fields[k] = true
		}
		for k := range m.GWrites {
			globals[k] = true
		}
		index = index || m.Index
		deref = deref || m.Deref
		external = external || m.External
	}
	// memory reachable from arguments may be written by the callee
	for _, a := range append(append([]*Term{}, ev.Args...), ev.Recv) {
		if a == nil {
			continue
		}
		if root := addrRoot(a); root != nil && root.Kind == KAlloc && isAddrLike(a) {
			if external || deref || index || len(targets) > 0 {
				allocs[root.Ref.(*ssa.Alloc)] = true
				x.markTouched(root)
			}
		}
	}
	x.epoch = x.next()
	if len(fields) == 0 && len(globals) == 0 && len(allocs) == 0 && !index && !deref {
		return
	}
	for _, id := range x.liveIDs() {
		addr := x.cells[id]
		if addr == nil {
			continue
		}
		if _, live := x.mem[id]; !live {
			continue
		}
		if x.addrHit(addr, fields, globals, allocs, index, deref) {
			x.setMem(addr, unkTerm)
		}
	}
}

func isAddrLike(a *Term) bool {
	switch a.Kind {
	case KAlloc, KFieldAddr, KIndexAddr, KSlice:
		return true
	}
	return false
}

func (x *Explorer) builtin(fr *frame, in ssa.Instruction, ev *Event, resType types.Type) *Term {
	args := ev.Args
	switch ev.Builtin {
	case "len":
		return x.Len(args[0])
	case "cap":
		return x.T.mk(Term{Kind: KCap, Args: []*Term{args[0]}, Type: types.Typ[types.Int]})
	case "append":
		if len(args) == 2 {
			if args[1].IsNil() {
				return args[0]
			}
			return x.T.mk(Term{Kind: KAppend, Args: []*Term{args[0], args[1]}, Type: resType})
		}
		return args[0]
	case "copy":
		// destination content becomes unknown
		dst := args[0]
		root := addrRoot(dst)
		for _, id := range x.liveIDs() {
			a := x.cells[id]
			if a == nil {
				continue
			}
			if _, live := x.mem[id]; !live {
				continue
			}
			r := addrRoot(a)
			hit := false
			switch {
			case root != nil && root.Kind == KAlloc:
				hit = r == root && a != root
			case dst.Kind == KSlice && dst.Args[0].Kind == KFieldAddr:
				hit = a.Contains(dst.Args[0]) || (a.Kind == KFieldAddr && a.Var == dst.Args[0].Var)
			default:
				hit = a.Kind == KIndexAddr && (r == nil || r.Kind != KAlloc)
			}
			// copy(b[lo:hi], ..) leaves b[k] alone for constant k < lo or k >= hi
			if hit && a.Kind == KIndexAddr && dst.Kind == KSlice && a.Args[0] == dst.Args[0] {
				if k, isK := a.Args[1].Int64(); isK {
					if lo, isLo := x.stripWiden(dst.Args[1]).Int64(); isLo && dst.Args[1].Kind != KNone && k < lo {
						hit = false
					}
					if hi, isHi := x.stripWiden(dst.Args[2]).Int64(); isHi && dst.Args[2].Kind != KNone && k >= hi {
						hit = false
					}
				}
			}
			if hit {
				x.setMem(a, unkTerm)
			}
		}
		if root != nil && root.Kind == KAlloc {
			x.markTouched(root)
		}
		res := x.T.mk(Term{Kind: KCall, N: x.next(), Ref: "copy", Args: args, Type: types.Typ[types.Int]})
		ev.Result = res
		// 0 <= n <= len(dst), n <= len(src)
		x.tighten(res, 0, true)
		x.AssumeLEq(res, x.Len(args[0]))
		x.AssumeLEq(res, x.Len(args[1]))
		// copy(b[lo:], src): lo + n <= len(b), in the shape a cursor update `pos += n` asks for
		if d := args[0]; d.Kind == KSlice && d.Args[1].Kind != KNone && d.Args[2].Kind == KNone {
			if pt, isPtr := d.Args[0].Type.Underlying().(*types.Pointer); !isPtr {
				x.AssumeLEq(x.Bin(token.ADD, x.stripWiden(d.Args[1]), res, types.Typ[types.Int]), x.Len(d.Args[0]))
			} else if at, isArr := pt.Elem().Underlying().(*types.Array); isArr {
				x.AssumeLEq(x.Bin(token.ADD, x.stripWiden(d.Args[1]), res, types.Typ[types.Int]), x.T.Int(at.Len()))
			}
		}
		return res
	case "delete":
		x.epoch = x.next()
		return nil
	case "close", "print", "println", "clear":
		return nil
	}
	if resType == nil {
		return nil
	}
	res := x.T.mk(Term{Kind: KCall, N: x.next(), Ref: ev.Builtin, Args: args, Type: resType})
	ev.Result = res
	return res
}
