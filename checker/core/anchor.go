package core

import (
	"fmt"
	"go/constant"
	"go/types"

	"golang.org/x/tools/go/ssa"
)

// AnchorErr is raised (by panic) when a rule slot cannot be resolved in the
// current tree.  The runner turns it into a failed obligation, never a pass.
type AnchorErr struct{ What string }

func (e AnchorErr) Error() string { return "anchor unresolved: " + e.What }

func anchorFail(format string, args ...interface{}) {
	panic(AnchorErr{fmt.Sprintf(format, args...)})
}

// Func resolves a source function by name, e.g. "(*Conn).advanceFrame".
func (p *Prog) Func(name string) *ssa.Function {
	f := p.Funcs[name]
	if f == nil {
		anchorFail("function %s", name)
	}
	return f
}

// FuncOpt is Func without failing.
func (p *Prog) FuncOpt(name string) *ssa.Function { return p.Funcs[name] }

// AliasConverted re-binds anchor names whose function was converted between a
// method and a plain function taking the former receiver as first parameter
// ("(*T).m" <-> "m", or a method moved to a named function type): when the
// name is gone and exactly one top-level function or method of the package
// carries the same identifier, it answers to the old name too.  go/ssa gives
// both forms the same parameter list (receiver first), so rules keep working.
func (p *Prog) AliasConverted(names []string) {
	if p.Converted == nil {
		p.Converted = map[*ssa.Function]string{}
	}
	base := func(n string) string {
		for i := len(n) - 1; i >= 0; i-- {
			if n[i] == '.' {
				return n[i+1:]
			}
		}
		return n
	}
	taken := map[*ssa.Function]bool{}
	for _, n := range names {
		if f := p.Funcs[n]; f != nil {
			taken[f] = true
		}
	}
	for _, n := range names {
		if p.Funcs[n] != nil || len(n) == 0 || containsDollar(n) {
			continue
		}
		var cand []*ssa.Function
		for _, f := range p.FuncList {
			if f.Parent() == nil && f.Synthetic == "" && !taken[f] && f.Name() == base(n) {
				cand = append(cand, f)
			}
		}
		if len(cand) == 1 {
			p.Funcs[n] = cand[0]
			p.Converted[cand[0]] = n
			convertedNames[cand[0]] = n
			taken[cand[0]] = true
			var rec func(parent *ssa.Function)
			rec = func(parent *ssa.Function) {
				for _, a := range parent.AnonFuncs {
					p.Funcs[FuncName(a)] = a
					rec(a)
				}
			}
			rec(cand[0])
		}
	}
}

func containsDollar(s string) bool {
	for i := 0; i < len(s); i++ {
		if s[i] == '$' {
			return true
		}
	}
	return false
}

// Named resolves a package-level named type.
func (p *Prog) Named(name string) *types.Named {
	o := p.Types.Scope().Lookup(name)
	tn, ok := o.(*types.TypeName)
	if !ok {
		if al := p.TypeAlias[name]; al != nil {
			return al
		}
		anchorFail("type %s", name)
	}
	n, ok := tn.Type().(*types.Named)
	if !ok {
		anchorFail("type %s is not a named type", name)
	}
	return n
}

// Field resolves struct field typ.name to its types.Var.
func (p *Prog) Field(typ, name string) *types.Var {
	st, ok := p.Named(typ).Underlying().(*types.Struct)
	if !ok {
		anchorFail("type %s is not a struct", typ)
	}
	for i := 0; i < st.NumFields(); i++ {
		if st.Field(i).Name() == name {
			return st.Field(i)
		}
	}
	if f := p.FieldAlias[typ+"."+name]; f != nil {
		return f
	}
	anchorFail("field %s.%s", typ, name)
	return nil
}

// Fields lists all fields of a struct type.
func (p *Prog) Fields(typ string) []*types.Var {
	st, ok := p.Named(typ).Underlying().(*types.Struct)
	if !ok {
		anchorFail("type %s is not a struct", typ)
	}
	var out []*types.Var
	for i := 0; i < st.NumFields(); i++ {
		out = append(out, st.Field(i))
	}
	return out
}

// Global resolves a package-level variable.
func (p *Prog) Global(name string) *ssa.Global {
	g, ok := p.SPkg.Members[name].(*ssa.Global)
	if !ok {
		if al := p.GlobalAlias[name]; al != nil {
			return al
		}
		anchorFail("package var %s", name)
	}
	return g
}

// ConstInt resolves a package-level integer constant.
func (p *Prog) ConstInt(name string) int64 {
	c, ok := p.Types.Scope().Lookup(name).(*types.Const)
	if !ok {
		anchorFail("constant %s", name)
	}
	v, exact := constant.Int64Val(constant.ToInt(c.Val()))
	if !exact {
		anchorFail("constant %s is not an int64", name)
	}
	return v
}

// ExtFunc resolves pkgpath.Name (function) or pkgpath.Type.Method in an
// imported package, through the root package's import graph.
func (p *Prog) ExtFunc(pkgPath, name string) *types.Func {
	tp := p.findPkg(pkgPath)
	if tp == nil {
		anchorFail("imported package %s", pkgPath)
	}
	if o, ok := tp.Scope().Lookup(name).(*types.Func); ok {
		return o
	}
	anchorFail("%s.%s", pkgPath, name)
	return nil
}

// ExtMethod resolves a method of a named type (or interface) of an imported package.
func (p *Prog) ExtMethod(pkgPath, typ, method string) *types.Func {
	tp := p.findPkg(pkgPath)
	if tp == nil {
		anchorFail("imported package %s", pkgPath)
	}
	tn, ok := tp.Scope().Lookup(typ).(*types.TypeName)
	if !ok {
		anchorFail("%s.%s", pkgPath, typ)
	}
	o, _, _ := types.LookupFieldOrMethod(tn.Type(), true, tp, method)
	f, ok := o.(*types.Func)
	if !ok {
		anchorFail("%s.%s.%s", pkgPath, typ, method)
	}
	return f
}

// ExtVar resolves a package-level variable of an imported package.
func (p *Prog) ExtVar(pkgPath, name string) *types.Var {
	tp := p.findPkg(pkgPath)
	if tp == nil {
		anchorFail("imported package %s", pkgPath)
	}
	v, ok := tp.Scope().Lookup(name).(*types.Var)
	if !ok {
		anchorFail("%s.%s", pkgPath, name)
	}
	return v
}

func (p *Prog) findPkg(path string) *types.Package {
	seen := map[*types.Package]bool{}
	var walk func(tp *types.Package) *types.Package
	walk = func(tp *types.Package) *types.Package {
		if tp.Path() == path {
			return tp
		}
		if seen[tp] {
			return nil
		}
		seen[tp] = true
		for _, i := range tp.Imports() {
			if r := walk(i); r != nil {
				return r
			}
		}
		return nil
	}
	return walk(p.Types)
}

// InPkg reports whether fn is a source function of the analysed package.
func (p *Prog) InPkg(fn *ssa.Function) bool {
	return fn != nil && fn.Blocks != nil && (fn.Pkg == p.SPkg || (fn.Parent() != nil && p.InPkg(fn.Parent())) || (fn.Origin() != nil && fn.Origin().Pkg == p.SPkg))
}
