package core

import (
	"fmt"
	"io"
	"strings"
)

// EventString renders an event for diagnostics.
func (p *Prog) EventString(ev *Event) string {
	pos := "-"
	if ev.Instr != nil {
		pos = p.Pos(ev.Instr.Pos())
	}
	pad := strings.Repeat("  ", ev.Depth)
	switch ev.Kind {
	case EvCall, EvDefer, EvGo:
		var as []string
		for _, a := range ev.Args {
			as = append(as, a.String())
		}
		name := ev.Builtin
		switch {
		case ev.Static != nil:
			name = FuncName(ev.Static)
			if !p.InPkg(ev.Static) {
				name = ev.Static.String()
			}
		case ev.Method != nil:
			name = "invoke " + ev.Method.FullName() + " on " + ev.Recv.String()
		case ev.FnVal != nil:
			name = "dyn " + ev.FnVal.String()
		}
		k := "call"
		if ev.Kind == EvDefer {
			k = "defer"
		} else if ev.Kind == EvGo {
			k = "go"
		}
		fl := ""
		if ev.Inlined {
			fl += " [inlined]"
		}
		if ev.Deferred && ev.Kind == EvCall {
			fl += " [deferred]"
		}
		r := ""
		if ev.Result != nil {
			r = " -> " + ev.Result.String()
		}
		return fmt.Sprintf("%s%s %s %s(%s)%s%s", pad, pos, k, name, strings.Join(as, ", "), r, fl)
	case EvStore:
		return fmt.Sprintf("%s%s store %s := %s", pad, pos, strings.TrimPrefix(ev.Addr.String(), "&"), ev.Val)
	case EvReturn:
		var as []string
		for _, a := range ev.Args {
			as = append(as, a.String())
		}
		return fmt.Sprintf("%s%s ret %s", pad, pos, strings.Join(as, ", "))
	case EvPanic:
		return fmt.Sprintf("%s%s panic %s", pad, pos, ev.Val)
	case EvSend:
		return fmt.Sprintf("%s%s send %s <- %s", pad, pos, ev.Addr, ev.Val)
	case EvRecv:
		return fmt.Sprintf("%s%s recv <-%s", pad, pos, ev.Addr)
	case EvSelect:
		var ss []string
		for _, s := range ev.States {
			d := "<-"
			if s.Send {
				d = "send "
			}
			ss = append(ss, d+s.Chan.String())
		}
		return fmt.Sprintf("%s%s select blocking=%v [%s] -> %s", pad, pos, ev.Blocking, strings.Join(ss, "; "), ev.Result)
	case EvMapUpdate:
		return fmt.Sprintf("%s%s mapupdate %s[%s] = %s", pad, pos, ev.Addr, ev.Args[0], ev.Val)
	case EvLoad:
		return fmt.Sprintf("%sload %s", pad, ev.Val)
	}
	return "?"
}

// DumpPath prints a path: literals interleaved with events.
func (p *Prog) DumpPath(w io.Writer, path *Path) {
	li := 0
	for i := range path.Events {
		ev := &path.Events[i]
		for ; li < ev.NLits && li < len(path.Lits); li++ {
			l := path.Lits[li]
			fmt.Fprintf(w, "    %s[%s] %v  (%s)\n", strings.Repeat("  ", l.Depth), p.LitPos(l), l.Pos, l.T)
		}
		fmt.Fprintf(w, "    %s\n", p.EventString(ev))
	}
	for ; li < len(path.Lits); li++ {
		l := path.Lits[li]
		fmt.Fprintf(w, "    %s[%s] %v  (%s)\n", strings.Repeat("  ", l.Depth), p.LitPos(l), l.Pos, l.T)
	}
	end := map[EndKind]string{EndReturn: "return", EndPanic: "panic", EndCut: "cut", EndStop: "stop"}[path.End]
	var rs []string
	for _, r := range path.Results {
		rs = append(rs, r.String())
	}
	fmt.Fprintf(w, "  => %s %s\n", end, strings.Join(rs, ", "))
}

// LitPos gives a usable source position for a branch literal.
func (p *Prog) LitPos(l Lit) string {
	if l.Instr == nil {
		return "-"
	}
	if l.Instr.Cond != nil && l.Instr.Cond.Pos().IsValid() {
		return p.Pos(l.Instr.Cond.Pos())
	}
	for _, in := range l.Instr.Block().Instrs {
		if in.Pos().IsValid() {
			return p.Pos(in.Pos())
		}
	}
	return "-"
}

// LoadPos gives a position near an EvLoad event (loads carry no instruction): the next positioned event.
func (p *Prog) LoadPos(path *Path, i int) string {
	for k := i; k < len(path.Events); k++ {
		if in := path.Events[k].Instr; in != nil && in.Pos().IsValid() {
			return p.Pos(in.Pos())
		}
	}
	for k := i; k >= 0; k-- {
		if in := path.Events[k].Instr; in != nil && in.Pos().IsValid() {
			return p.Pos(in.Pos())
		}
	}
	return "-"
}
