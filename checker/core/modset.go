package core

import (
	"go/types"

	"golang.org/x/tools/go/ssa"
)

// ModSet is the (transitive) effect summary of a function: which struct
// fields and package variables it may read / write, whether it may store
// through slice elements or other pointers, and which functions it may call.
type ModSet struct {
	Writes     map[*types.Var]bool // struct fields stored
	Reads      map[*types.Var]bool // struct fields loaded (or address escaping)
	GWrites    map[*ssa.Global]bool
	GReads     map[*ssa.Global]bool
	Index      bool         // may store through slice/array elements not local to it
	Deref      bool         // may store through a pointer parameter / free variable
	External   bool         // may call code outside the package (incl. application callbacks)
	FreeStores map[int]bool // indices of the function's own free variables it stores through (closures)
	Callees    map[*ssa.Function]bool
}

func newModSet() *ModSet {
	return &ModSet{Writes: map[*types.Var]bool{}, Reads: map[*types.Var]bool{}, GWrites: map[*ssa.Global]bool{},
		GReads: map[*ssa.Global]bool{}, Callees: map[*ssa.Function]bool{}, FreeStores: map[int]bool{}}
}

// fieldOf returns the struct field addressed by a FieldAddr / Field instruction.
func fieldOf(v ssa.Value) *types.Var {
	switch v := v.(type) {
	case *ssa.FieldAddr:
		st := deref(v.X.Type()).Underlying().(*types.Struct)
		return st.Field(v.Field)
	case *ssa.Field:
		st := v.X.Type().Underlying().(*types.Struct)
		return st.Field(v.Field)
	}
	return nil
}

func deref(t types.Type) types.Type {
	if p, ok := t.Underlying().(*types.Pointer); ok {
		return p.Elem()
	}
	return t
}

// FieldStores returns every value stored to struct field f anywhere in the package.
func (p *Prog) FieldStores(f *types.Var) []ssa.Value {
	if !p.fvDone {
		p.fieldVals = map[*types.Var][]ssa.Value{}
		for _, fn := range p.FuncList {
			for _, b := range fn.Blocks {
				for _, in := range b.Instrs {
					if st, ok := in.(*ssa.Store); ok {
						if fa, ok := st.Addr.(*ssa.FieldAddr); ok {
							fv := fieldOf(fa)
							p.fieldVals[fv] = append(p.fieldVals[fv], st.Val)
						}
					}
				}
			}
		}
		p.fvDone = true
	}
	return p.fieldVals[f]
}

// FieldStoreSites returns the Store instructions writing field f.
func (p *Prog) FieldStoreSites(f *types.Var) []*ssa.Store {
	var out []*ssa.Store
	for _, fn := range p.FuncList {
		for _, b := range fn.Blocks {
			for _, in := range b.Instrs {
				if st, ok := in.(*ssa.Store); ok {
					if fa, ok := st.Addr.(*ssa.FieldAddr); ok && fieldOf(fa) == f {
						out = append(out, st)
					}
				}
			}
		}
	}
	return out
}

// Callees resolves the possible in-package targets of a call and reports
// whether code outside the package may run as well.
func (p *Prog) Callees(call ssa.CallInstruction) (in []*ssa.Function, external bool) {
	c := call.Common()
	add := func(f *ssa.Function) {
		if f == nil {
			return
		}
		if p.InPkg(f) {
			for _, g := range in {
				if g == f {
					return
				}
			}
			in = append(in, f)
		} else {
			external = true
		}
	}
	if c.IsInvoke() {
		// the dynamic types the receiver may have, as far as stores inside the package tell
		concrete, unknown := p.ifaceTypes(c.Value, 0, map[ssa.Value]bool{})
		if unknown {
			external = true
		}
		if unknown && !p.appSupplied(c.Value) {
			// unknown origin inside the package: fall back to every in-package implementer
			for _, m := range p.SPkg.Members {
				if t, ok := m.(*ssa.Type); ok {
					concrete = append(concrete, t.Type(), types.NewPointer(t.Type()))
				}
			}
		}
		iface, _ := c.Value.Type().Underlying().(*types.Interface)
		for _, rt := range concrete {
			if types.IsInterface(rt) || iface == nil || !types.Implements(rt, iface) {
				continue
			}
			sel := p.SSA.MethodSets.MethodSet(rt).Lookup(c.Method.Pkg(), c.Method.Name())
			if sel == nil {
				continue
			}
			fn := p.SSA.MethodValue(sel)
			if fn != nil && fn.Synthetic != "" {
				external = true
				continue
			}
			add(fn)
		}
		return
	}
	if f := c.StaticCallee(); f != nil {
		add(f)
		if !p.InPkg(f) {
			// an external function may call in-package function values passed to it
			for _, a := range c.Args {
				for _, g := range p.funcValues(a, 0, map[ssa.Value]bool{}) {
					add(g)
				}
			}
		}
		return
	}
	if _, ok := c.Value.(*ssa.Builtin); ok {
		return nil, false
	}
	fs := p.funcValues(c.Value, 0, map[ssa.Value]bool{})
	if fs == nil {
		external = true
	}
	for _, f := range fs {
		if f == nil {
			external = true
		} else {
			add(f)
		}
	}
	return
}

// funcValues traces a func-typed value to the functions it may denote; a nil
// element stands for "unknown / supplied from outside".
func (p *Prog) funcValues(v ssa.Value, depth int, seen map[ssa.Value]bool) []*ssa.Function {
	if seen[v] || depth > 8 {
		return nil
	}
	seen[v] = true
	switch v := v.(type) {
	case *ssa.Function:
		return []*ssa.Function{v}
	case *ssa.MakeClosure:
		return []*ssa.Function{v.Fn.(*ssa.Function)}
	case *ssa.ChangeType:
		return p.funcValues(v.X, depth+1, seen)
	case *ssa.MakeInterface:
		return p.funcValues(v.X, depth+1, seen)
	case *ssa.Phi:
		var out []*ssa.Function
		for _, e := range v.Edges {
			out = append(out, p.funcValues(e, depth+1, seen)...)
		}
		return out
	case *ssa.Const:
		return []*ssa.Function{} // nil func: no target
	case *ssa.UnOp:
		if fa, ok := v.X.(*ssa.FieldAddr); ok {
			var out []*ssa.Function
			vals := p.FieldStores(fieldOf(fa))
			if len(vals) == 0 {
				return []*ssa.Function{nil}
			}
			for _, s := range vals {
				r := p.funcValues(s, depth+1, seen)
				if r == nil {
					out = append(out, nil)
				}
				out = append(out, r...)
			}
			return out
		}
		if al, ok := v.X.(*ssa.Alloc); ok {
			var out []*ssa.Function
			for _, ref := range *al.Referrers() {
				if st, ok := ref.(*ssa.Store); ok && st.Addr == al {
					r := p.funcValues(st.Val, depth+1, seen)
					if r == nil {
						out = append(out, nil)
					}
					out = append(out, r...)
				}
			}
			return out
		}
	}
	if _, ok := v.Type().Underlying().(*types.Signature); !ok {
		return []*ssa.Function{} // not a function value
	}
	return []*ssa.Function{nil}
}

// Mod returns the transitive effect summary of fn.
func (p *Prog) Mod(fn *ssa.Function) *ModSet {
	if len(p.mods) == 0 {
		p.computeMods()
	}
	if m := p.mods[fn]; m != nil {
		return m
	}
	m := newModSet()
	m.External = true
	return m
}

func (p *Prog) computeMods() {
	// direct effects
	for _, fn := range p.FuncList {
		m := newModSet()
		p.mods[fn] = m
		for _, b := range fn.Blocks {
			for _, in := range b.Instrs {
				switch in := in.(type) {
				case *ssa.Store:
					p.classifyStore(fn, m, in.Addr)
				case *ssa.UnOp:
					if g, ok := in.X.(*ssa.Global); ok {
						m.GReads[g] = true
					}
				case *ssa.Field:
					m.Reads[fieldOf(in)] = true
				case *ssa.FieldAddr:
					fv := fieldOf(in)
					for _, ref := range *in.Referrers() {
						switch r := ref.(type) {
						case *ssa.Store:
							if r.Addr == in {
								continue // pure write, handled by Store
							}
							m.Reads[fv] = true
						case *ssa.UnOp:
							m.Reads[fv] = true
						case *ssa.FieldAddr, *ssa.IndexAddr:
							// nested access: the outer field is only traversed
							m.Reads[fv] = true
						default:
							// address escapes (method call on the field, slicing): read and possibly written
							m.Reads[fv] = true
							if escapesAsWrite(in, r) {
								m.Writes[fv] = true
							}
						}
					}
				case *ssa.MapUpdate:
					// map stored in a field or global: count as write of that holder
					if u, ok := in.Map.(*ssa.UnOp); ok {
						if fa, ok := u.X.(*ssa.FieldAddr); ok {
							m.Writes[fieldOf(fa)] = true
						}
						if g, ok := u.X.(*ssa.Global); ok {
							m.GWrites[g] = true
						}
					}
				case ssa.CallInstruction:
					ins, ext := p.Callees(in)
					if ext {
						m.External = true
					}
					for _, c := range ins {
						m.Callees[c] = true
					}
					if bi, ok := in.Common().Value.(*ssa.Builtin); ok && bi.Name() == "copy" {
						p.classifyCopyDst(fn, m, in.Common().Args[0])
					}
				}
			}
		}
	}
	// transitive closure
	for changed := true; changed; {
		changed = false
		for _, fn := range p.FuncList {
			m := p.mods[fn]
			for c := range m.Callees {
				cm := p.mods[c]
				if cm == nil {
					continue
				}
				for k := range cm.Writes {
					if !m.Writes[k] {
						m.Writes[k], changed = true, true
					}
				}
				for k := range cm.Reads {
					if !m.Reads[k] {
						m.Reads[k], changed = true, true
					}
				}
				for k := range cm.GWrites {
					if !m.GWrites[k] {
						m.GWrites[k], changed = true, true
					}
				}
				for k := range cm.GReads {
					if !m.GReads[k] {
						m.GReads[k], changed = true, true
					}
				}
				for k := range cm.Callees {
					if !m.Callees[k] {
						m.Callees[k], changed = true, true
					}
				}
				if cm.Index && !m.Index {
					m.Index, changed = true, true
				}
				if len(cm.FreeStores) > 0 && !m.Deref && c.Parent() != fn {
					// stores through captured variables of a closure we cannot relate to this caller's cells
					m.Deref, changed = true, true
				}
				if cm.Deref && !m.Deref {
					m.Deref, changed = true, true
				}
				if cm.External && !m.External {
					m.External, changed = true, true
				}
			}
		}
	}
}

// escapesAsWrite: a field address used by something other than load/store.
// Slicing an array field for reading (x.f[:]) is common; it counts as a write
// only if the slice reaches copy's destination or a call argument.
func escapesAsWrite(fa *ssa.FieldAddr, user ssa.Instruction) bool {
	switch u := user.(type) {
	case *ssa.Slice:
		for _, ref := range *u.Referrers() {
			if c, ok := ref.(ssa.CallInstruction); ok {
				if bi, ok := c.Common().Value.(*ssa.Builtin); ok && bi.Name() == "copy" {
					if c.Common().Args[0] == ssa.Value(u) {
						return true
					}
					continue
				}
				return true
			}
		}
		return false
	case ssa.CallInstruction:
		return true
	}
	return true
}

func (p *Prog) classifyStore(fn *ssa.Function, m *ModSet, addr ssa.Value) {
	switch a := addr.(type) {
	case *ssa.FieldAddr:
		m.Writes[fieldOf(a)] = true
		// a store into a field of a by-value nested struct also writes the outer holder: keep inner only
	case *ssa.Global:
		m.GWrites[a] = true
	case *ssa.IndexAddr:
		// element of array field / global array / slice
		switch x := a.X.(type) {
		case *ssa.FieldAddr:
			m.Writes[fieldOf(x)] = true
		case *ssa.Global:
			m.GWrites[x] = true
		case *ssa.Alloc:
			if x.Heap {
				m.Index = true
			}
		default:
			m.Index = true
		}
	case *ssa.Alloc:
		// local cell
	case *ssa.FreeVar:
		found := false
		for i, fv := range fn.FreeVars {
			if fv == a {
				m.FreeStores[i] = true
				found = true
			}
		}
		if !found {
			m.Deref = true
		}
	case *ssa.Convert:
		// store through a pointer obtained from unsafe.Pointer arithmetic on a slice element (word-wise masking): element write
		m.Index = true
	default:
		m.Deref = true
	}
}

func (p *Prog) classifyCopyDst(fn *ssa.Function, m *ModSet, dst ssa.Value) {
	if s, ok := dst.(*ssa.Slice); ok {
		switch x := s.X.(type) {
		case *ssa.FieldAddr:
			m.Writes[fieldOf(x)] = true
			return
		case *ssa.Alloc:
			if !x.Heap {
				return
			}
		}
	}
	m.Index = true
}

// NonNilGlobal: g belongs to the analysed package, has pointer/interface type,
// and its only store is one in the package initialiser of a value that cannot
// be nil (allocation, call of errors.New / fmt.Errorf, composite literal).
func (p *Prog) NonNilGlobal(g *ssa.Global) bool {
	if g.Pkg != p.SPkg {
		return false
	}
	if p.nonNilG == nil {
		p.nonNilG = map[*ssa.Global]bool{}
		count := map[*ssa.Global]int{}
		good := map[*ssa.Global]bool{}
		fns := []*ssa.Function{p.SPkg.Func("init")}
		for _, fn := range p.FuncList {
			if fn != fns[0] {
				fns = append(fns, fn)
			}
		}
		for _, fn := range fns {
			if fn == nil {
				continue
			}
			isInit := fn.Synthetic != "" && fn.Name() == "init"
			for _, b := range fn.Blocks {
				for _, in := range b.Instrs {
					st, ok := in.(*ssa.Store)
					if !ok {
						continue
					}
					gg, ok := st.Addr.(*ssa.Global)
					if !ok {
						continue
					}
					count[gg]++
					if !isInit {
						count[gg] += 100
						continue
					}
					v := st.Val
					for {
						if mi, ok := v.(*ssa.MakeInterface); ok {
							v = mi.X
							continue
						}
						break
					}
					switch vv := v.(type) {
					case *ssa.Alloc:
						good[gg] = true
					case *ssa.Call:
						if f := vv.Call.StaticCallee(); f != nil && f.Object() != nil {
							n := f.Object().(*types.Func).FullName()
							if n == "errors.New" || n == "fmt.Errorf" {
								good[gg] = true
							}
						}
					}
				}
			}
		}
		seen := map[*ssa.Function]bool{}
		_ = seen
		for gg, n := range count {
			if n == 1 && good[gg] {
				p.nonNilG[gg] = true
			}
		}
	}
	return p.nonNilG[g]
}

// appSupplied: the interface value is a parameter of the enclosing function
// (supplied by the application when the function is API).
func (p *Prog) appSupplied(v ssa.Value) bool {
	for i := 0; i < 4; i++ {
		switch x := v.(type) {
		case *ssa.Parameter:
			return true
		case *ssa.ChangeInterface:
			v = x.X
		case *ssa.Phi:
			for _, e := range x.Edges {
				if !p.appSupplied(e) {
					return false
				}
			}
			return len(x.Edges) > 0
		default:
			return false
		}
	}
	return false
}

// ifaceTypes traces an interface-typed value to the concrete types boxed into
// it inside the package; unknown reports that some origin is not visible.
func (p *Prog) ifaceTypes(v ssa.Value, depth int, seen map[ssa.Value]bool) (concrete []types.Type, unknown bool) {
	if seen[v] || depth > 8 {
		return nil, false
	}
	seen[v] = true
	switch x := v.(type) {
	case *ssa.MakeInterface:
		return []types.Type{x.X.Type()}, false
	case *ssa.ChangeInterface:
		return p.ifaceTypes(x.X, depth+1, seen)
	case *ssa.Const:
		return nil, false
	case *ssa.Phi:
		for _, e := range x.Edges {
			c, u := p.ifaceTypes(e, depth+1, seen)
			concrete = append(concrete, c...)
			unknown = unknown || u
		}
		return
	case *ssa.UnOp:
		if fa, ok := x.X.(*ssa.FieldAddr); ok {
			vals := p.FieldStores(fieldOf(fa))
			if len(vals) == 0 {
				return nil, true
			}
			for _, sv := range vals {
				c, u := p.ifaceTypes(sv, depth+1, seen)
				concrete = append(concrete, c...)
				unknown = unknown || u
			}
			return
		}
		if al, ok := x.X.(*ssa.Alloc); ok {
			for _, ref := range *al.Referrers() {
				if st, ok := ref.(*ssa.Store); ok && st.Addr == al {
					c, u := p.ifaceTypes(st.Val, depth+1, seen)
					concrete = append(concrete, c...)
					unknown = unknown || u
				}
			}
			return
		}
	case *ssa.Call:
		// result of an in-package function: union over its returns
		if f := x.Call.StaticCallee(); f != nil && p.InPkg(f) {
			for _, b := range f.Blocks {
				if ret, ok := b.Instrs[len(b.Instrs)-1].(*ssa.Return); ok && len(ret.Results) >= 1 {
					c, u := p.ifaceTypes(ret.Results[0], depth+1, seen)
					concrete = append(concrete, c...)
					unknown = unknown || u
				}
			}
			return
		}
	}
	return nil, true
}
