package core

import (
	"go/token"
	"go/types"

	"golang.org/x/tools/go/ssa"
)

// enter moves control from block `from` to block b in frame fr.
func (x *Explorer) enter(fr *frame, from, b *ssa.BasicBlock) {
	if x.err != nil {
		return
	}
	li := x.loopsOf(fr.fn)
	n := fr.visits[b]
	lm := li.heads[b]
	if lm != nil {
		max := 2
		if x.Opts.Unroll >= 1 {
			max = 3
		}
		if n >= max {
			x.emit(EndCut, nil, nil)
			return
		}
	} else if n >= 4 {
		// irreducible re-entry guard
		x.emit(EndCut, nil, nil)
		return
	}
	fr.visits[b] = n + 1
	oldPrev := fr.prev
	fr.prev = from
	general := false
	if lm != nil {
		if x.Opts.Unroll == 0 || n >= 1 {
			general = true
			x.havocLoop(lm)
		}
	}
	if fr.depth == 0 {
		x.blocks = append(x.blocks, b)
	}
	// phis
	i := 0
	var newPhi []*Term
	for ; i < len(b.Instrs); i++ {
		phi, ok := b.Instrs[i].(*ssa.Phi)
		if !ok {
			break
		}
		var t *Term
		if general || from == nil {
			t = x.T.mk(Term{Kind: KFresh, Ref: ssa.Value(phi), N: x.next(), Type: phi.Type()})
		} else {
			idx := -1
			for k, p := range b.Preds {
				if p == from {
					idx = k
				}
			}
			if idx < 0 {
				t = x.T.mk(Term{Kind: KFresh, Ref: ssa.Value(phi), N: x.next(), Type: phi.Type()})
			} else {
				t = x.eval(fr, phi.Edges[idx])
			}
		}
		newPhi = append(newPhi, t)
	}
	// parallel assignment
	for k, t := range newPhi {
		x.setEnv(fr, b.Instrs[k].(*ssa.Phi), t)
	}
	x.execFrom(fr, b, i)
	fr.visits[b] = n
	fr.prev = oldPrev
}

func (x *Explorer) havocLoop(lm *loopMod) {
	for _, id := range x.liveIDs() {
		addr := x.cells[id]
		if addr == nil {
			continue
		}
		if _, live := x.mem[id]; !live {
			continue
		}
		if x.addrHit(addr, lm.writes, lm.globals, lm.allocs, lm.index, lm.deref) {
			x.setMem(addr, unkTerm)
		}
	}
	x.epoch = x.next()
}

func (x *Explorer) unknown(addr *Term) *Term {
	var et types.Type
	if addr.Type != nil {
		if p, ok := addr.Type.Underlying().(*types.Pointer); ok {
			et = p.Elem()
		}
	}
	return x.T.mk(Term{Kind: KLoad, Args: []*Term{addr}, N: x.next(), Type: et})
}

// addrHit: may a store described by the sets touch the cell at addr?
func (x *Explorer) addrHit(addr *Term, fields map[*types.Var]bool, globals map[*ssa.Global]bool, allocs map[*ssa.Alloc]bool, index, deref bool) bool {
	for a := addr; a != nil; {
		switch a.Kind {
		case KFieldAddr:
			if fields[a.Var] {
				return true
			}
			a = a.Args[0]
			continue
		case KIndexAddr:
			root := addrRoot(a)
			if root != nil && root.Kind == KAlloc {
				al := root.Ref.(*ssa.Alloc)
				if allocs[al] || (al.Heap && (deref || index)) {
					return true
				}
				return false
			}
			if index {
				return true
			}
			a = a.Args[0]
			continue
		case KAlloc:
			al := a.Ref.(*ssa.Alloc)
			return allocs[al] || (deref && al.Heap)
		case KGlobal:
			return globals[a.Ref.(*ssa.Global)]
		case KLoad:
			// cell reached through a loaded pointer: its own fields decide (already checked)
			return false
		case KSlice:
			a = a.Args[0]
			continue
		default:
			return deref && a == addr
		}
	}
	return false
}

func addrRoot(a *Term) *Term {
	for i := 0; i < 16 && a != nil; i++ {
		switch a.Kind {
		case KFieldAddr, KIndexAddr, KSlice:
			a = a.Args[0]
		default:
			return a
		}
	}
	return a
}

// eval returns the term of an SSA value in frame fr.
func (x *Explorer) eval(fr *frame, v ssa.Value) *Term {
	switch v := v.(type) {
	case *ssa.Const:
		if v.Value == nil {
			return x.T.Const(nil, v.Type())
		}
		return x.T.Const(wrapConst(v.Value, v.Type(), x.P.Pkg.TypesSizes), v.Type())
	case *ssa.Function:
		return x.T.mk(Term{Kind: KFunc, Ref: v, Type: v.Type()})
	case *ssa.Global:
		return x.T.mk(Term{Kind: KGlobal, Ref: v, Type: v.Type()})
	case *ssa.Builtin:
		return x.T.mk(Term{Kind: KOpaque, Ref: ssa.Value(v)})
	case *ssa.FreeVar:
		for i, fv := range fr.fn.FreeVars {
			if fv == v && i < len(fr.free) {
				return fr.free[i]
			}
		}
		return x.T.mk(Term{Kind: KFree, Ref: v, Type: v.Type()})
	}
	if t, ok := fr.env[v]; ok {
		return t
	}
	// on demand (region mode, or value defined before the region)
	if in, ok := v.(ssa.Instruction); ok && fr.region {
		t := x.pure(fr, in, true)
		if t != nil {
			return t
		}
	}
	return x.T.mk(Term{Kind: KOpaque, Ref: v, Type: v.Type()})
}

// pure evaluates side-effect-free instructions structurally.  With pre=true
// (value defined before the explored region) loads yield unknown content and
// calls/phis are opaque.
func (x *Explorer) pure(fr *frame, in ssa.Instruction, pre bool) *Term {
	switch v := in.(type) {
	case *ssa.BinOp:
		return x.Bin(v.Op, x.eval(fr, v.X), x.eval(fr, v.Y), v.Type())
	case *ssa.UnOp:
		switch v.Op {
		case token.NOT:
			return x.Not(x.eval(fr, v.X))
		case token.SUB, token.XOR:
			a := x.eval(fr, v.X)
			if a.IsConst() {
				if v.Op == token.SUB {
					return x.Bin(token.SUB, x.T.Const(wrapConst(zeroInt, v.Type(), x.P.Pkg.TypesSizes), v.Type()), a, v.Type())
				}
			}
			return x.T.mk(Term{Kind: KUn, Op: v.Op, Args: []*Term{a}, Type: v.Type()})
		case token.MUL:
			if pre {
				addr := x.eval(fr, v.X)
				return x.load(addr, v.Type())
			}
		}
	case *ssa.FieldAddr:
		return x.T.mk(Term{Kind: KFieldAddr, Var: fieldOf(v), Args: []*Term{x.eval(fr, v.X)}, Type: v.Type()})
	case *ssa.IndexAddr:
		return x.T.mk(Term{Kind: KIndexAddr, Args: []*Term{x.eval(fr, v.X), x.eval(fr, v.Index)}, Type: v.Type()})
	case *ssa.Field:
		a := x.eval(fr, v.X)
		return x.fieldOfValue(a, fieldOf(v), v.Type())
	case *ssa.Index:
		return x.T.mk(Term{Kind: KIndex, Args: []*Term{x.eval(fr, v.X), x.eval(fr, v.Index)}, Type: v.Type()})
	case *ssa.Convert:
		return x.Conv(x.eval(fr, v.X), v.Type())
	case *ssa.ChangeType:
		a := x.eval(fr, v.X)
		if a.Kind == KFunc || a.Kind == KClosure {
			return a
		}
		return x.Conv(a, v.Type())
	case *ssa.ChangeInterface:
		return x.eval(fr, v.X)
	case *ssa.MakeInterface:
		return x.T.mk(Term{Kind: KMakeIface, Args: []*Term{x.eval(fr, v.X)}, Type: v.Type()})
	case *ssa.MakeClosure:
		var bs []*Term
		for _, b := range v.Bindings {
			bs = append(bs, x.eval(fr, b))
		}
		return x.T.mk(Term{Kind: KClosure, Ref: v.Fn.(*ssa.Function), Args: bs, Type: v.Type()})
	case *ssa.Slice:
		none := x.T.None()
		args := []*Term{x.eval(fr, v.X), none, none, none}
		if v.Low != nil {
			args[1] = x.eval(fr, v.Low)
		}
		if v.High != nil {
			args[2] = x.eval(fr, v.High)
		}
		if v.Max != nil {
			args[3] = x.eval(fr, v.Max)
		}
		return x.T.mk(Term{Kind: KSlice, Args: args, Type: v.Type()})
	case *ssa.Extract:
		tup := x.eval(fr, v.Tuple)
		return x.extract(tup, v.Index, v.Type())
	case *ssa.Lookup:
		a, k := x.eval(fr, v.X), x.eval(fr, v.Index)
		if _, isMap := v.X.Type().Underlying().(*types.Map); !isMap {
			return x.T.mk(Term{Kind: KIndex, Args: []*Term{a, k}, Type: v.Type()})
		}
		return x.T.mk(Term{Kind: KLookup, Args: []*Term{a, k}, N: x.epoch, Type: v.Type()})
	case *ssa.TypeAssert:
		a := x.eval(fr, v.X)
		if a.Kind == KMakeIface && !v.CommaOk && types.Identical(a.Args[0].Type, v.AssertedType) {
			return a.Args[0]
		}
		n := 0
		if v.CommaOk {
			n = 1
		}
		return x.T.mk(Term{Kind: KTypeAssert, Args: []*Term{a}, Type: v.AssertedType, N: n})
	case *ssa.SliceToArrayPointer:
		return x.Conv(x.eval(fr, v.X), v.Type())
	}
	return nil
}

var zeroInt = constantInt(0)

func (x *Explorer) extract(tup *Term, i int, typ types.Type) *Term {
	if tup.Kind == KSliceLit && tup.Op == token.COMMA { // tuple of inlined results
		if i < len(tup.Args) {
			return tup.Args[i]
		}
	}
	return x.T.mk(Term{Kind: KExtract, Args: []*Term{tup}, N: i, Type: typ})
}

func (x *Explorer) tuple(rs []*Term) *Term {
	return x.T.mk(Term{Kind: KSliceLit, Op: token.COMMA, Args: rs})
}

func (x *Explorer) fieldOfValue(a *Term, f *types.Var, typ types.Type) *Term {
	if a.Kind == KConst && a.Val == nil {
		return x.zero(typ)
	}
	if a.Kind == KSliceLit && a.Op == token.STRUCT {
		if st, ok := a.Type.Underlying().(*types.Struct); ok {
			for i := 0; i < st.NumFields() && i < len(a.Args); i++ {
				if st.Field(i) == f {
					return a.Args[i]
				}
			}
		}
	}
	return x.T.mk(Term{Kind: KField, Var: f, Args: []*Term{a}, Type: typ})
}

// zero is the zero value of a type as a term.
func (x *Explorer) zero(t types.Type) *Term {
	switch u := t.Underlying().(type) {
	case *types.Basic:
		switch {
		case u.Info()&types.IsBoolean != 0:
			return x.T.Const(constantBool(false), t)
		case u.Info()&types.IsString != 0:
			return x.T.Const(constantString(""), t)
		case u.Info()&types.IsNumeric != 0:
			return x.T.Const(constantInt(0), t)
		}
	}
	return x.T.Const(nil, t)
}

// load reads memory at addr.
func (x *Explorer) load(addr *Term, typ types.Type) *Term {
	havoced := false
	if v, ok := x.mem[addr.ID]; ok {
		if v != unkTerm {
			return v
		}
		havoced = true
	}
	// aggregate whose fields have known cells: rebuild the struct value
	if st, ok := typ.Underlying().(*types.Struct); ok && typ != nil {
		if sv := x.loadStruct(addr, st, typ); sv != nil {
			return sv
		}
	}
	if at, ok := typ.Underlying().(*types.Array); ok && at.Len() <= 64 {
		if av := x.loadArray(addr, at, typ); av != nil {
			return av
		}
	}
	// fresh allocation on this path: zero content
	if root := addrRoot(addr); !havoced && root != nil && root.Kind == KAlloc && x.allocN[root.Ref.(*ssa.Alloc)] == root.N && root.N > 0 {
		if !x.allocTouched(root) {
			z := x.zero(typ)
			x.setMem(addr, z)
			return z
		}
	}
	// by-value struct in memory whose holder cell is known: project the field
	if addr.Kind == KFieldAddr {
		if hv, ok := x.mem[addr.Args[0].ID]; ok && !havoced && hv != unkTerm && hv.Kind != KLoad {
			return x.fieldOfValue(hv, addr.Var, typ)
		}
	}
	t := x.T.mk(Term{Kind: KLoad, Args: []*Term{addr}, N: x.next(), Type: typ})
	x.setMem(addr, t)
	if x.Opts.RecordLoads {
		x.events = append(x.events, Event{Kind: EvLoad, Addr: addr, Val: t, NLits: len(x.lits)})
	}
	return t
}

// unkTerm marks a cell whose content was invalidated (next load is fresh).
var unkTerm = &Term{Kind: KNone, ID: -1}

// allocTouched: has the allocation been handed to code that may have written it?
func (x *Explorer) allocTouched(root *Term) bool {
	_, t := x.mem[-root.ID]
	return t
}

func (x *Explorer) markTouched(root *Term) {
	old, ok := x.mem[-root.ID]
	x.mtrail = append(x.mtrail, memTrail{-root.ID, old, ok})
	x.mem[-root.ID] = root
}

// loadStruct rebuilds a struct value from the cells of its fields, if any is known.
func (x *Explorer) loadStruct(addr *Term, st *types.Struct, typ types.Type) *Term {
	any := false
	for i := 0; i < st.NumFields(); i++ {
		fa := x.T.mk(Term{Kind: KFieldAddr, Var: st.Field(i), Args: []*Term{addr}, Type: types.NewPointer(st.Field(i).Type())})
		if _, ok := x.mem[fa.ID]; ok {
			any = true
		}
	}
	if !any {
		return nil
	}
	var args []*Term
	for i := 0; i < st.NumFields(); i++ {
		fa := x.T.mk(Term{Kind: KFieldAddr, Var: st.Field(i), Args: []*Term{addr}, Type: types.NewPointer(st.Field(i).Type())})
		args = append(args, x.load(fa, st.Field(i).Type()))
	}
	return x.T.mk(Term{Kind: KSliceLit, Op: token.STRUCT, Args: args, Type: typ})
}

// ExtractOf builds the term for component i of a tuple-valued term.
func (x *Explorer) ExtractOf(tup *Term, i int, typ types.Type) *Term { return x.extract(tup, i, typ) }

// OpaqueOf is the term standing for an instruction value that was computed
// before the explored region.
func (x *Explorer) OpaqueOf(v ssa.Value) *Term {
	return x.T.mk(Term{Kind: KOpaque, Ref: v, Type: v.Type()})
}

// ParamTerm is the term of a parameter of the explored root function.
func (x *Explorer) ParamTerm(p *ssa.Parameter) *Term {
	return x.T.mk(Term{Kind: KParam, Ref: p, Type: p.Type()})
}

// loadArray rebuilds a small array value from the cells of its elements, if any is known.
func (x *Explorer) loadArray(addr *Term, at *types.Array, typ types.Type) *Term {
	any := false
	n := int(at.Len())
	et := types.NewPointer(at.Elem())
	for i := 0; i < n; i++ {
		ia := x.T.mk(Term{Kind: KIndexAddr, Args: []*Term{addr, x.T.Int(int64(i))}, Type: et})
		if _, ok := x.mem[ia.ID]; ok {
			any = true
		}
	}
	if !any {
		return nil
	}
	var args []*Term
	for i := 0; i < n; i++ {
		ia := x.T.mk(Term{Kind: KIndexAddr, Args: []*Term{addr, x.T.Int(int64(i))}, Type: et})
		args = append(args, x.load(ia, at.Elem()))
	}
	return x.T.mk(Term{Kind: KSliceLit, Op: token.LBRACK, Args: args, Type: typ})
}
