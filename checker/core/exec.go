package core

import (
	"go/token"
	"go/types"

	"golang.org/x/tools/go/ssa"
)

// enter moves control from block `from` to block b in frame fr.
func (x *Explorer) enter(fr *frame, from, b *ssa.BasicBlock) {
	if x.err != nil {
		return
	}
	li := x.loopsOf(fr.fn)
	n := fr.visits[b]
	lm := li.heads[b]
	if lm != nil && len(fr.cands) > 0 && from != nil && lm.body[from] && n >= 1 {
		// candidate invariants "phi >= c0" assumed at generalisation: each back edge has to re-establish them
		for _, in := range b.Instrs {
			phi, ok := in.(*ssa.Phi)
			if !ok {
				break
			}
			c0, isCand := fr.cands[phi]
			if !isCand {
				continue
			}
			for k, p := range b.Preds {
				if p == from {
					nv := x.eval(fr, phi.Edges[k])
					if !x.ProveLeq(x.T.Int(c0), nv) && x.Opts.OnInvariantFail != nil {
						x.Opts.OnInvariantFail(x, fr.fn, phi, nv)
					}
				}
			}
		}
	}
	if lm != nil && x.Opts.OnBackEdge != nil && from != nil && lm.body[from] && n >= 1 {
		var phis []*ssa.Phi
		var oldT, newT []*Term
		for _, in := range b.Instrs {
			phi, ok := in.(*ssa.Phi)
			if !ok {
				break
			}
			idx := -1
			for k, p := range b.Preds {
				if p == from {
					idx = k
				}
			}
			if idx < 0 {
				continue
			}
			phis = append(phis, phi)
			oldT = append(oldT, x.eval(fr, phi))
			newT = append(newT, x.eval(fr, phi.Edges[idx]))
		}
		x.Opts.OnBackEdge(x, fr.fn, b, phis, oldT, newT, func(v ssa.Value) *Term { return x.eval(fr, v) })
	}
	concrete := false
	if lm != nil && x.Opts.ConstLoops && x.constLoopTest(fr, b, from) {
		// a loop whose test compares constants on this arrival (for i := 0; i < 4; i++, range over an array,
		// a helper called with a constant count): executed concretely, iteration by iteration
		if fr.concrete == nil {
			fr.concrete = map[*ssa.BasicBlock]int{}
		}
		if from == nil || !lm.body[from] {
			fr.concrete[b] = 0
		}
		if fr.concrete[b] < 64 {
			concrete = true
		}
	}
	if concrete {
		fr.concrete[b]++
	} else if lm != nil {
		max := 2
		if x.Opts.Unroll >= 1 {
			max = 3
		}
		if n >= max {
			x.emit(EndCut, nil, nil)
			return
		}
	} else if n >= 4 {
		// irreducible re-entry guard
		x.emit(EndCut, nil, nil)
		return
	}
	if !concrete {
		fr.visits[b] = n + 1
	}
	oldPrev := fr.prev
	fr.prev = from
	general := false
	if lm != nil && !concrete {
		if x.Opts.Unroll == 0 || n >= 1 {
			general = true
			if x.Opts.PairIter && ((x.Opts.Unroll == 0 && n == 1) || (x.Opts.Unroll >= 1 && n == 2)) {
				// the iteration following a general one is executed precisely: paths
				// contain every pair of consecutive iterations from an arbitrary state
				general = false
			}
		}
		if general {
			x.havocLoop(lm)
		}
	}
	if fr.depth == 0 {
		x.blocks = append(x.blocks, b)
	}
	// phis
	i := 0
	var newPhi []*Term
	for ; i < len(b.Instrs); i++ {
		phi, ok := b.Instrs[i].(*ssa.Phi)
		if !ok {
			break
		}
		var t *Term
		if general || from == nil {
			t = x.T.mk(Term{Kind: KFresh, Ref: ssa.Value(phi), N: x.next(), Type: phi.Type()})
			if general && from != nil && x.Opts.OnGeneralise != nil {
				for k, p := range b.Preds {
					if p == from {
						x.Opts.OnGeneralise(x, fr.fn, b, phi, x.eval(fr, phi.Edges[k]), t)
					}
				}
			}
		} else {
			idx := -1
			for k, p := range b.Preds {
				if p == from {
					idx = k
				}
			}
			if idx < 0 {
				t = x.T.mk(Term{Kind: KFresh, Ref: ssa.Value(phi), N: x.next(), Type: phi.Type()})
			} else {
				t = x.eval(fr, phi.Edges[idx])
			}
		}
		newPhi = append(newPhi, t)
	}
	if general && x.Opts.LoopInvariants && lm != nil {
		x.seedLoopInvariants(fr, b, lm, newPhi, from)
	}
	if general && lm != nil && from != nil {
		x.seedStrideInvariants(fr, b, lm, from, newPhi)
	}
	// parallel assignment
	for k, t := range newPhi {
		x.setEnv(fr, b.Instrs[k].(*ssa.Phi), t)
	}
	x.execFrom(fr, b, i)
	fr.visits[b] = n
	if concrete {
		fr.concrete[b]--
	}
	fr.prev = oldPrev
}

func (x *Explorer) havocLoop(lm *loopMod) {
	for _, id := range x.liveIDs() {
		addr := x.cells[id]
		if addr == nil {
			continue
		}
		if _, live := x.mem[id]; !live {
			continue
		}
		if x.addrHit(addr, lm.writes, lm.globals, lm.allocs, lm.index, lm.deref) {
			x.setMem(addr, unkTerm)
		}
	}
	x.epoch = x.next()
}

func (x *Explorer) unknown(addr *Term) *Term {
	var et types.Type
	if addr.Type != nil {
		if p, ok := addr.Type.Underlying().(*types.Pointer); ok {
			et = p.Elem()
		}
	}
	return x.T.mk(Term{Kind: KLoad, Args: []*Term{addr}, N: x.next(), Type: et})
}

// addrHit: may a store described by the sets touch the cell at addr?
func (x *Explorer) addrHit(addr *Term, fields map[*types.Var]bool, globals map[*ssa.Global]bool, allocs map[*ssa.Alloc]bool, index, deref bool) bool {
	for a := addr; a != nil; {
		switch a.Kind {
		case KFieldAddr:
			if fields[a.Var] {
				return true
			}
			a = a.Args[0]
			continue
		case KIndexAddr:
			root := addrRoot(a)
			if root != nil && root.Kind == KAlloc {
				al := root.Ref.(*ssa.Alloc)
				if allocs[al] || (al.Heap && (deref || index)) {
					return true
				}
				return false
			}
			if index {
				return true
			}
			a = a.Args[0]
			continue
		case KAlloc:
			al := a.Ref.(*ssa.Alloc)
			return allocs[al] || (deref && al.Heap)
		case KGlobal:
			return globals[a.Ref.(*ssa.Global)]
		case KLoad:
			// cell reached through a loaded pointer: its own fields decide (already checked)
			return false
		case KSlice:
			a = a.Args[0]
			continue
		default:
			return deref && a == addr
		}
	}
	return false
}

func addrRoot(a *Term) *Term {
	for i := 0; i < 16 && a != nil; i++ {
		switch a.Kind {
		case KFieldAddr, KIndexAddr, KSlice:
			a = a.Args[0]
		default:
			return a
		}
	}
	return a
}

// eval returns the term of an SSA value in frame fr.
func (x *Explorer) eval(fr *frame, v ssa.Value) *Term {
	switch v := v.(type) {
	case *ssa.Const:
		if v.Value == nil {
			return x.T.Const(nil, v.Type())
		}
		return x.T.Const(wrapConst(v.Value, v.Type(), x.P.Pkg.TypesSizes), v.Type())
	case *ssa.Function:
		return x.T.mk(Term{Kind: KFunc, Ref: v, Type: v.Type()})
	case *ssa.Global:
		return x.T.mk(Term{Kind: KGlobal, Ref: v, Type: v.Type()})
	case *ssa.Builtin:
		return x.T.mk(Term{Kind: KOpaque, Ref: ssa.Value(v)})
	case *ssa.FreeVar:
		for i, fv := range fr.fn.FreeVars {
			if fv == v && i < len(fr.free) {
				return fr.free[i]
			}
		}
		return x.T.mk(Term{Kind: KFree, Ref: v, Type: v.Type()})
	}
	if t, ok := fr.env[v]; ok {
		return t
	}
	// on demand (region mode, or value defined before the region)
	if in, ok := v.(ssa.Instruction); ok && fr.region {
		t := x.pure(fr, in, true)
		if t != nil {
			return t
		}
	}
	return x.T.mk(Term{Kind: KOpaque, Ref: v, Type: v.Type()})
}

// pure evaluates side-effect-free instructions structurally.  With pre=true
// (value defined before the explored region) loads yield unknown content and
// calls/phis are opaque.
func (x *Explorer) pure(fr *frame, in ssa.Instruction, pre bool) *Term {
	switch v := in.(type) {
	case *ssa.BinOp:
		return x.Bin(v.Op, x.eval(fr, v.X), x.eval(fr, v.Y), v.Type())
	case *ssa.UnOp:
		switch v.Op {
		case token.NOT:
			return x.Not(x.eval(fr, v.X))
		case token.SUB, token.XOR:
			a := x.eval(fr, v.X)
			if a.IsConst() {
				if v.Op == token.SUB {
					return x.Bin(token.SUB, x.T.Const(wrapConst(zeroInt, v.Type(), x.P.Pkg.TypesSizes), v.Type()), a, v.Type())
				}
			}
			return x.T.mk(Term{Kind: KUn, Op: v.Op, Args: []*Term{a}, Type: v.Type()})
		case token.MUL:
			if pre {
				addr := x.eval(fr, v.X)
				return x.load(addr, v.Type())
			}
		}
	case *ssa.FieldAddr:
		return x.T.mk(Term{Kind: KFieldAddr, Var: fieldOf(v), Args: []*Term{x.eval(fr, v.X)}, Type: v.Type()})
	case *ssa.IndexAddr:
		base, idx := x.eval(fr, v.X), x.eval(fr, v.Index)
		// b[lo:][i] addresses b[lo+i]: one canonical address per element, whatever sub-slices the code went through
		if base.Kind == KSlice && isSliceTyped(base.Args[0]) && base.Args[3].Kind == KNone {
			if base.Args[1].Kind != KNone {
				idx = x.Bin(token.ADD, x.stripWiden(base.Args[1]), x.stripWiden(idx), types.Typ[types.Int])
			}
			base = base.Args[0]
		}
		return x.T.mk(Term{Kind: KIndexAddr, Args: []*Term{base, idx}, Type: v.Type()})
	case *ssa.Field:
		a := x.eval(fr, v.X)
		return x.fieldOfValue(a, fieldOf(v), v.Type())
	case *ssa.Index:
		return x.T.mk(Term{Kind: KIndex, Args: []*Term{x.eval(fr, v.X), x.eval(fr, v.Index)}, Type: v.Type()})
	case *ssa.Convert:
		return x.Conv(x.eval(fr, v.X), v.Type())
	case *ssa.ChangeType:
		a := x.eval(fr, v.X)
		if a.Kind == KFunc || a.Kind == KClosure {
			return a
		}
		return x.Conv(a, v.Type())
	case *ssa.ChangeInterface:
		return x.eval(fr, v.X)
	case *ssa.MakeInterface:
		return x.T.mk(Term{Kind: KMakeIface, Args: []*Term{x.eval(fr, v.X)}, Type: v.Type()})
	case *ssa.MakeClosure:
		var bs []*Term
		for _, b := range v.Bindings {
			bs = append(bs, x.eval(fr, b))
		}
		return x.T.mk(Term{Kind: KClosure, Ref: v.Fn.(*ssa.Function), Args: bs, Type: v.Type()})
	case *ssa.Slice:
		none := x.T.None()
		args := []*Term{x.eval(fr, v.X), none, none, none}
		if v.Low != nil {
			args[1] = x.eval(fr, v.Low)
		}
		if v.High != nil {
			args[2] = x.eval(fr, v.High)
		}
		if v.Max != nil {
			args[3] = x.eval(fr, v.Max)
		}
		// b[lo1:hi1][lo2:hi2] is b[lo1+lo2 : lo1+hi2] (hi1 when hi2 is absent)
		if in := args[0]; in.Kind == KSlice && isSliceTyped(in.Args[0]) && in.Args[3].Kind == KNone && args[3].Kind == KNone {
			intT := types.Typ[types.Int]
			lo1, hi1 := in.Args[1], in.Args[2]
			lo, hi := args[1], args[2]
			switch {
			case lo1.Kind == KNone:
			case lo.Kind == KNone:
				lo = lo1
			default:
				lo = x.Bin(token.ADD, x.stripWiden(lo1), x.stripWiden(lo), intT)
			}
			switch {
			case hi.Kind == KNone:
				hi = hi1
			case lo1.Kind != KNone:
				hi = x.Bin(token.ADD, x.stripWiden(lo1), x.stripWiden(hi), intT)
			}
			args = []*Term{in.Args[0], lo, hi, none}
		}
		return x.T.mk(Term{Kind: KSlice, Args: args, Type: v.Type()})
	case *ssa.Extract:
		tup := x.eval(fr, v.Tuple)
		return x.extract(tup, v.Index, v.Type())
	case *ssa.Lookup:
		a, k := x.eval(fr, v.X), x.eval(fr, v.Index)
		if _, isMap := v.X.Type().Underlying().(*types.Map); !isMap {
			return x.T.mk(Term{Kind: KIndex, Args: []*Term{a, k}, Type: v.Type()})
		}
		return x.T.mk(Term{Kind: KLookup, Args: []*Term{a, k}, N: x.epoch, Type: v.Type()})
	case *ssa.TypeAssert:
		a := x.eval(fr, v.X)
		if a.Kind == KMakeIface && !v.CommaOk && types.Identical(a.Args[0].Type, v.AssertedType) {
			return a.Args[0]
		}
		n := 0
		if v.CommaOk {
			n = 1
		}
		return x.T.mk(Term{Kind: KTypeAssert, Args: []*Term{a}, Type: v.AssertedType, N: n})
	case *ssa.SliceToArrayPointer:
		return x.Conv(x.eval(fr, v.X), v.Type())
	}
	return nil
}

var zeroInt = constantInt(0)

func (x *Explorer) extract(tup *Term, i int, typ types.Type) *Term {
	if tup.Kind == KSliceLit && tup.Op == token.COMMA { // tuple of inlined results
		if i < len(tup.Args) {
			return tup.Args[i]
		}
	}
	if typ == nil && tup.Type != nil {
		if tt, ok := tup.Type.(*types.Tuple); ok && i < tt.Len() {
			typ = tt.At(i).Type()
		}
	}
	return x.T.mk(Term{Kind: KExtract, Args: []*Term{tup}, N: i, Type: typ})
}

func (x *Explorer) tuple(rs []*Term) *Term {
	return x.T.mk(Term{Kind: KSliceLit, Op: token.COMMA, Args: rs})
}

func (x *Explorer) fieldOfValue(a *Term, f *types.Var, typ types.Type) *Term {
	if a.Kind == KConst && a.Val == nil {
		return x.zero(typ)
	}
	if a.Kind == KSliceLit && a.Op == token.STRUCT {
		if st, ok := a.Type.Underlying().(*types.Struct); ok {
			for i := 0; i < st.NumFields() && i < len(a.Args); i++ {
				if st.Field(i) == f {
					return a.Args[i]
				}
			}
		}
	}
	return x.T.mk(Term{Kind: KField, Var: f, Args: []*Term{a}, Type: typ})
}

// zero is the zero value of a type as a term.
func (x *Explorer) zero(t types.Type) *Term {
	switch u := t.Underlying().(type) {
	case *types.Basic:
		switch {
		case u.Info()&types.IsBoolean != 0:
			return x.T.Const(constantBool(false), t)
		case u.Info()&types.IsString != 0:
			return x.T.Const(constantString(""), t)
		case u.Info()&types.IsNumeric != 0:
			return x.T.Const(constantInt(0), t)
		}
	}
	return x.T.Const(nil, t)
}

// load reads memory at addr.
func (x *Explorer) load(addr *Term, typ types.Type) *Term {
	havoced := false
	if v, ok := x.mem[addr.ID]; ok {
		if v != unkTerm {
			return v
		}
		havoced = true
	}
	// aggregate whose fields have known cells: rebuild the struct value
	if st, ok := typ.Underlying().(*types.Struct); ok && typ != nil {
		if sv := x.loadStruct(addr, st, typ); sv != nil {
			return sv
		}
	}
	if at, ok := typ.Underlying().(*types.Array); ok && at.Len() <= 64 {
		if av := x.loadArray(addr, at, typ); av != nil {
			return av
		}
	}
	// by-value struct in memory whose holder cell is known: project the field
	if addr.Kind == KFieldAddr {
		if hv, ok := x.mem[addr.Args[0].ID]; ok && !havoced && hv != unkTerm {
			return x.fieldOfValue(hv, addr.Var, typ)
		}
	}
	if addr.Kind == KIndexAddr {
		if hv, ok := x.mem[addr.Args[0].ID]; ok && !havoced && hv != unkTerm && hv.Type != nil {
			if _, isArr := hv.Type.Underlying().(*types.Array); isArr {
				return x.T.mk(Term{Kind: KIndex, Args: []*Term{hv, addr.Args[1]}, Type: typ})
			}
		}
	}
	// fresh allocation on this path: zero content
	if root := addrRoot(addr); !havoced && root != nil && root.Kind == KAlloc && x.allocN[root.Ref.(*ssa.Alloc)] == root.N && root.N > 0 {
		if !x.allocTouched(root) {
			z := x.zero(typ)
			x.setMem(addr, z)
			return z
		}
	}
	t := x.T.mk(Term{Kind: KLoad, Args: []*Term{addr}, N: x.next(), Type: typ})
	x.setMem(addr, t)
	if x.Opts.RecordLoads {
		x.events = append(x.events, Event{Kind: EvLoad, Addr: addr, Val: t, NLits: len(x.lits)})
	}
	if x.Opts.OnFreshLoad != nil && !x.inFreshLoad {
		x.inFreshLoad = true
		x.Opts.OnFreshLoad(x, addr, t)
		x.inFreshLoad = false
	}
	return t
}

// StoreNow sets the cell at addr in the current path state (for call summaries supplied by rule hooks).
func (x *Explorer) StoreNow(addr, val *Term) { x.setMem(addr, val) }

// LoadNow reads the cell at addr in the current path state (for rule hooks).
func (x *Explorer) LoadNow(addr *Term, typ types.Type) *Term { return x.load(addr, typ) }

// unkTerm marks a cell whose content was invalidated (next load is fresh).
var unkTerm = &Term{Kind: KNone, ID: -1}

// allocTouched: has the allocation been handed to code that may have written it?
func (x *Explorer) allocTouched(root *Term) bool {
	_, t := x.mem[-root.ID]
	return t
}

func (x *Explorer) markTouched(root *Term) {
	old, ok := x.mem[-root.ID]
	x.mtrail = append(x.mtrail, memTrail{-root.ID, old, ok})
	x.mem[-root.ID] = root
}

// loadStruct rebuilds a struct value from the cells of its fields, if any is known.
func (x *Explorer) loadStruct(addr *Term, st *types.Struct, typ types.Type) *Term {
	any := false
	for i := 0; i < st.NumFields(); i++ {
		fa := x.T.mk(Term{Kind: KFieldAddr, Var: st.Field(i), Args: []*Term{addr}, Type: types.NewPointer(st.Field(i).Type())})
		if _, ok := x.mem[fa.ID]; ok {
			any = true
		}
	}
	if !any {
		return nil
	}
	var args []*Term
	for i := 0; i < st.NumFields(); i++ {
		fa := x.T.mk(Term{Kind: KFieldAddr, Var: st.Field(i), Args: []*Term{addr}, Type: types.NewPointer(st.Field(i).Type())})
		args = append(args, x.load(fa, st.Field(i).Type()))
	}
	return x.T.mk(Term{Kind: KSliceLit, Op: token.STRUCT, Args: args, Type: typ})
}

// ExtractOf builds the term for component i of a tuple-valued term.
func (x *Explorer) ExtractOf(tup *Term, i int, typ types.Type) *Term { return x.extract(tup, i, typ) }

// OpaqueOf is the term standing for an instruction value that was computed
// before the explored region.
func (x *Explorer) OpaqueOf(v ssa.Value) *Term {
	return x.T.mk(Term{Kind: KOpaque, Ref: v, Type: v.Type()})
}

// ParamTerm is the term of a parameter of the explored root function.
func (x *Explorer) ParamTerm(p *ssa.Parameter) *Term {
	return x.T.mk(Term{Kind: KParam, Ref: p, Type: p.Type()})
}

// loadArray rebuilds a small array value from the cells of its elements, if any is known.
func (x *Explorer) loadArray(addr *Term, at *types.Array, typ types.Type) *Term {
	any := false
	n := int(at.Len())
	et := types.NewPointer(at.Elem())
	for i := 0; i < n; i++ {
		ia := x.T.mk(Term{Kind: KIndexAddr, Args: []*Term{addr, x.T.Int(int64(i))}, Type: et})
		if _, ok := x.mem[ia.ID]; ok {
			any = true
		}
	}
	if !any {
		return nil
	}
	var args []*Term
	for i := 0; i < n; i++ {
		ia := x.T.mk(Term{Kind: KIndexAddr, Args: []*Term{addr, x.T.Int(int64(i))}, Type: et})
		args = append(args, x.load(ia, at.Elem()))
	}
	return x.T.mk(Term{Kind: KSliceLit, Op: token.LBRACK, Args: args, Type: typ})
}

// seedLoopInvariants adds facts about counters of a generalised loop head:
// for phi = φ(c0 from outside, phi + k from inside, k > 0): phi >= c0; and if
// the head (or the block computing phi+1 for range loops) tests phi' < T with
// T not modified in the loop: phi <= T (resp. phi+1 <= T), provided c0 <= T.
func (x *Explorer) seedLoopInvariants(fr *frame, b *ssa.BasicBlock, lm *loopMod, newPhi []*Term, from *ssa.BasicBlock) {
	x.seedPairInvariants(fr, b, lm, newPhi, from)
	for k, t := range newPhi {
		phi := b.Instrs[k].(*ssa.Phi)
		if bt, ok := phi.Type().Underlying().(*types.Basic); !ok || bt.Info()&types.IsInteger == 0 {
			continue
		}
		var c0 int64
		haveC0, good := false, true
		cand := false
		step := int64(0)
		for i, e := range phi.Edges {
			inside := lm.body[b.Preds[i]]
			if !inside {
				var v int64
				if c, isC := e.(*ssa.Const); isC && c.Value != nil {
					v = c.Int64()
				} else if lo, has := x.lower(x.eval(fr, e)); has {
					v = lo
				} else {
					good = false
					break
				}
				if !haveC0 || v < c0 {
					c0, haveC0 = v, true
				}
				continue
			}
			lo, _, okStep := stepOf(e, phi, 0, map[ssa.Value]bool{})
			if !okStep && x.Opts.OnInvariantFail != nil {
				// not phi + constant (e.g. off += n): keep "phi >= c0" as a candidate that every back edge must re-establish
				cand = true
				step = -1
				continue
			}
			if !okStep || lo < 0 {
				good = false
				break
			}
			if lo > 0 && (step == 0 || lo < step) {
				step = lo
			}
			if lo == 0 {
				step = -1 // the counter does not advance on every back edge: no upper invariant
			}
		}
		if !good || !haveC0 {
			continue
		}
		if cand {
			if fr.cands == nil {
				fr.cands = map[*ssa.Phi]int64{}
			}
			fr.cands[phi] = c0
		}
		x.tighten(t, c0, true)
		// upper invariant from the loop test
		x.seedUpper(fr, b, lm, phi, t, c0, step)
	}
}

// seedUpper: find `if cur < T` guarding the loop where cur is phi or phi+1
// computed in the head, T loop-invariant; then cur <= T is invariant at the
// test when the counter only grows by 1 per iteration under cur < T.
func (x *Explorer) seedUpper(fr *frame, b *ssa.BasicBlock, lm *loopMod, phi *ssa.Phi, t *Term, c0, step int64) {
	if step != 1 {
		return
	}
	iff, ok := b.Instrs[len(b.Instrs)-1].(*ssa.If)
	if !ok {
		return
	}
	cmp, ok := iff.Cond.(*ssa.BinOp)
	if !ok || cmp.Op != token.LSS {
		return
	}
	// both successors: true stays in loop, false leaves it
	if !lm.body[b.Succs[0]] || lm.body[b.Succs[1]] {
		return
	}
	var off int64
	switch l := cmp.X.(type) {
	case *ssa.Phi:
		if l != phi {
			return
		}
	case *ssa.BinOp:
		if l.Op != token.ADD || l.Block() != b {
			return
		}
		c, isC := l.Y.(*ssa.Const)
		if l.X != ssa.Value(phi) || !isC || c.Value == nil || c.Int64() != 1 {
			return
		}
		off = 1
	default:
		return
	}
	// the counter's increment on the back edge must be the tested value (range: phi' = phi+1 tested) or happen after the test
	// T must be loop-invariant: defined outside the loop body
	if ti, isI := cmp.Y.(ssa.Instruction); isI && lm.body[ti.Block()] {
		// len(s) recomputed in the head is fine if s itself is defined outside the loop
		call, isCall := cmp.Y.(*ssa.Call)
		if !isCall {
			return
		}
		bi, isB := call.Call.Value.(*ssa.Builtin)
		if !isB || bi.Name() != "len" {
			return
		}
		if ai, isAI := call.Call.Args[0].(ssa.Instruction); isAI && lm.body[ai.Block()] {
			return
		}
	}
	T := x.eval(fr, cmp.Y)
	if T.Kind == KOpaque {
		if call, isCall := cmp.Y.(*ssa.Call); isCall {
			if bi, isB := call.Call.Value.(*ssa.Builtin); isB && bi.Name() == "len" {
				T = x.Len(x.eval(fr, call.Call.Args[0]))
			}
		}
	}
	// base case: c0 + off <= T  (T >= 0 for lengths)
	lo, has := x.lower(T)
	if !has || c0+off > lo {
		return
	}
	// invariant: phi + off <= T, i.e. !(T < phi + off)
	cur := t
	if off != 0 {
		cur = x.Bin(token.ADD, t, x.T.Const(constantInt(off), t.Type), t.Type)
	}
	lt := x.Lt(T, cur)
	if lt.Kind == KLt || lt.Kind == KNot {
		pol := false
		if lt.Kind == KNot {
			lt, pol = lt.Args[0], true
		}
		x.setFact(lt, pol)
	}
}

// stepOf: value e (on a back edge) equals phi + k for k in [lo, hi] on every
// way it can be computed (looking through merge phis inside the loop body).
func stepOf(e ssa.Value, phi *ssa.Phi, depth int, seen map[ssa.Value]bool) (lo, hi int64, ok bool) {
	if e == ssa.Value(phi) {
		return 0, 0, true
	}
	if depth > 6 || seen[e] {
		return 0, 0, false
	}
	seen[e] = true
	defer delete(seen, e) // on-stack marking only: shared sub-values of a DAG are fine, cycles are not
	switch v := e.(type) {
	case *ssa.BinOp:
		if v.Op != token.ADD && v.Op != token.SUB {
			return 0, 0, false
		}
		var base ssa.Value
		var kc *ssa.Const
		if c, isC := v.Y.(*ssa.Const); isC {
			base, kc = v.X, c
		} else if c, isC := v.X.(*ssa.Const); isC && v.Op == token.ADD {
			base, kc = v.Y, c
		}
		if kc == nil || kc.Value == nil {
			return 0, 0, false
		}
		k := kc.Int64()
		if v.Op == token.SUB {
			k = -k
		}
		l, h, ok := stepOf(base, phi, depth+1, seen)
		return l + k, h + k, ok
	case *ssa.Phi:
		first := true
		for _, ed := range v.Edges {
			l, h, ok := stepOf(ed, phi, depth+1, seen)
			if !ok {
				return 0, 0, false
			}
			if first || l < lo {
				lo = l
			}
			if first || h > hi {
				hi = h
			}
			first = false
		}
		return lo, hi, !first
	}
	return 0, 0, false
}

// seedPairInvariants: for two integer counters a, b of one loop head such that
// on every back edge a advances at least as much as b ever does, (a - b) never
// decreases; if b0 + 1 <= a0 (resp. b0 <= a0) holds at entry the fact b < a
// (resp. b <= a) is invariant.
func (x *Explorer) seedPairInvariants(fr *frame, blk *ssa.BasicBlock, lm *loopMod, newPhi []*Term, from *ssa.BasicBlock) {
	type ctr struct {
		phi    *ssa.Phi
		t      *Term
		init   *Term
		lo, hi int64
	}
	var cs []ctr
	for k, t := range newPhi {
		phi := blk.Instrs[k].(*ssa.Phi)
		if bt, ok := phi.Type().Underlying().(*types.Basic); !ok || bt.Info()&types.IsInteger == 0 {
			continue
		}
		c := ctr{phi: phi, t: t}
		good, first := true, true
		nOut := 0
		for i, e := range phi.Edges {
			if !lm.body[blk.Preds[i]] {
				nOut++
				c.init = x.eval(fr, e)
				continue
			}
			l, h, ok := stepOf(e, phi, 0, map[ssa.Value]bool{})
			if !ok {
				good = false
				break
			}
			if first || l < c.lo {
				c.lo = l
			}
			if first || h > c.hi {
				c.hi = h
			}
			first = false
		}
		if good && nOut == 1 && !first {
			// generalising on arrival over a back edge (the first iterations were
			// peeled): the base case is the state that arrives, not the entry state
			if from != nil && lm.body[from] {
				for i, p := range blk.Preds {
					if p == from {
						c.init = x.eval(fr, phi.Edges[i])
					}
				}
			}
			cs = append(cs, c)
		}
	}
	for _, a := range cs {
		for _, b := range cs {
			if a.phi == b.phi || a.lo < b.hi || a.lo < 0 {
				continue
			}
			one := x.T.Const(constantInt(1), b.init.Type)
			switch {
			case x.ProveLeq(x.Bin(token.ADD, b.init, one, b.init.Type), a.init):
				x.AssumeLit(x.Lt(b.t, a.t), true)
			case x.ProveLeq(b.init, a.init):
				x.AssumeLit(x.Lt(a.t, b.t), false)
			}
		}
	}
}

// isSliceTyped: the term is a slice value (not a string, array or array pointer).
func isSliceTyped(t *Term) bool {
	if t == nil || t.Type == nil {
		return false
	}
	_, ok := t.Type.Underlying().(*types.Slice)
	return ok
}

// constLoopTest: block b is a loop head ending in `if X < Y` (or <=, !=, >, >=)
// where, on arrival from `from`, X is a head phi (or phi +/- constant) whose
// incoming value is a constant and Y is a constant (literal, a value bound to
// a constant outside the head, or len of an array).
func (x *Explorer) constLoopTest(fr *frame, b, from *ssa.BasicBlock) bool {
	if len(b.Instrs) == 0 {
		return false
	}
	iff, ok := b.Instrs[len(b.Instrs)-1].(*ssa.If)
	if !ok {
		return false
	}
	cmp, ok := iff.Cond.(*ssa.BinOp)
	if !ok {
		return false
	}
	switch cmp.Op {
	case token.LSS, token.LEQ, token.GTR, token.GEQ, token.NEQ:
	default:
		return false
	}
	constTerm := func(t *Term) bool {
		if t.IsConst() {
			return true
		}
		lo, hasLo := x.lower(t)
		hi, hasHi := x.upper(t)
		return hasLo && hasHi && lo == hi // pinned by the facts of the path (len(p) after a successful read(n))
	}
	isConstHere := func(v ssa.Value) bool {
		switch v := v.(type) {
		case *ssa.Const:
			return v.Value != nil
		case *ssa.Phi:
			if v.Block() != b {
				break
			}
			for k, p := range b.Preds {
				if p == from {
					return constTerm(x.eval(fr, v.Edges[k]))
				}
			}
			return false
		case *ssa.BinOp:
			if phi, isPhi := v.X.(*ssa.Phi); isPhi && phi.Block() == b && v.Block() == b {
				if _, isC := v.Y.(*ssa.Const); isC {
					for k, p := range b.Preds {
						if p == from {
							return constTerm(x.eval(fr, phi.Edges[k]))
						}
					}
				}
				return false
			}
		case *ssa.Call:
			if bi, isB := v.Call.Value.(*ssa.Builtin); isB && bi.Name() == "len" && v.Block() == b {
				t := v.Call.Args[0].Type().Underlying()
				if p, isP := t.(*types.Pointer); isP {
					t = p.Elem().Underlying()
				}
				_, isArr := t.(*types.Array)
				return isArr
			}
		}
		if in, isI := v.(ssa.Instruction); isI && in.Block() == b {
			return false // computed in the head from non-constant operands
		}
		if _, bound := fr.env[v]; !bound {
			if _, isP := v.(*ssa.Parameter); !isP {
				return false
			}
		}
		return constTerm(x.eval(fr, v))
	}
	return isConstHere(cmp.X) && isConstHere(cmp.Y)
}

// seedStrideInvariants: a slice cursor whose every back edge is cur[W:] for
// one constant W > 1 and whose length on entry is a multiple of W keeps a
// length that is a multiple of W (len - W is one again): the loop
// `for words := b[:n]; len(words) > 0; words = words[W:]` with n = (len(b)/W)*W
// then has len(words) >= W inside.
func (x *Explorer) seedStrideInvariants(fr *frame, b *ssa.BasicBlock, lm *loopMod, from *ssa.BasicBlock, newPhi []*Term) {
	for k, t := range newPhi {
		phi := b.Instrs[k].(*ssa.Phi)
		if _, isSl := phi.Type().Underlying().(*types.Slice); !isSl {
			continue
		}
		stride := int64(0)
		good := true
		var entry []ssa.Value
		for i, e := range phi.Edges {
			if !lm.body[b.Preds[i]] {
				entry = append(entry, e)
				continue
			}
			sl, isS := e.(*ssa.Slice)
			if !isS || sl.X != ssa.Value(phi) || sl.High != nil || sl.Max != nil {
				good = false
				break
			}
			c, isC := sl.Low.(*ssa.Const)
			if !isC || c.Value == nil || c.Int64() <= 1 || (stride != 0 && stride != c.Int64()) {
				good = false
				break
			}
			stride = c.Int64()
		}
		if !good || stride == 0 || len(entry) == 0 {
			continue
		}
		for _, e := range entry {
			if !x.MultipleOf(x.Len(x.eval(fr, e)), stride) {
				good = false
			}
		}
		if good {
			x.AssumeMultiple(x.Len(t), stride)
		}
	}
}
