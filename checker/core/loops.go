package core

import (
	"go/types"

	"golang.org/x/tools/go/ssa"
)

// loopInfo: loop heads of a function and what each natural loop may modify.
type loopInfo struct {
	heads map[*ssa.BasicBlock]*loopMod
}

type loopMod struct {
	body    map[*ssa.BasicBlock]bool
	writes  map[*types.Var]bool
	globals map[*ssa.Global]bool
	allocs  map[*ssa.Alloc]bool
	index   bool
	deref   bool
}

func (x *Explorer) loopsOf(fn *ssa.Function) *loopInfo {
	if li, ok := x.loops[fn]; ok {
		return li
	}
	li := &loopInfo{heads: map[*ssa.BasicBlock]*loopMod{}}
	x.loops[fn] = li
	for _, u := range fn.Blocks {
		for _, v := range u.Succs {
			if v.Dominates(u) { // back edge u -> v
				lm := li.heads[v]
				if lm == nil {
					lm = &loopMod{body: map[*ssa.BasicBlock]bool{v: true}, writes: map[*types.Var]bool{}, globals: map[*ssa.Global]bool{}, allocs: map[*ssa.Alloc]bool{}}
					li.heads[v] = lm
				}
				// natural loop: nodes reaching u without passing v
				stack := []*ssa.BasicBlock{u}
				for len(stack) > 0 {
					n := stack[len(stack)-1]
					stack = stack[:len(stack)-1]
					if lm.body[n] {
						continue
					}
					lm.body[n] = true
					stack = append(stack, n.Preds...)
				}
			}
		}
	}
	for _, lm := range li.heads {
		for b := range lm.body {
			for _, in := range b.Instrs {
				switch in := in.(type) {
				case *ssa.Store:
					x.loopStore(lm, in.Addr)
				case *ssa.MapUpdate:
				case ssa.CallInstruction:
					ins, ext := x.P.Callees(in)
					for _, c := range ins {
						m := x.P.Mod(c)
						for k := range m.Writes {
							lm.writes[k] = true
						}
						for k := range m.GWrites {
							lm.globals[k] = true
						}
						lm.index = lm.index || m.Index
						lm.deref = lm.deref || m.Deref
					}
					if ext {
						// external code may write through pointers/slices handed to it
						for _, a := range in.Common().Args {
							if r := rootAlloc(a); r != nil {
								lm.allocs[r] = true
							}
							if _, ok := a.Type().Underlying().(*types.Slice); ok {
								lm.index = true
							}
						}
					}
					if bi, ok := in.Common().Value.(*ssa.Builtin); ok && bi.Name() == "copy" {
						if r := rootAlloc(in.Common().Args[0]); r != nil {
							lm.allocs[r] = true
						} else {
							lm.index = true
						}
						if s, ok := in.Common().Args[0].(*ssa.Slice); ok {
							if fa, ok := s.X.(*ssa.FieldAddr); ok {
								lm.writes[fieldOf(fa)] = true
							}
						}
					}
				}
			}
		}
	}
	return li
}

func (x *Explorer) loopStore(lm *loopMod, addr ssa.Value) {
	switch a := addr.(type) {
	case *ssa.FieldAddr:
		lm.writes[fieldOf(a)] = true
		if r := rootAlloc(a); r != nil {
			lm.allocs[r] = true
		}
	case *ssa.Global:
		lm.globals[a] = true
	case *ssa.IndexAddr:
		if r := rootAlloc(a); r != nil {
			lm.allocs[r] = true
		} else {
			lm.index = true
		}
		if fa, ok := a.X.(*ssa.FieldAddr); ok {
			lm.writes[fieldOf(fa)] = true
		}
	case *ssa.Alloc:
		lm.allocs[a] = true
	default:
		lm.deref = true
	}
}

// rootAlloc follows FieldAddr/IndexAddr/Slice chains to a local allocation.
func rootAlloc(v ssa.Value) *ssa.Alloc {
	for i := 0; i < 10; i++ {
		switch a := v.(type) {
		case *ssa.Alloc:
			return a
		case *ssa.FieldAddr:
			v = a.X
		case *ssa.IndexAddr:
			v = a.X
		case *ssa.Slice:
			v = a.X
		default:
			return nil
		}
	}
	return nil
}
