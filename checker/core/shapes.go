package core

import (
	"fmt"
	"go/types"
	"sort"
	"strings"

	"golang.org/x/tools/go/ssa"
)

// Shapes: name-independent fingerprints used to re-bind an anchor after a pure
// rename.  A rename leaves the body untouched, so the fingerprint of the
// renamed function (field) equals the one recorded for the old name exactly;
// an anchor is re-bound only when exactly one function (field) that carries no
// known name has that fingerprint.  Anything else stays unresolved and fails.

// normType renders a type with every named type of the analysed package replaced by one placeholder, so
// that renaming a type changes no fingerprint.
func normType(t types.Type) string {
	s := types.TypeString(t, func(p *types.Package) string {
		if p != nil && p.Path() == PkgPath {
			return "\x00"
		}
		return p.Path()
	})
	if !strings.Contains(s, "\x00") {
		return s
	}
	var b strings.Builder
	for i := 0; i < len(s); i++ {
		if s[i] != 0 {
			b.WriteByte(s[i])
			continue
		}
		b.WriteString("·T")
		i++ // the dot
		for i+1 < len(s) && (s[i+1] == '_' || s[i+1] >= '0' && s[i+1] <= '9' || s[i+1] >= 'A' && s[i+1] <= 'Z' || s[i+1] >= 'a' && s[i+1] <= 'z') {
			i++
		}
	}
	return b.String()
}

func typeList(t *types.Tuple) string {
	var s []string
	for i := 0; i < t.Len(); i++ {
		s = append(s, normType(t.At(i).Type()))
	}
	return strings.Join(s, ",")
}

// TypeShape fingerprints a named struct type without its own name or its field names: field types in
// order, and the sorted signatures of its methods (value and pointer receivers).
func (p *Prog) TypeShape(n *types.Named) string {
	st, ok := n.Underlying().(*types.Struct)
	if !ok {
		return "non-struct|" + normType(n.Underlying())
	}
	var fs []string
	for i := 0; i < st.NumFields(); i++ {
		fs = append(fs, normType(st.Field(i).Type()))
	}
	var ms []string
	for i := 0; i < n.NumMethods(); i++ {
		m := n.Method(i)
		sig := m.Type().(*types.Signature)
		exported := ""
		if m.Exported() {
			exported = m.Name() // exported method names are API, they do not change in a clean-up
		}
		ms = append(ms, exported+"("+typeList(sig.Params())+")("+typeList(sig.Results())+")")
	}
	sort.Strings(ms)
	return "struct{" + strings.Join(fs, ";") + "}|" + strings.Join(ms, ";")
}

// AliasRenamedTypes re-binds named struct types ("old name" -> shape) after a pure rename.
func (p *Prog) AliasRenamedTypes(typeShapes map[string]string) {
	p.TypeAlias = map[string]*types.Named{}
	scope := p.Types.Scope()
	var unknown []*types.Named
	for _, name := range scope.Names() {
		tn, ok := scope.Lookup(name).(*types.TypeName)
		if !ok || tn.IsAlias() {
			continue
		}
		if _, known := typeShapes[name]; known {
			continue
		}
		if n, isN := tn.Type().(*types.Named); isN {
			unknown = append(unknown, n)
		}
	}
	names := make([]string, 0, len(typeShapes))
	for n := range typeShapes {
		names = append(names, n)
	}
	sort.Strings(names)
	missingWithShape := map[string]int{}
	for _, old := range names {
		if scope.Lookup(old) == nil {
			missingWithShape[typeShapes[old]]++
		}
	}
	for _, old := range names {
		if scope.Lookup(old) != nil || missingWithShape[typeShapes[old]] != 1 {
			continue
		}
		var cands []*types.Named
		for _, n := range unknown {
			if p.TypeShape(n) == typeShapes[old] {
				cands = append(cands, n)
			}
		}
		if len(cands) == 1 {
			p.TypeAlias[old] = cands[0]
		}
	}
}


// FuncShape fingerprints a function without using any identifier of the package's functions or fields.
func (p *Prog) FuncShape(f *ssa.Function) string {
	sig := f.Signature
	recv := ""
	if sig.Recv() != nil {
		recv = normType(sig.Recv().Type())
	}
	var ext, inv []string
	nIn, nInstr, nStore, nLoadField := 0, 0, 0, 0
	for _, b := range f.Blocks {
		for _, in := range b.Instrs {
			nInstr++
			switch v := in.(type) {
			case *ssa.Store:
				nStore++
			case *ssa.FieldAddr:
				nLoadField++
			case ssa.CallInstruction:
				cc := v.Common()
				if cc.IsInvoke() {
					inv = append(inv, cc.Method.Name())
				} else if g := cc.StaticCallee(); g != nil {
					if p.InPkg(g) {
						nIn++
					} else {
						ext = append(ext, g.String())
					}
				}
			}
		}
	}
	sort.Strings(ext)
	sort.Strings(inv)
	return fmt.Sprintf("%s|(%s)(%s)|b%d i%d s%d f%d c%d|%s|%s|a%d", recv, typeList(sig.Params()), typeList(sig.Results()), len(f.Blocks), nInstr, nStore, nLoadField, nIn, strings.Join(ext, ","), strings.Join(inv, ","), len(f.AnonFuncs))
}

// FieldShape fingerprints a struct field by its struct, type and use counts.
func (p *Prog) FieldShape(structName string, f *types.Var) string {
	addr, val := 0, 0
	fns := map[string]int{}
	for _, fn := range p.FuncList {
		for _, b := range fn.Blocks {
			for _, in := range b.Instrs {
				switch v := in.(type) {
				case *ssa.FieldAddr:
					if fieldOf(v) == f {
						addr++
						fns[p.FuncShape(fn)]++
					}
				case *ssa.Field:
					if fieldOf(v) == f {
						val++
						fns[p.FuncShape(fn)]++
					}
				}
			}
		}
	}
	var keys []string
	for k, n := range fns {
		keys = append(keys, fmt.Sprintf("%08x:%d", hashString(k), n))
	}
	sort.Strings(keys)
	return fmt.Sprintf("%s|%s|a%d v%d|%s", structName, normType(f.Type()), addr, val, strings.Join(keys, ","))
}

func hashString(s string) uint32 {
	h := uint32(2166136261)
	for i := 0; i < len(s); i++ {
		h = (h ^ uint32(s[i])) * 16777619
	}
	return h
}

// AliasRenamed re-binds function anchors (name -> shape recorded on the tree the rules were written for).
func (p *Prog) AliasRenamed(funcShapes map[string]string, known map[string]bool) {
	if p.Converted == nil {
		p.Converted = map[*ssa.Function]string{}
	}
	// candidates: functions whose name the rules do not know
	byShape := map[string][]*ssa.Function{}
	for _, f := range p.FuncList {
		if f.Parent() != nil || f.Synthetic != "" || known[FuncName(f)] || p.Converted[f] != "" {
			continue
		}
		s := p.FuncShape(f)
		byShape[s] = append(byShape[s], f)
	}
	names := make([]string, 0, len(funcShapes))
	for n := range funcShapes {
		names = append(names, n)
	}
	sort.Strings(names)
	// two anchors with the same recorded shape cannot be told apart
	shapeUsers := map[string]int{}
	for _, n := range names {
		if p.Funcs[n] == nil {
			shapeUsers[funcShapes[n]]++
		}
	}
	for _, n := range names {
		if p.Funcs[n] != nil || strings.Contains(n, "$") {
			continue
		}
		c := byShape[funcShapes[n]]
		if len(c) != 1 || shapeUsers[funcShapes[n]] != 1 {
			continue
		}
		f := c[0]
		p.Funcs[n] = f
		p.Converted[f] = n
		convertedNames[f] = n
		// its closures answer to the old names too ("old$1")
		var rec func(parent *ssa.Function)
		rec = func(parent *ssa.Function) {
			for _, a := range parent.AnonFuncs {
				p.Funcs[FuncName(a)] = a
				rec(a)
			}
		}
		rec(f)
	}
}

// AliasRenamedFields prepares Field() fallbacks: "Struct.field" -> shape recorded earlier.
func (p *Prog) AliasRenamedFields(fieldShapes map[string]string) {
	p.FieldAlias = map[string]*types.Var{}
	// known field names per struct
	knownNames := map[string]map[string]bool{}
	for k := range fieldShapes {
		i := strings.IndexByte(k, '.')
		if knownNames[k[:i]] == nil {
			knownNames[k[:i]] = map[string]bool{}
		}
		knownNames[k[:i]][k[i+1:]] = true
	}
	keys := make([]string, 0, len(fieldShapes))
	for k := range fieldShapes {
		keys = append(keys, k)
	}
	sort.Strings(keys)
	for _, k := range keys {
		i := strings.IndexByte(k, '.')
		sn, fnm := k[:i], k[i+1:]
		var under types.Type
		if tn, ok := p.Types.Scope().Lookup(sn).(*types.TypeName); ok {
			under = tn.Type().Underlying()
		} else if al := p.TypeAlias[sn]; al != nil {
			under = al.Underlying()
		}
		st, ok := under.(*types.Struct)
		if !ok {
			continue
		}
		present := false
		var cands []*types.Var
		for j := 0; j < st.NumFields(); j++ {
			if st.Field(j).Name() == fnm {
				present = true
			}
		}
		if present {
			continue
		}
		for j := 0; j < st.NumFields(); j++ {
			f := st.Field(j)
			if knownNames[sn][f.Name()] {
				continue
			}
			if p.FieldShape(sn, f) == fieldShapes[k] {
				cands = append(cands, f)
			}
		}
		if len(cands) == 1 {
			p.FieldAlias[k] = cands[0]
		}
	}
}

// OldFieldName: the name the rules know the field by (its own name unless it was re-bound after a rename).
func (p *Prog) OldFieldName(f *types.Var) string {
	for k, v := range p.FieldAlias {
		if v == f {
			return k[strings.IndexByte(k, '.')+1:]
		}
	}
	return f.Name()
}

// GlobalShape fingerprints a package-level variable by its type and use count.
func (p *Prog) GlobalShape(g *ssa.Global) string {
	uses := 0
	fns := append([]*ssa.Function{}, p.FuncList...)
	if init := p.SPkg.Func("init"); init != nil {
		fns = append(fns, init)
	}
	for _, fn := range fns {
		for _, b := range fn.Blocks {
			for _, in := range b.Instrs {
				for _, op := range in.Operands(nil) {
					if *op == ssa.Value(g) {
						uses++
					}
				}
			}
		}
	}
	return fmt.Sprintf("%s|u%d", normType(g.Type()), uses)
}

// AliasRenamedGlobals re-binds package-level variables after a pure rename.
func (p *Prog) AliasRenamedGlobals(shapes map[string]string) {
	p.GlobalAlias = map[string]*ssa.Global{}
	var unknown []*ssa.Global
	names := make([]string, 0, len(p.SPkg.Members))
	for n := range p.SPkg.Members {
		names = append(names, n)
	}
	sort.Strings(names)
	for _, n := range names {
		if g, ok := p.SPkg.Members[n].(*ssa.Global); ok {
			if _, known := shapes[n]; !known && !strings.HasPrefix(n, "init$") {
				unknown = append(unknown, g)
			}
		}
	}
	olds := make([]string, 0, len(shapes))
	for n := range shapes {
		olds = append(olds, n)
	}
	sort.Strings(olds)
	missing := map[string]int{}
	for _, o := range olds {
		if _, ok := p.SPkg.Members[o].(*ssa.Global); !ok {
			missing[shapes[o]]++
		}
	}
	for _, o := range olds {
		if _, ok := p.SPkg.Members[o].(*ssa.Global); ok || missing[shapes[o]] != 1 {
			continue
		}
		var cands []*ssa.Global
		for _, g := range unknown {
			if p.GlobalShape(g) == shapes[o] {
				cands = append(cands, g)
			}
		}
		if len(cands) == 1 {
			p.GlobalAlias[o] = cands[0]
		}
	}
}
