package core

import (
	"go/token"
	"go/types"
)

func intTypeOr(t types.Type) types.Type {
	if t == nil {
		return types.Typ[types.Int]
	}
	return t
}

// ---- small prover over the facts of the current path ----

// prove: the boolean term holds on the current path.
func (x *Explorer) Prove(t *Term) bool {
	v, ok := x.Decide(t)
	return ok && v
}

func (x *Explorer) ProveLeq(a, b *Term) bool { // a <= b
	if x.proveLeqRules(a, b) {
		return true
	}
	return x.depth == 0 && x.linProve(a, b, false)
}

func (x *Explorer) proveLeqRules(a, b *Term) bool {
	if a == b {
		return true
	}
	// a - b is a constant (all symbolic parts cancel)
	if isIntegerTerm(a) && isIntegerTerm(b) && (a.Kind == KBin || b.Kind == KBin) {
		la, ka, ok1 := x.linear(a, 0)
		lb, kb, ok2 := x.linear(b, 0)
		if ok1 && ok2 {
			same := true
			for id, c := range la {
				if lb[id] != c {
					same = false
				}
			}
			for id, c := range lb {
				if la[id] != c {
					same = false
				}
			}
			if same {
				return ka <= kb
			}
		}
	}
	v, ok := x.Decide(x.Lt(b, a))
	if ok && !v {
		return true
	}
	// a + k <= b for k <= 0 when (a' <= b) with a = a' + k
	if a.Kind == KBin && a.Op == token.ADD {
		if k, isC := a.Args[1].Int64(); isC && k <= 0 {
			return x.ProveLeq(a.Args[0], b)
		}
	}
	if a.Kind == KBin && a.Op == token.SUB {
		if k, isC := a.Args[1].Int64(); isC && k >= 0 {
			return x.ProveLeq(a.Args[0], b)
		}
		// a0 - y <= b  when a0 <= b and y >= 0
		if lo, has := x.Lower(a.Args[1]); has && lo >= 0 {
			return x.ProveLeq(a.Args[0], b)
		}
		if x.depth < 3 && x.NonNeg(a.Args[1]) {
			x.depth++
			r := x.ProveLeq(a.Args[0], b)
			x.depth--
			if r {
				return true
			}
		}
	}
	// a' + k <= b' + k  <=  a' <= b'
	if a.Kind == KBin && b.Kind == KBin && a.Op == token.ADD && b.Op == token.ADD {
		if ka, ok1 := a.Args[1].Int64(); ok1 {
			if kb, ok2 := b.Args[1].Int64(); ok2 && ka <= kb && x.depth < 4 {
				x.depth++
				r := x.ProveLeq(a.Args[0], b.Args[0])
				x.depth--
				if r {
					return true
				}
			}
		}
	}
	// p + q <= b  <=  q <= b - p  (q is b - p itself, or a recorded fact says so); both orders
	if a.Kind == KBin && a.Op == token.ADD && !a.Args[1].IsConst() && x.depth < 3 {
		for k := 0; k < 2; k++ {
			p, q := a.Args[k], a.Args[1-k]
			d := x.Bin(token.SUB, b, p, intTypeOr(a.Type))
			if q == d {
				return true
			}
			x.depth++
			r := x.ProveLeq(q, d)
			x.depth--
			if r {
				return true
			}
		}
	}
	// a' + 1 <= b  <=  a' < b (integers)
	if a.Kind == KBin && a.Op == token.ADD {
		if k, isC := a.Args[1].Int64(); isC && k == 1 && x.Prove(x.Lt(a.Args[0], b)) {
			return true
		}
	}
	// (y / c) * c <= y for y >= 0, c > 0
	if a.Kind == KBin && a.Op == token.MUL {
		if c1, isC := a.Args[1].Int64(); isC && c1 > 0 {
			if q := a.Args[0]; q.Kind == KBin && q.Op == token.QUO {
				if c2, isC2 := q.Args[1].Int64(); isC2 && c2 == c1 && x.NonNeg(q.Args[0]) && x.ProveLeq(q.Args[0], b) {
					return true
				}
			}
		}
	}
	// a <= a + y for y >= 0 ; a - y <= a
	if b.Kind == KBin && b.Op == token.ADD {
		if (b.Args[0] == a && x.NonNeg(b.Args[1])) || (b.Args[1] == a && x.NonNeg(b.Args[0])) {
			return true
		}
	}
	// k <= B - p  <=  p + k <= B  (k constant)
	if b.Kind == KBin && b.Op == token.SUB && !b.Args[1].IsConst() && x.depth < 3 {
		if k, isC := a.Int64(); isC {
			x.depth++
			var r bool
			switch {
			case k <= 0:
				r = x.ProveLeq(b.Args[1], b.Args[0])
			case k == 1:
				r = x.ProveLt(b.Args[1], b.Args[0])
			default:
				r = x.ProveLeq(x.Bin(token.ADD, b.Args[1], a, intTypeOr(b.Type)), b.Args[0])
			}
			x.depth--
			if r {
				return true
			}
		}
	}
	// a <= b - k  <=  a + k <= b ... only the k = 1 case: a < b
	if b.Kind == KBin && b.Op == token.SUB {
		if k, isC := b.Args[1].Int64(); isC && k == 1 && x.Prove(x.Lt(a, b.Args[0])) {
			return true
		}
	}
	if b.Kind == KBin && b.Op == token.ADD {
		if k, isC := b.Args[1].Int64(); isC && k == -1 && x.Prove(x.Lt(a, b.Args[0])) {
			return true
		}
	}
	// via constants
	if hi, has := x.Upper(a); has {
		if lo, has2 := x.Lower(b); has2 && hi <= lo {
			return true
		}
	}
	// k <= b when b is a positive multiple of k
	if k, isC := a.Int64(); isC && k > 1 && x.depth < 3 && x.MultipleOf(b, k) {
		x.depth++
		r := x.ProveLt(x.T.Int(0), b)
		x.depth--
		if r {
			return true
		}
	}
	// a < b implies a <= b
	if x.depth < 2 {
		x.depth++
		r := x.ProveLt(a, b)
		x.depth--
		return r
	}
	return false
}

func (x *Explorer) ProveLt(a, b *Term) bool { // a < b
	if x.proveLtRules(a, b) {
		return true
	}
	return x.depth == 0 && x.linProve(a, b, true)
}

func (x *Explorer) proveLtRules(a, b *Term) bool {
	if x.Prove(x.Lt(a, b)) {
		return true
	}
	// transitivity through recorded facts: a < m and (m <= b, or b = B - 1 and m < B)
	if x.depth < 3 {
		x.depth++
		defer func() { x.depth-- }()
		for _, m := range x.factsWithLeft(a) {
			if x.ProveLeq(m, b) {
				return true
			}
			if b.Kind == KBin && ((b.Op == token.SUB && isConstK(b.Args[1], 1)) || (b.Op == token.ADD && isConstK(b.Args[1], -1))) {
				if x.ProveLt(m, b.Args[0]) {
					return true
				}
			}
		}
	}
	if hi, has := x.Upper(a); has {
		if lo, has2 := x.Lower(b); has2 && hi < lo {
			return true
		}
	}
	// a <= b and a != b
	if v, ok := x.Decide(x.Eq(a, b)); ok && !v && x.depth < 2 {
		x.depth += 2
		r := x.ProveLeq(a, b)
		x.depth -= 2
		if r {
			return true
		}
	}
	// a = a' - k (k >= 1) and a' <= b
	if a.Kind == KBin && a.Op == token.SUB {
		if k, isC := a.Args[1].Int64(); isC && k >= 1 {
			return x.ProveLeq(a.Args[0], b)
		}
	}
	if a.Kind == KBin && a.Op == token.ADD {
		if k, isC := a.Args[1].Int64(); isC && k <= -1 {
			return x.ProveLeq(a.Args[0], b)
		}
	}
	return false
}

func (x *Explorer) NonNeg(a *Term) bool {
	if lo, has := x.Lower(a); has && lo >= 0 {
		return true
	}
	// A - B >= 0  <=  B <= A
	if a.Kind == KBin && a.Op == token.SUB && x.depth < 3 {
		x.depth++
		r := x.ProveLeq(a.Args[1], a.Args[0])
		x.depth--
		if r {
			return true
		}
	}
	return x.Prove(x.Not(x.Lt(a, x.T.Int(0))))
}

func isConstK(t *Term, k int64) bool {
	v, ok := t.Int64()
	return ok && v == k
}

// factsWithLeft lists terms m for which the path knows a < m.
func (x *Explorer) factsWithLeft(a *Term) []*Term {
	var out []*Term
	for id, v := range x.facts {
		if !v {
			continue
		}
		t := x.T.byID[id]
		if t != nil && t.Kind == KLt && t.Args[0] == a {
			out = append(out, t.Args[1])
		}
	}
	return out
}
