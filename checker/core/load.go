// Package core holds the shared analyses used by the per-property rules:
// loading (go/packages + go/ssa), anchors, mod-sets, the path enumerator with
// symbolic terms, the finite-domain term evaluator, and reporting.
package core

import (
	"fmt"
	"go/token"
	"go/types"
	"os"
	"sort"
	"strings"

	"golang.org/x/tools/go/packages"
	"golang.org/x/tools/go/ssa"
	"golang.org/x/tools/go/ssa/ssautil"
)

const PkgPath = "github.com/gorilla/websocket"

// Variant is one build configuration of /repo.
type Variant struct {
	Name   string
	GOARCH string
	GOOS   string
	Tags   string
}

var (
	VDefault   = Variant{Name: "linux/amd64"}
	V386       = Variant{Name: "linux/386", GOARCH: "386"}
	VAppengine = Variant{Name: "linux/amd64+appengine", Tags: "appengine"}
	VWindows   = Variant{Name: "windows/amd64", GOOS: "windows"}
)

// Prog is the loaded, type-checked program in SSA form.
type Prog struct {
	GlobalAlias map[string]*ssa.Global // package variables re-bound after a rename (see shapes.go)
	TypeAlias map[string]*types.Named // named types re-bound after a rename (see shapes.go)
	FieldAlias map[string]*types.Var // "Struct.field" anchors re-bound after a rename (see shapes.go)
	Converted map[*ssa.Function]string // functions answering to an anchor name after a method<->function conversion
	Variant Variant
	Fset    *token.FileSet
	Pkg     *packages.Package
	Types   *types.Package
	SSA     *ssa.Program
	SPkg    *ssa.Package
	// Funcs: every source function of the package incl. closures, by name
	// ("newConn", "(*Conn).write", "(*Conn).write$1").
	Funcs     map[string]*ssa.Function
	FuncList  []*ssa.Function
	Files     []string
	mods      map[*ssa.Function]*ModSet
	fieldVals map[*types.Var][]ssa.Value
	fvDone    bool
	nonNilG   map[*ssa.Global]bool
}

// Load type-checks the current working tree of repo and builds SSA for the
// root package only (dependencies enter through export data / source types).
func Load(repo string, v Variant) (*Prog, error) {
	env := append(os.Environ(), "GOFLAGS=-mod=mod", "GOPROXY=off", "GOSUMDB=off", "GOTOOLCHAIN=local", "GOWORK=off", "CGO_ENABLED=0")
	if v.GOARCH != "" {
		env = append(env, "GOARCH="+v.GOARCH)
	}
	if v.GOOS != "" {
		env = append(env, "GOOS="+v.GOOS)
	}
	cfg := &packages.Config{
		Mode: packages.NeedName | packages.NeedFiles | packages.NeedCompiledGoFiles | packages.NeedImports |
			packages.NeedDeps | packages.NeedTypes | packages.NeedSyntax | packages.NeedTypesInfo | packages.NeedTypesSizes,
		Dir:   repo,
		Env:   env,
		Tests: false,
	}
	if v.Tags != "" {
		cfg.BuildFlags = []string{"-tags=" + v.Tags}
	}
	pkgs, err := packages.Load(cfg, ".")
	if err != nil {
		return nil, fmt.Errorf("load: %v", err)
	}
	if len(pkgs) != 1 {
		return nil, fmt.Errorf("load: expected exactly 1 root package, got %d", len(pkgs))
	}
	pkg := pkgs[0]
	if pkg.PkgPath != PkgPath {
		return nil, fmt.Errorf("load: root package is %q, want %q", pkg.PkgPath, PkgPath)
	}
	var errs []string
	packages.Visit(pkgs, nil, func(p *packages.Package) {
		for _, e := range p.Errors {
			errs = append(errs, e.Error())
		}
	})
	if len(errs) > 0 {
		return nil, fmt.Errorf("load: %d type/parse errors, first: %s", len(errs), errs[0])
	}
	if len(pkg.CompiledGoFiles) < 10 {
		return nil, fmt.Errorf("load: only %d source files (expected >= 10)", len(pkg.CompiledGoFiles))
	}
	prog, spkgs := ssautil.Packages(pkgs, ssa.InstantiateGenerics)
	if len(spkgs) != 1 || spkgs[0] == nil {
		return nil, fmt.Errorf("ssa: package not built")
	}
	spkgs[0].Build()
	p := &Prog{Variant: v, Fset: pkg.Fset, Pkg: pkg, Types: pkg.Types, SSA: prog, SPkg: spkgs[0],
		Funcs: map[string]*ssa.Function{}, mods: map[*ssa.Function]*ModSet{}}
	for _, f := range pkg.CompiledGoFiles {
		p.Files = append(p.Files, f)
	}
	var add func(f *ssa.Function)
	add = func(f *ssa.Function) {
		if f == nil || f.Blocks == nil {
			return
		}
		// the body of a generic function is analysed through its instantiations (added below), never as such
		if tp := f.TypeParams(); tp != nil && tp.Len() > 0 && len(f.TypeArgs()) == 0 {
			return
		}
		name := FuncName(f)
		if _, dup := p.Funcs[name]; dup {
			return
		}
		p.Funcs[name] = f
		p.FuncList = append(p.FuncList, f)
		for _, a := range f.AnonFuncs {
			add(a)
		}
	}
	for _, m := range p.SPkg.Members {
		switch m := m.(type) {
		case *ssa.Function:
			add(m)
		case *ssa.Type:
			for _, t := range []types.Type{m.Type(), types.NewPointer(m.Type())} {
				ms := prog.MethodSets.MethodSet(t)
				for i := 0; i < ms.Len(); i++ {
					fn := prog.MethodValue(ms.At(i))
					if fn != nil && fn.Pkg == p.SPkg && fn.Synthetic == "" {
						add(fn)
					}
				}
			}
		}
	}
	// instantiations of the package's generic functions, found at their call sites
	for i := 0; i < len(p.FuncList); i++ {
		for _, b := range p.FuncList[i].Blocks {
			for _, in := range b.Instrs {
				ci, ok := in.(ssa.CallInstruction)
				if !ok {
					continue
				}
				if g := ci.Common().StaticCallee(); g != nil && g.Origin() != nil && g.Origin().Pkg == p.SPkg {
					add(g)
				}
			}
		}
	}
	sort.Slice(p.FuncList, func(i, j int) bool { return FuncName(p.FuncList[i]) < FuncName(p.FuncList[j]) })
	if len(p.FuncList) < 100 {
		return nil, fmt.Errorf("ssa: only %d source functions (expected >= 100)", len(p.FuncList))
	}
	return p, nil
}

// FuncName gives "(*T).m", "f", "f$1" without the package path.
// convertedNames: see Prog.AliasConverted (one program per process).
var convertedNames = map[*ssa.Function]string{}

func FuncName(f *ssa.Function) string {
	if f == nil {
		return "<nil>"
	}
	if n, ok := convertedNames[f]; ok {
		return n // the anchor name the rules know this function by
	}
	if f.Pkg == nil && (f.Parent() == nil || f.Parent().Pkg == nil) {
		return f.String() // synthetic wrapper (bound method, thunk) of another package
	}
	if f.Parent() != nil {
		// closure: name already "outer$k"
		return strings.TrimPrefix(closureName(f), PkgPath+".")
	}
	if f.Package() == nil {
		return f.String()
	}
	return f.RelString(f.Package().Pkg)
}

func closureName(f *ssa.Function) string {
	// f.Name() is e.g. "write$1"; prefix with receiver of the outermost parent.
	top := f
	for top.Parent() != nil {
		top = top.Parent()
	}
	if top.Package() == nil {
		return f.String()
	}
	if old, ok := convertedNames[top]; ok && strings.HasPrefix(f.Name(), top.Name()) {
		return old + strings.TrimPrefix(f.Name(), top.Name()) // closure of a re-bound function: "old$1"
	}
	tn := top.RelString(top.Package().Pkg) // "(*Conn).write"
	base := top.Name()
	return strings.TrimSuffix(tn, base) + f.Name()
}

// Pos renders a position relative to the repo root ("conn.go:123").
func (p *Prog) Pos(pos token.Pos) string {
	if !pos.IsValid() {
		return "-"
	}
	ps := p.Fset.Position(pos)
	f := ps.Filename
	if i := strings.LastIndex(f, "/"); i >= 0 {
		f = f[i+1:]
	}
	return fmt.Sprintf("%s:%d", f, ps.Line)
}
