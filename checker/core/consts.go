package core

import "go/constant"

func constantBool(b bool) constant.Value     { return constant.MakeBool(b) }
func constantString(s string) constant.Value { return constant.MakeString(s) }
func constantInt(n int64) constant.Value     { return constant.MakeInt64(n) }
