package core

import (
	"go/token"
	"go/types"

	"golang.org/x/tools/go/ssa"
)

// execFrom executes instructions of block b starting at index i.
func (x *Explorer) execFrom(fr *frame, b *ssa.BasicBlock, i int) {
	for ; i < len(b.Instrs); i++ {
		if x.err != nil {
			return
		}
		in := b.Instrs[i]
		switch v := in.(type) {
		case *ssa.DebugRef:
		case *ssa.Phi:
			// phi not at block start (cannot happen)
		case *ssa.Alloc:
			x.allocN[v] = x.next()
			x.setEnv(fr, v, x.T.mk(Term{Kind: KAlloc, Ref: v, N: x.allocN[v], Type: v.Type()}))
		case *ssa.UnOp:
			switch v.Op {
			case token.MUL:
				addr := x.eval(fr, v.X)
				x.setEnv(fr, v, x.load(addr, v.Type()))
			case token.ARROW:
				ch := x.eval(fr, v.X)
				res := x.T.mk(Term{Kind: KOpaque, Ref: ssa.Value(v), N: x.next(), Type: v.Type()})
				x.setEnv(fr, v, res)
				if x.event(Event{Kind: EvRecv, Instr: in, Fn: fr.fn, Depth: fr.depth, Addr: ch, Result: res}) {
					return
				}
			default:
				x.setEnv(fr, v, x.pure(fr, in, false))
			}
		case *ssa.Store:
			addr, val := x.eval(fr, v.Addr), x.eval(fr, v.Val)
			x.store(addr, val)
			if x.Opts.OnStore != nil {
				x.Opts.OnStore(x, fr.fn, v, addr, val)
			}
			if x.event(Event{Kind: EvStore, Instr: in, Fn: fr.fn, Depth: fr.depth, Addr: addr, Val: val}) {
				return
			}
		case *ssa.MapUpdate:
			m, k, val := x.eval(fr, v.Map), x.eval(fr, v.Key), x.eval(fr, v.Value)
			x.epoch = x.next()
			if x.event(Event{Kind: EvMapUpdate, Instr: in, Fn: fr.fn, Depth: fr.depth, Addr: m, Args: []*Term{k}, Val: val}) {
				return
			}
		case *ssa.Send:
			ch, val := x.eval(fr, v.Chan), x.eval(fr, v.X)
			if x.event(Event{Kind: EvSend, Instr: in, Fn: fr.fn, Depth: fr.depth, Addr: ch, Val: val}) {
				return
			}
		case *ssa.Select:
			var st []SelState
			for _, s := range v.States {
				st = append(st, SelState{Chan: x.eval(fr, s.Chan), Send: s.Dir == types.SendOnly})
			}
			res := x.T.mk(Term{Kind: KOpaque, Ref: ssa.Value(v), N: x.next(), Type: v.Type()})
			x.setEnv(fr, v, res)
			if x.event(Event{Kind: EvSelect, Instr: in, Fn: fr.fn, Depth: fr.depth, States: st, Blocking: v.Blocking, Result: res}) {
				return
			}
		case *ssa.Range, *ssa.Next, *ssa.MakeMap, *ssa.MakeChan:
			val := in.(ssa.Value)
			x.setEnv(fr, val, x.T.mk(Term{Kind: KOpaque, Ref: val, N: x.next(), Type: val.Type()}))
		case *ssa.MakeSlice:
			if x.Opts.OnInstr != nil {
				x.Opts.OnInstr(x, fr.fn, in, []*Term{x.eval(fr, v.Len), x.eval(fr, v.Cap)})
			}
			x.setEnv(fr, v, x.T.mk(Term{Kind: KMake, Ref: ssa.Value(v), N: x.next(), Args: []*Term{x.eval(fr, v.Len), x.eval(fr, v.Cap)}, Type: v.Type()}))
		case *ssa.Defer:
			ev := x.callEvent(fr, v, v.Common())
			ev.Kind = EvDefer
			ev.Deferred = true
			fr.defers = append(fr.defers, deferred{call: v, ev: ev})
			if x.event(ev) {
				fr.defers = fr.defers[:len(fr.defers)-1]
				return
			}
			defer func(n int) { fr.defers = fr.defers[:n] }(len(fr.defers) - 1)
		case *ssa.Go:
			ev := x.callEvent(fr, v, v.Common())
			ev.Kind = EvGo
			if x.event(ev) {
				return
			}
		case *ssa.RunDefers:
			x.runDefers(fr, len(fr.defers)-1, func() { x.execFrom(fr, b, i+1) })
			return
		case *ssa.Call:
			x.call(fr, v, func() { x.execFrom(fr, b, i+1) })
			return
		case *ssa.Panic:
			x.event(Event{Kind: EvPanic, Instr: in, Fn: fr.fn, Depth: fr.depth, Val: x.eval(fr, v.X)})
			x.emit(EndPanic, nil, nil)
			return
		case *ssa.Return:
			var rs []*Term
			for _, r := range v.Results {
				rs = append(rs, x.eval(fr, r))
			}
			if fr.ret != nil {
				fr.ret(rs, v)
			} else {
				x.emit(EndReturn, rs, v)
			}
			return
		case *ssa.Jump:
			x.enter(fr, b, b.Succs[0])
			return
		case *ssa.If:
			cond := x.eval(fr, v.Cond)
			if val, ok := x.Decide(cond); ok {
				if val {
					x.enter(fr, b, b.Succs[0])
				} else {
					x.enter(fr, b, b.Succs[1])
				}
				return
			}
			for k := 0; k < 2; k++ {
				s := x.save()
				pol := k == 0
				lt, lp := cond, pol
				if lt.Kind == KNot {
					lt, lp = lt.Args[0], !lp
				}
				x.lits = append(x.lits, Lit{T: lt, Pos: lp, Instr: v, Fn: fr.fn, Depth: fr.depth})
				x.setFact(lt, lp)
				defs := append([]deferred(nil), fr.defers...)
				x.enter(fr, b, b.Succs[k])
				fr.defers = defs
				x.restore(s)
			}
			return
		default:
			if x.Opts.OnInstr != nil {
				x.instrHook(fr, in)
			}
			if val, ok := in.(ssa.Value); ok {
				t := x.pure(fr, in, false)
				if t == nil {
					t = x.T.mk(Term{Kind: KOpaque, Ref: val, N: x.next(), Type: val.Type()})
				}
				x.setEnv(fr, val, t)
			}
		}
	}
}

// event appends an event; it returns true if exploration of this path stops.
func (x *Explorer) event(ev Event) bool {
	ev.NLits = len(x.lits)
	x.events = append(x.events, ev)
	if x.Opts.Stop != nil && x.Opts.Stop(x, &x.events[len(x.events)-1]) {
		x.emit(EndStop, nil, nil)
		return true
	}
	return false
}

// store writes val to addr and invalidates possibly aliasing cells.
func (x *Explorer) store(addr, val *Term) {
	switch addr.Kind {
	case KFieldAddr:
		for _, id := range x.liveIDs() {
			a := x.cells[id]
			if a == nil {
				continue
			}
			if id == addr.ID || a.Kind != KFieldAddr || a.Var != addr.Var {
				continue
			}
			if _, live := x.mem[id]; !live {
				continue
			}
			b1, b2 := a.Args[0], addr.Args[0]
			if b1.Kind == KAlloc && b2.Kind == KAlloc {
				continue // distinct allocations
			}
			if (b1.Kind == KAlloc && !b1.Ref.(*ssa.Alloc).Heap) || (b2.Kind == KAlloc && !b2.Ref.(*ssa.Alloc).Heap) {
				continue
			}
			x.setMem(a, unkTerm)
		}
	case KIndexAddr:
		for _, id := range x.liveIDs() {
			a := x.cells[id]
			if a == nil {
				continue
			}
			if id == addr.ID || a.Kind != KIndexAddr {
				continue
			}
			if _, live := x.mem[id]; !live {
				continue
			}
			r1, r2 := addrRoot(a), addrRoot(addr)
			if r1 != nil && r2 != nil && r1.Kind == KAlloc && r2.Kind == KAlloc && r1 != r2 {
				continue
			}
			if a.Args[0] == addr.Args[0] {
				c1, ok1 := a.Args[1].Int64()
				c2, ok2 := addr.Args[1].Int64()
				if ok1 && ok2 && c1 != c2 {
					continue
				}
			}
			x.setMem(a, unkTerm)
		}
	case KAlloc, KGlobal:
	default:
		// store through an unknown pointer: invalidate heap cells of the same type
		for _, id := range x.liveIDs() {
			a := x.cells[id]
			if a == nil {
				continue
			}
			if id == addr.ID {
				continue
			}
			if _, live := x.mem[id]; !live {
				continue
			}
			if a.Type != nil && addr.Type != nil && types.Identical(a.Type, addr.Type) {
				x.setMem(a, unkTerm)
			}
		}
	}
	// writing a whole struct/array cell invalidates cached sub-cells
	for _, id := range x.liveIDs() {
		a := x.cells[id]
		if a == nil {
			continue
		}
		if id != addr.ID && (a.Kind == KFieldAddr || a.Kind == KIndexAddr) && a.Contains(addr) {
			if _, live := x.mem[id]; live {
				old, ok := x.mem[id]
				x.mtrail = append(x.mtrail, memTrail{id, old, ok})
				delete(x.mem, id)
			}
		}
	}
	x.setMem(addr, val)
}

// callEvent builds the event describing a call site (arguments evaluated now).
func (x *Explorer) callEvent(fr *frame, in ssa.Instruction, c *ssa.CallCommon) Event {
	ev := Event{Kind: EvCall, Instr: in, Fn: fr.fn, Depth: fr.depth}
	for _, a := range c.Args {
		ev.Args = append(ev.Args, x.eval(fr, a))
	}
	if c.IsInvoke() {
		ev.Method = c.Method
		ev.Recv = x.eval(fr, c.Value)
		return ev
	}
	if bi, ok := c.Value.(*ssa.Builtin); ok {
		ev.Builtin = bi.Name()
		return ev
	}
	fv := x.eval(fr, c.Value)
	switch fv.Kind {
	case KFunc:
		ev.Static = fv.Ref.(*ssa.Function)
	case KClosure:
		ev.Static = fv.Ref.(*ssa.Function)
		ev.FnVal = fv
	default:
		ev.FnVal = fv
	}
	if ev.Static != nil {
		if o, ok := ev.Static.Object().(*types.Func); ok {
			ev.Method = o
		}
		if ev.Static.Signature.Recv() != nil && len(ev.Args) > 0 {
			ev.Recv = ev.Args[0]
		}
	}
	return ev
}

func (x *Explorer) runDefers(fr *frame, k int, cont func()) {
	if k < 0 {
		cont()
		return
	}
	d := fr.defers[k]
	ev := d.ev
	ev.Kind = EvCall
	ev.Deferred = true
	x.doCall(fr, d.call, ev, nil, func(*Term) { x.runDefers(fr, k-1, cont) })
}

func (x *Explorer) call(fr *frame, v *ssa.Call, cont func()) {
	ev := x.callEvent(fr, v, v.Common())
	x.doCall(fr, v, ev, v, func(res *Term) {
		if res != nil {
			x.setEnv(fr, v, res)
		}
		cont()
	})
}

// instrHook reports bounds-relevant instructions to the OnInstr callback.
func (x *Explorer) instrHook(fr *frame, in ssa.Instruction) {
	switch v := in.(type) {
	case *ssa.IndexAddr:
		x.Opts.OnInstr(x, fr.fn, in, []*Term{x.eval(fr, v.X), x.eval(fr, v.Index)})
	case *ssa.Index:
		x.Opts.OnInstr(x, fr.fn, in, []*Term{x.eval(fr, v.X), x.eval(fr, v.Index)})
	case *ssa.Lookup:
		if _, isMap := v.X.Type().Underlying().(*types.Map); !isMap {
			x.Opts.OnInstr(x, fr.fn, in, []*Term{x.eval(fr, v.X), x.eval(fr, v.Index)})
		}
	case *ssa.Slice:
		none := x.T.None()
		ops := []*Term{x.eval(fr, v.X), none, none, none}
		if v.Low != nil {
			ops[1] = x.eval(fr, v.Low)
		}
		if v.High != nil {
			ops[2] = x.eval(fr, v.High)
		}
		if v.Max != nil {
			ops[3] = x.eval(fr, v.Max)
		}
		x.Opts.OnInstr(x, fr.fn, in, ops)
	case *ssa.TypeAssert:
		if !v.CommaOk {
			x.Opts.OnInstr(x, fr.fn, in, []*Term{x.eval(fr, v.X)})
		}
	case *ssa.SliceToArrayPointer:
		x.Opts.OnInstr(x, fr.fn, in, []*Term{x.eval(fr, v.X)})
	case *ssa.BinOp:
		if v.Op == token.QUO || v.Op == token.REM {
			if b, ok := v.Type().Underlying().(*types.Basic); ok && b.Info()&types.IsInteger != 0 {
				x.Opts.OnInstr(x, fr.fn, in, []*Term{x.eval(fr, v.X), x.eval(fr, v.Y)})
			}
		}
	}
}
