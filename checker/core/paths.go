package core

import (
	"fmt"
	"go/constant"
	"go/token"
	"go/types"

	"golang.org/x/tools/go/ssa"
)

// EventKind classifies the observable steps along a path.
type EventKind int

const (
	EvCall EventKind = iota
	EvStore
	EvReturn // return of an inlined callee (top-level return ends the path)
	EvPanic
	EvSend
	EvRecv
	EvSelect
	EvDefer
	EvGo
	EvMapUpdate
	EvLoad // load from unknown memory (first read of a cell)
)

// SelState is one case of a select.
type SelState struct {
	Chan *Term
	Send bool
}

// Event is one step on a path.
type Event struct {
	Kind     EventKind
	Instr    ssa.Instruction
	Fn       *ssa.Function // function whose body contains Instr
	Depth    int           // inline depth (0 = root function)
	Static   *ssa.Function // statically known callee on this path (may be external: Blocks==nil)
	Method   *types.Func   // interface method (invoke mode) or types object of the static callee
	Builtin  string
	FnVal    *Term // callee value for dynamic calls
	Recv     *Term // receiver (invoke mode or method call)
	Args     []*Term
	Result   *Term
	Inlined  bool
	Deferred bool // run at RunDefers (or registered, for EvDefer)
	Addr     *Term
	Val      *Term
	States   []SelState
	Blocking bool
	NLits    int // number of literals on the path before this event
}

// Lit is a branch literal: condition term and the polarity taken.
type Lit struct {
	T     *Term
	Pos   bool
	Instr *ssa.If
	Fn    *ssa.Function
	Depth int
}

// EndKind says how a path ended.
type EndKind int

const (
	EndReturn EndKind = iota
	EndPanic
	EndCut  // loop bound reached: prefix of longer executions
	EndStop // a Stop predicate matched
)

// Path is handed to the rule callback; it is only valid during the callback.
type Path struct {
	X       *Explorer
	Events  []Event
	Lits    []Lit
	End     EndKind
	Results []*Term
	Ret     *ssa.Return
	Blocks  []*ssa.BasicBlock // root-frame blocks in order
}

// Opts configures an exploration.
type Opts struct {
	Inline         func(callee *ssa.Function, depth int) bool
	Pure           func(callee *ssa.Function) bool // model call as pure application (no event havoc)
	MaxPaths       int
	MaxDepth       int
	ConstLoops     bool            // loops whose test compares constants are executed concretely (up to 64 iterations)
	PairIter       bool            // the iteration after a generalised one is precise (pairs of consecutive iterations)
	Unroll         int             // 0: loop heads general from first visit; 1: first iteration precise
	Start          ssa.Instruction // begin right after this instruction (region mode)
	StartBlock     *ssa.BasicBlock // begin at this block (region mode)
	NonNilOnNilErr bool            // library convention: (v, err) with err == nil has v != nil
	Stop           func(x *Explorer, ev *Event) bool
	Params         map[*ssa.Parameter]*Term
	FreeVars       map[*ssa.FreeVar]*Term
	RecordLoads    bool
	// OnInstr is called for index / slice / make / type-assert / division
	// instructions with their operand terms (bounds obligations); nil = off.
	OnInstr func(x *Explorer, fn *ssa.Function, in ssa.Instruction, ops []*Term)
	// OnInvariantFail is called when a back edge does not re-establish a
	// candidate loop invariant (phi >= its entry lower bound) that the engine
	// assumed at the loop head; setting it enables such candidates, and the
	// rule must treat a call as a failed obligation.
	OnInvariantFail func(x *Explorer, fn *ssa.Function, phi *ssa.Phi, backEdgeValue *Term)
	// OnStore is called for every store instruction (after the memory update).
	OnStore func(x *Explorer, fn *ssa.Function, in *ssa.Store, addr, val *Term)
	// OnFreshLoad is called when a load yields a value the path knows nothing
	// about (function entry state, or a cell invalidated by a call or a loop):
	// rules use it to assume a class invariant on every such value.
	OnFreshLoad func(x *Explorer, addr, val *Term)
	// AfterCall is called after a non-inlined call got its result term; rules
	// use it to assume library facts about the result (AssumeLit / AssumeGE / AssumeLE).
	AfterCall func(x *Explorer, ev *Event)
	// OnFact is called whenever a branch literal is recorded, so that rules can
	// assume its consequences (e.g. HasPrefix(s, ";") => len(s) >= 1).
	OnFact func(x *Explorer, t *Term, pol bool)
	// OnBackEdge is called when control returns to a loop head from inside the
	// loop, with the values the head's phis had during this iteration and the
	// values they are about to take (progress arguments).
	OnBackEdge func(x *Explorer, fn *ssa.Function, head *ssa.BasicBlock, phis []*ssa.Phi, old, new []*Term, eval func(ssa.Value) *Term)
	// OnGeneralise is called when a loop-head phi is replaced by a fresh term:
	// incoming is the value arriving on the edge just taken.  Rules may attach
	// a note (SetNote) relating the fresh term to it under an assumed invariant.
	OnGeneralise func(x *Explorer, fn *ssa.Function, head *ssa.BasicBlock, phi *ssa.Phi, incoming, fresh *Term)
	// LoopInvariants: seed counting-loop invariants (lower bound of the
	// counter, counter <= bound) when a loop head is generalised.
	LoopInvariants bool
	// Observe is called for every non-inlined call before its effects on
	// memory are applied (rules use Peek to read the state the callee sees).
	Observe func(x *Explorer, ev *Event)
}

type deferred struct {
	call *ssa.Defer
	ev   Event
}

type frame struct {
	fn       *ssa.Function
	env      map[ssa.Value]*Term
	free     []*Term
	defers   []deferred
	prev     *ssa.BasicBlock
	visits   map[*ssa.BasicBlock]int
	concrete map[*ssa.BasicBlock]int // concrete iterations in progress per loop head
	cands    map[*ssa.Phi]int64      // candidate lower-bound invariants of loop-head phis (checked at back edges)
	depth    int
	ret      func(results []*Term, r *ssa.Return)
	parent   *frame
	region   bool // values not in env are evaluated on demand
}

type memTrail struct {
	id      int
	old     *Term
	existed bool
}

type factTrail struct {
	id      int
	old     bool
	existed bool
	kv      bool // knownVal entry
	note    bool // notes entry
	mult    bool // mults entry (oldB.lo holds the old modulus)
	oldT    *Term
	bd      bool // bounds entry
	oldB    bound
}

// bound is a constant interval learnt from branch literals.
type bound struct {
	lo, hi       int64
	hasLo, hasHi bool
}

// Explorer enumerates paths of a function with symbolic terms.
type Explorer struct {
	P    *Prog
	T    *Terms
	Opts Opts

	mem         map[int]*Term // addr term ID -> content
	cells       map[int]*Term // addr term ID -> addr term
	etrail      []envTrail
	mtrail      []memTrail
	facts       map[int]bool
	known       map[int]*Term // term ID -> constant it is known to equal
	bounds      map[int]bound // term ID -> interval learnt from literals
	inOnFact    bool
	inFreshLoad bool
	notes       map[int]*Term // rule-defined relation attached to a term (undone on backtracking)
	mults       map[int]int64 // term is known to be a multiple of this modulus (undone on backtracking)
	inLin       bool          // linProve is running (it must not recurse through lower/upper helpers)
	depth       int           // prover recursion depth
	ftrail      []factTrail
	events      []Event
	lits        []Lit
	blocks      []*ssa.BasicBlock
	counter     int // instance counter (calls, opaques, versions)
	epoch       int // map epoch
	paths       int
	cb          func(*Path)
	err         error
	loops       map[*ssa.Function]*loopInfo
	allocN      map[*ssa.Alloc]int
}

func NewExplorer(p *Prog) *Explorer {
	return &Explorer{P: p, T: NewTerms(), loops: map[*ssa.Function]*loopInfo{}}
}

// Paths enumerates the paths of fn and calls cb for each.  It returns the
// number of paths and an error if the cap was exceeded (callers must treat
// that as a failed check).
func (x *Explorer) Paths(fn *ssa.Function, o Opts, cb func(*Path)) (int, error) {
	if o.MaxPaths == 0 {
		o.MaxPaths = 200000
	}
	if o.MaxDepth == 0 {
		o.MaxDepth = 6
	}
	x.Opts = o
	x.mem, x.cells = map[int]*Term{}, map[int]*Term{}
	x.facts, x.known = map[int]bool{}, map[int]*Term{}
	x.bounds = map[int]bound{}
	x.notes = map[int]*Term{}
	x.mults = map[int]int64{}
	x.etrail, x.mtrail, x.ftrail, x.events, x.lits, x.blocks = nil, nil, nil, nil, nil, nil
	x.counter, x.epoch, x.paths, x.err = 0, 0, 0, nil
	x.allocN = map[*ssa.Alloc]int{}
	x.cb = cb
	fr := &frame{fn: fn, env: map[ssa.Value]*Term{}, visits: map[*ssa.BasicBlock]int{}}
	for _, p := range fn.Params {
		if t, ok := o.Params[p]; ok {
			fr.env[p] = t
		} else {
			fr.env[p] = x.T.mk(Term{Kind: KParam, Ref: p, Type: p.Type()})
		}
	}
	for _, fv := range fn.FreeVars {
		if t, ok := o.FreeVars[fv]; ok {
			fr.free = append(fr.free, t)
		} else {
			fr.free = append(fr.free, x.T.mk(Term{Kind: KFree, Ref: fv, Type: fv.Type()}))
		}
	}
	if len(fn.Blocks) == 0 {
		return 0, fmt.Errorf("function %s has no body", FuncName(fn))
	}
	switch {
	case o.Start != nil:
		fr.region = true
		b := o.Start.Block()
		idx := -1
		for i, in := range b.Instrs {
			if in == o.Start {
				idx = i
			}
		}
		if idx < 0 {
			return 0, fmt.Errorf("start instruction not found")
		}
		// the start instruction itself is evaluated on demand when referenced
		x.blocks = append(x.blocks, b)
		x.execFrom(fr, b, idx+1)
	case o.StartBlock != nil:
		fr.region = true
		x.enter(fr, nil, o.StartBlock)
	default:
		x.enter(fr, nil, fn.Blocks[0])
	}
	return x.paths, x.err
}

func (x *Explorer) next() int { x.counter++; return x.counter }

// ---- state save / restore ----

type envTrail struct {
	fr      *frame
	v       ssa.Value
	old     *Term
	existed bool
}

type snapshot struct {
	etrail                               int
	mtrail, ftrail, events, lits, blocks int
	counter, epoch                       int
}

func (x *Explorer) save() snapshot {
	return snapshot{len(x.etrail), len(x.mtrail), len(x.ftrail), len(x.events), len(x.lits), len(x.blocks), x.counter, x.epoch}
}

// setEnv binds an SSA value in a frame; the binding is undone on backtracking
// (a deeper path may re-enter a loop head and rebind values that dominate the
// branch point we return to).
func (x *Explorer) setEnv(fr *frame, v ssa.Value, t *Term) {
	old, ok := fr.env[v]
	x.etrail = append(x.etrail, envTrail{fr, v, old, ok})
	fr.env[v] = t
}

func (x *Explorer) restore(s snapshot) {
	for i := len(x.etrail) - 1; i >= s.etrail; i-- {
		t := x.etrail[i]
		if t.existed {
			t.fr.env[t.v] = t.old
		} else {
			delete(t.fr.env, t.v)
		}
	}
	x.etrail = x.etrail[:s.etrail]
	for i := len(x.mtrail) - 1; i >= s.mtrail; i-- {
		t := x.mtrail[i]
		if t.existed {
			x.mem[t.id] = t.old
		} else {
			delete(x.mem, t.id)
		}
	}
	x.mtrail = x.mtrail[:s.mtrail]
	for i := len(x.ftrail) - 1; i >= s.ftrail; i-- {
		t := x.ftrail[i]
		if t.mult {
			if t.existed {
				x.mults[t.id] = t.oldB.lo
			} else {
				delete(x.mults, t.id)
			}
		} else if t.note {
			if t.existed {
				x.notes[t.id] = t.oldT
			} else {
				delete(x.notes, t.id)
			}
		} else if t.bd {
			if t.existed {
				x.bounds[t.id] = t.oldB
			} else {
				delete(x.bounds, t.id)
			}
		} else if t.kv {
			if t.existed {
				x.known[t.id] = t.oldT
			} else {
				delete(x.known, t.id)
			}
		} else {
			if t.existed {
				x.facts[t.id] = t.old
			} else {
				delete(x.facts, t.id)
			}
		}
	}
	x.ftrail = x.ftrail[:s.ftrail]
	x.events = x.events[:s.events]
	x.lits = x.lits[:s.lits]
	x.blocks = x.blocks[:s.blocks]
	x.counter, x.epoch = s.counter, s.epoch
}

func (x *Explorer) setMem(addr, val *Term) {
	old, ok := x.mem[addr.ID]
	x.mtrail = append(x.mtrail, memTrail{addr.ID, old, ok})
	x.mem[addr.ID] = val
	x.cells[addr.ID] = addr
}

// AssumeLit records that boolean term t has value v on the current path.
func (x *Explorer) AssumeLit(t *Term, v bool) {
	if t.Kind == KNot {
		t, v = t.Args[0], !v
	}
	if _, isC := t.BoolVal(); isC {
		return
	}
	x.setFact(t, v)
}

// AssumeGE / AssumeLE record constant bounds of an integer term.
func (x *Explorer) AssumeGE(t *Term, c int64) { x.tighten(t, c, true) }
func (x *Explorer) AssumeLE(t *Term, c int64) { x.tighten(t, c, false) }

// AssumeLEq records a <= b for two terms.
func (x *Explorer) AssumeLEq(a, b *Term) { x.AssumeLit(x.Lt(b, a), false) }

func (x *Explorer) setFact(t *Term, v bool) {
	if x.Opts.OnFact != nil && !x.inOnFact {
		x.inOnFact = true
		x.Opts.OnFact(x, t, v)
		x.inOnFact = false
	}
	old, ok := x.facts[t.ID]
	x.ftrail = append(x.ftrail, factTrail{id: t.ID, old: old, existed: ok})
	x.facts[t.ID] = v
	if v && t.Kind == KEq && t.Args[1].IsConst() {
		oldT, ok := x.known[t.Args[0].ID]
		x.ftrail = append(x.ftrail, factTrail{id: t.Args[0].ID, kv: true, oldT: oldT, existed: ok})
		x.known[t.Args[0].ID] = t.Args[1]
	}
	// m[k] == c with c not the zero value: the map has an entry, so it is not nil
	if v && t.Kind == KEq && t.Args[0].Kind == KLookup && t.Args[1].IsConst() && !isZeroConst(t.Args[1]) {
		m := t.Args[0].Args[0]
		nilT := x.T.mk(Term{Kind: KConst, Type: m.Type})
		if e := x.Eq(m, nilT); e.Kind == KEq {
			if _, known := x.facts[e.ID]; !known {
				x.setFact(e, false)
			}
		}
	}
	// s == "" / s != "" : length facts
	if t.Kind == KEq && t.Args[1].IsConst() && isStringType(t.Args[0].Type) {
		if sv, ok := t.Args[1].StrVal(); ok && sv == "" {
			l := x.Len(t.Args[0])
			if v {
				x.tighten(l, 0, false)
			} else {
				x.tighten(l, 1, true)
			}
		}
	}
	if t.Kind == KEq && v && !t.Args[1].IsConst() && isIntegerTerm(t.Args[0]) && isIntegerTerm(t.Args[1]) {
		a, b := t.Args[0], t.Args[1]
		for k := 0; k < 2; k++ {
			if lo, has := x.lower(b); has {
				x.tighten(a, lo, true)
			}
			if hi, has := x.upper(b); has {
				x.tighten(a, hi, false)
			}
			a, b = b, a
		}
	}
	if t.Kind == KEq && !v && isIntegerTerm(t.Args[0]) {
		if c, ok := t.Args[1].Int64(); ok {
			if lo, has := x.lower(t.Args[0]); has && lo == c {
				x.tighten(t.Args[0], c+1, true)
			}
			if hi, has := x.upper(t.Args[0]); has && hi == c {
				x.tighten(t.Args[0], c-1, false)
			}
		}
	}
	if t.Kind == KLt && !t.Args[0].IsConst() && !t.Args[1].IsConst() {
		a, b := t.Args[0], t.Args[1]
		if v { // a < b
			if lo, has := x.lower(a); has {
				x.tighten(b, lo+1, true)
			}
			if hi, has := x.upper(b); has {
				x.tighten(a, hi-1, false)
			}
		} else { // a >= b
			if lo, has := x.lower(b); has {
				x.tighten(a, lo, true)
			}
			if hi, has := x.upper(a); has {
				x.tighten(b, hi, false)
			}
		}
	}
	if t.Kind == KLt {
		a, b := t.Args[0], t.Args[1]
		if c, ok := a.Int64(); ok && !b.IsConst() { // c < b
			if v {
				x.tighten(b, c+1, true)
			} else {
				x.tighten(b, c, false)
			}
		}
		if c, ok := b.Int64(); ok && !a.IsConst() { // a < c
			if v {
				x.tighten(a, c-1, false)
			} else {
				x.tighten(a, c, true)
			}
		}
	}
}

// tighten records t >= c (isLo) or t <= c.
func (x *Explorer) tighten(t *Term, c int64, isLo bool) {
	old, ok := x.bounds[t.ID]
	x.ftrail = append(x.ftrail, factTrail{id: t.ID, bd: true, oldB: old, existed: ok})
	nb := old
	if isLo {
		if !nb.hasLo || c > nb.lo {
			nb.lo, nb.hasLo = c, true
		}
	} else {
		if !nb.hasHi || c < nb.hi {
			nb.hi, nb.hasHi = c, true
		}
	}
	x.bounds[t.ID] = nb
}

// Decide tries to determine a boolean term from constants and path facts.
func (x *Explorer) Decide(t *Term) (val, ok bool) {
	if b, ok := t.BoolVal(); ok {
		return b, true
	}
	if v, ok := x.facts[t.ID]; ok {
		return v, true
	}
	switch t.Kind {
	case KNot:
		v, ok := x.Decide(t.Args[0])
		return !v, ok
	case KEq:
		a, b := t.Args[0], t.Args[1]
		if k, ok := x.known[a.ID]; ok && b.IsConst() {
			r := x.Eq(k, b)
			if bv, ok := r.BoolVal(); ok {
				return bv, true
			}
		}
		if cv, isC := b.Int64(); isC {
			if lo, ok := x.lower(a); ok && cv < lo {
				return false, true
			}
			if hi, ok := x.upper(a); ok && cv > hi {
				return false, true
			}
		}
		if x.Opts.NonNilOnNilErr && b.IsNil() && a.Kind == KExtract && a.N == 0 {
			if x.errIsNil(a.Args[0]) {
				return false, true
			}
		}
		if x.Opts.NonNilOnNilErr && b.IsNil() && a.Kind == KMakeIface && a.Args[0].Kind == KExtract && a.Args[0].N == 0 {
			if x.errIsNil(a.Args[0].Args[0]) {
				return false, true
			}
		}
	case KLt:
		a, b := t.Args[0], t.Args[1]
		// antisymmetry: b < a known true => a < b false
		if rv := x.T.tab; rv != nil {
			if r := x.lookupLt(b, a); r != nil {
				if fv, ok := x.facts[r.ID]; ok && fv {
					return false, true
				}
			}
		}
		ka, kb := a, b
		if k, ok := x.known[a.ID]; ok {
			ka = k
		}
		if k, ok := x.known[b.ID]; ok {
			kb = k
		}
		if ka != a || kb != b {
			r := x.Lt(ka, kb)
			if bv, ok := r.BoolVal(); ok {
				return bv, true
			}
		}
		if hi, ok := x.upper(a); ok {
			if lo, ok2 := x.lower(b); ok2 && hi < lo {
				return true, true
			}
		}
		if lo, ok := x.lower(a); ok {
			if hi, ok2 := x.upper(b); ok2 && lo >= hi {
				return false, true
			}
		}
	}
	return false, false
}

// errIsNil: call is a (v, error) tuple whose error component is known nil on this path.
func (x *Explorer) errIsNil(call *Term) bool {
	if call.Kind != KCall && call.Kind != KOpaque {
		return false
	}
	if call.Type == nil {
		return false
	}
	tup, ok := call.Type.(*types.Tuple)
	if !ok || tup.Len() < 2 {
		return false
	}
	last := tup.Len() - 1
	if !isErrorType(tup.At(last).Type()) {
		return false
	}
	e := x.T.mk(Term{Kind: KExtract, Args: []*Term{call}, N: last, Type: tup.At(last).Type()})
	nilT := x.T.Const(nil, tup.At(last).Type())
	v, ok := x.facts[x.Eq(e, nilT).ID]
	return ok && v
}

func isErrorType(t types.Type) bool {
	n, ok := t.(*types.Named)
	return ok && n.Obj().Pkg() == nil && n.Obj().Name() == "error"
}

func (x *Explorer) emit(end EndKind, results []*Term, ret *ssa.Return) {
	x.paths++
	if x.paths > x.Opts.MaxPaths {
		if x.err == nil {
			x.err = fmt.Errorf("path cap %d exceeded", x.Opts.MaxPaths)
		}
		return
	}
	p := &Path{X: x, Events: x.events, Lits: x.lits, End: end, Results: results, Ret: ret, Blocks: x.blocks}
	x.cb(p)
}

// Prefix returns the events of the path explored so far (valid during Stop callbacks).
func (x *Explorer) Prefix() []Event { return x.events }

// PrefixLits returns the literals of the path explored so far.
func (x *Explorer) PrefixLits() []Lit { return x.lits }

// Peek returns the content of the memory cell at addr if the path knows it.
func (x *Explorer) Peek(addr *Term) (*Term, bool) {
	v, ok := x.mem[addr.ID]
	if !ok || v == unkTerm {
		return nil, false
	}
	return v, true
}

// FieldAddrOf builds the address term base.f.
func (x *Explorer) FieldAddrOf(base *Term, f *types.Var) *Term {
	return x.T.mk(Term{Kind: KFieldAddr, Var: f, Args: []*Term{base}, Type: types.NewPointer(f.Type())})
}

// liveIDs lists the IDs of memory cells that currently have content.
func (x *Explorer) liveIDs() []int {
	ids := make([]int, 0, len(x.mem))
	for id := range x.mem {
		if id > 0 {
			ids = append(ids, id)
		}
	}
	return ids
}

// lookupLt finds the existing hash-consed term (a < b) without creating it.
func (x *Explorer) lookupLt(a, b *Term) *Term {
	t := Term{Kind: KLt, Args: []*Term{a, b}, Type: types.Typ[types.Bool]}
	return x.T.find(t)
}

// SetNote attaches a rule-defined related term to t for the rest of the path.
func (x *Explorer) SetNote(t, rel *Term) {
	old, ok := x.notes[t.ID]
	x.ftrail = append(x.ftrail, factTrail{id: t.ID, note: true, oldT: old, existed: ok})
	x.notes[t.ID] = rel
}

// Note returns the term attached by SetNote, if any.
func (x *Explorer) Note(t *Term) *Term { return x.notes[t.ID] }

func isZeroConst(t *Term) bool {
	if t.Val == nil {
		return true
	}
	switch t.Val.Kind() {
	case constant.String:
		return constant.StringVal(t.Val) == ""
	case constant.Bool:
		return !constant.BoolVal(t.Val)
	case constant.Int, constant.Float:
		return constant.Sign(t.Val) == 0
	}
	return false
}

// AssumeMultiple records that integer term t is a multiple of w (w > 1).
func (x *Explorer) AssumeMultiple(t *Term, w int64) {
	old, ok := x.mults[t.ID]
	x.ftrail = append(x.ftrail, factTrail{id: t.ID, mult: true, oldB: bound{lo: old}, existed: ok})
	x.mults[t.ID] = w
}

// MultipleOf: t is a multiple of w by construction ((q / w) * w, sums and
// differences of multiples, lengths of slices cut at multiples) or by a
// recorded fact.
func (x *Explorer) MultipleOf(t *Term, w int64) bool { return x.multipleOf(t, w, 0) }

func (x *Explorer) multipleOf(t *Term, w int64, depth int) bool {
	if w <= 1 {
		return true
	}
	if depth > 8 {
		return false
	}
	if m, ok := x.mults[t.ID]; ok && m%w == 0 {
		return true
	}
	if c, ok := t.Int64(); ok {
		return c%w == 0
	}
	switch t.Kind {
	case KBin:
		switch t.Op {
		case token.MUL:
			for _, a := range t.Args {
				if c, ok := a.Int64(); ok && c%w == 0 {
					return true
				}
				if x.multipleOf(a, w, depth+1) {
					return true
				}
			}
		case token.ADD, token.SUB:
			return x.multipleOf(t.Args[0], w, depth+1) && x.multipleOf(t.Args[1], w, depth+1)
		}
	case KConv:
		if s := x.stripWiden(t); s != t {
			return x.multipleOf(s, w, depth+1)
		}
	case KLen:
		if l := x.Len(t.Args[0]); l != t {
			return x.multipleOf(l, w, depth+1)
		}
	}
	return false
}
