package core

import (
	"fmt"
	"go/constant"
	"go/token"
	"go/types"
	"strings"

	"golang.org/x/tools/go/ssa"
)

// Kind of a symbolic term.
type Kind int

const (
	KConst      Kind = iota // Val (nil Val = nil/zero constant)
	KParam                  // Ref=*ssa.Parameter
	KFree                   // Ref=*ssa.FreeVar (unbound)
	KGlobal                 // Ref=*ssa.Global (address)
	KAlloc                  // Ref=*ssa.Alloc, N=instance (address)
	KFunc                   // Ref=*ssa.Function
	KFieldAddr              // Args[0]=base, Var=field
	KIndexAddr              // Args[0]=base, Args[1]=index
	KLoad                   // Args[0]=addr, N=version: unknown memory content
	KField                  // Args[0]=struct value, Var=field
	KIndex                  // Args[0]=array/string value, Args[1]=index
	KEq                     // Args[0] == Args[1]   (canonical comparison)
	KLt                     // Args[0] <  Args[1]
	KNot                    // !Args[0]
	KBin                    // Op, Args[0], Args[1]  (arithmetic / bitwise)
	KUn                     // Op (- ^), Args[0]
	KConv                   // Type, Args[0] (Convert / ChangeType)
	KCall                   // N=unique instance; Ref=callee descr; Args; the tuple/result of a call
	KExtract                // Args[0], N=index
	KApp                    // pure application: Ref=*ssa.Function or *types.Func, Args
	KSlice                  // Args: x, lo, hi, max (missing = nil entries replaced by KNone)
	KNone                   // absent operand
	KLen                    // len(Args[0])
	KCap                    // cap(Args[0])
	KAppend                 // append(Args[0], Args[1])  (Args[1] is a slice/string value)
	KSliceLit               // slice built from Alloc'd array literal: Args = elements
	KMakeIface              // Args[0]
	KClosure                // Ref=*ssa.Function, Args=bindings
	KTypeAssert             // Args[0], Type, N=1 if comma-ok
	KOpaque                 // Ref=ssa.Value, N=instance
	KFresh                  // N=instance, Ref=ssa.Value (havoc'ed phi / unknown)
	KMake                   // make(...): Ref=instr, N=instance, Args=sizes
	KLookup                 // map lookup Args[0][Args[1]], N = instance (unknown content)
)

// Term is a hash-consed symbolic value.
type Term struct {
	ID   int
	Kind Kind
	Op   token.Token
	Type types.Type
	Val  constant.Value
	Var  *types.Var
	Ref  interface{}
	N    int
	Args []*Term
	str  string
}

// Terms is a hash-consing store.
type Terms struct {
	byID map[int]*Term
	tab  map[string]*Term
	next int
	refs map[interface{}]int
}

func NewTerms() *Terms {
	return &Terms{tab: map[string]*Term{}, refs: map[interface{}]int{}, byID: map[int]*Term{}}
}

func (ts *Terms) refID(r interface{}) int {
	if r == nil {
		return 0
	}
	if id, ok := ts.refs[r]; ok {
		return id
	}
	id := len(ts.refs) + 1
	ts.refs[r] = id
	return id
}

// find returns the existing term structurally equal to t, or nil.
func (ts *Terms) find(t Term) *Term { return ts.tab[ts.key(t)] }

func (ts *Terms) mk(t Term) *Term {
	k := ts.key(t)
	if x, ok := ts.tab[k]; ok {
		return x
	}
	ts.next++
	t.ID = ts.next
	x := &t
	ts.tab[k] = x
	ts.byID[t.ID] = x
	return x
}

func (ts *Terms) key(t Term) string {
	var sb strings.Builder
	fmt.Fprintf(&sb, "%d|%d|%d|%d|", t.Kind, t.Op, t.N, ts.refID(t.Ref))
	if t.Var != nil {
		fmt.Fprintf(&sb, "v%d|", ts.refID(t.Var))
	}
	if t.Val != nil {
		sb.WriteString(t.Val.ExactString())
		sb.WriteByte('|')
	}
	if t.Kind == KConv || t.Kind == KTypeAssert || (t.Kind == KConst && t.Type != nil) {
		if t.Type != nil {
			sb.WriteString(t.Type.String())
		}
		sb.WriteByte('|')
	}
	for _, a := range t.Args {
		fmt.Fprintf(&sb, "%d,", a.ID)
	}
	return sb.String()
}

func (ts *Terms) Const(v constant.Value, typ types.Type) *Term {
	return ts.mk(Term{Kind: KConst, Val: v, Type: typ})
}
func (ts *Terms) Int(n int64) *Term {
	return ts.mk(Term{Kind: KConst, Val: constant.MakeInt64(n), Type: types.Typ[types.Int]})
}
func (ts *Terms) Bool(b bool) *Term {
	return ts.mk(Term{Kind: KConst, Val: constant.MakeBool(b), Type: types.Typ[types.Bool]})
}
func (ts *Terms) None() *Term { return ts.mk(Term{Kind: KNone}) }

// IsConst reports whether t is a non-nil constant.
func (t *Term) IsConst() bool { return t != nil && t.Kind == KConst && t.Val != nil }

// IsNil reports whether t is the nil/zero constant of a pointer-like type.
func (t *Term) IsNil() bool { return t != nil && t.Kind == KConst && t.Val == nil }

// Int64 returns the integer value of a constant term.
func (t *Term) Int64() (int64, bool) {
	if !t.IsConst() {
		return 0, false
	}
	if t.Val.Kind() != constant.Int {
		return 0, false
	}
	if v, ok := constant.Int64Val(t.Val); ok {
		return v, true
	}
	if u, ok := constant.Uint64Val(t.Val); ok {
		return int64(u), true
	}
	return 0, false
}

func (t *Term) BoolVal() (bool, bool) {
	if t.IsConst() && t.Val.Kind() == constant.Bool {
		return constant.BoolVal(t.Val), true
	}
	return false, false
}

func (t *Term) StrVal() (string, bool) {
	if t.IsConst() && t.Val.Kind() == constant.String {
		return constant.StringVal(t.Val), true
	}
	return "", false
}

func (t *Term) String() string {
	if t == nil {
		return "<nil>"
	}
	if t.str != "" {
		return t.str
	}
	var s string
	arg := func(i int) string {
		if i < len(t.Args) {
			return t.Args[i].String()
		}
		return "?"
	}
	switch t.Kind {
	case KConst:
		if t.Val == nil {
			s = "nil"
		} else {
			s = t.Val.String()
		}
	case KParam:
		s = t.Ref.(*ssa.Parameter).Name()
	case KFree:
		s = "free:" + t.Ref.(*ssa.FreeVar).Name()
	case KGlobal:
		s = "&" + t.Ref.(*ssa.Global).Name()
	case KAlloc:
		s = fmt.Sprintf("&%s#%d", allocName(t.Ref.(*ssa.Alloc)), t.N)
	case KFunc:
		s = FuncName(t.Ref.(*ssa.Function))
	case KFieldAddr:
		s = fmt.Sprintf("&%s.%s", arg(0), t.Var.Name())
	case KIndexAddr:
		s = fmt.Sprintf("&%s[%s]", arg(0), arg(1))
	case KLoad:
		a := arg(0)
		s = fmt.Sprintf("%s@%d", strings.TrimPrefix(a, "&"), t.N)
	case KField:
		s = fmt.Sprintf("%s.%s", arg(0), t.Var.Name())
	case KIndex:
		s = fmt.Sprintf("%s[%s]", arg(0), arg(1))
	case KEq:
		s = fmt.Sprintf("(%s == %s)", arg(0), arg(1))
	case KLt:
		s = fmt.Sprintf("(%s < %s)", arg(0), arg(1))
	case KNot:
		s = "!" + arg(0)
	case KBin:
		s = fmt.Sprintf("(%s %s %s)", arg(0), t.Op, arg(1))
	case KUn:
		s = fmt.Sprintf("%s%s", t.Op, arg(0))
	case KConv:
		s = fmt.Sprintf("%s(%s)", types.TypeString(t.Type, func(*types.Package) string { return "" }), arg(0))
	case KCall:
		s = fmt.Sprintf("call#%d:%s", t.N, calleeString(t.Ref))
	case KExtract:
		s = fmt.Sprintf("%s.%d", arg(0), t.N)
	case KApp:
		var as []string
		for _, a := range t.Args {
			as = append(as, a.String())
		}
		s = fmt.Sprintf("%s(%s)", calleeString(t.Ref), strings.Join(as, ", "))
	case KSlice:
		s = fmt.Sprintf("%s[%s:%s]", arg(0), arg(1), arg(2))
	case KNone:
		s = ""
	case KLen:
		s = "len(" + arg(0) + ")"
	case KCap:
		s = "cap(" + arg(0) + ")"
	case KAppend:
		s = fmt.Sprintf("append(%s, %s...)", arg(0), arg(1))
	case KSliceLit:
		var as []string
		for _, a := range t.Args {
			as = append(as, a.String())
		}
		s = "[" + strings.Join(as, ", ") + "]"
	case KMakeIface:
		s = "iface(" + arg(0) + ")"
	case KClosure:
		s = "closure:" + FuncName(t.Ref.(*ssa.Function))
	case KTypeAssert:
		s = fmt.Sprintf("%s.(%s)", arg(0), types.TypeString(t.Type, func(*types.Package) string { return "" }))
	case KOpaque:
		s = fmt.Sprintf("opq#%d:%s", t.N, t.Ref.(ssa.Value).Name())
	case KFresh:
		s = fmt.Sprintf("fresh#%d", t.N)
	case KMake:
		s = fmt.Sprintf("make#%d", t.N)
	case KLookup:
		s = fmt.Sprintf("%s[%s]#%d", arg(0), arg(1), t.N)
	default:
		s = fmt.Sprintf("k%d", t.Kind)
	}
	t.str = s
	return s
}

func allocName(a *ssa.Alloc) string {
	if a.Comment != "" {
		return a.Comment
	}
	return a.Name()
}

func calleeString(r interface{}) string {
	switch r := r.(type) {
	case *ssa.Function:
		return FuncName(r)
	case *types.Func:
		return r.FullName()
	case *ssa.Builtin:
		return r.Name()
	case string:
		return r
	case *Term:
		return "dyn:" + r.String()
	case nil:
		return "?"
	}
	return fmt.Sprintf("%v", r)
}

// Walk visits t and all sub-terms.
func (t *Term) Walk(f func(*Term) bool) {
	if t == nil || !f(t) {
		return
	}
	for _, a := range t.Args {
		a.Walk(f)
	}
}

// Contains reports whether sub occurs in t.
func (t *Term) Contains(sub *Term) bool {
	found := false
	t.Walk(func(x *Term) bool {
		if x == sub {
			found = true
		}
		return !found
	})
	return found
}

// Args0Int returns the integer value of the first argument if it is a constant.
func (t *Term) Args0Int() (int64, bool) {
	if len(t.Args) == 0 {
		return 0, false
	}
	return t.Args[0].Int64()
}

// Args1Int returns the integer value of the second argument if it is a constant.
func (t *Term) Args1Int() (int64, bool) {
	if len(t.Args) < 2 {
		return 0, false
	}
	return t.Args[1].Int64()
}

// ArgN returns argument i or nil.
func (t *Term) ArgN(i int) *Term {
	if i < len(t.Args) {
		return t.Args[i]
	}
	return nil
}
