package main

import (
	"encoding/json"
	"fmt"
	"os"
	"path/filepath"
	"sort"
	"strings"

	"wsverif/core"
	"wsverif/rules"
)

type evidence struct {
	PropertyID  string                 `json:"property_id"`
	Tier        string                 `json:"tier"`
	Seed        int                    `json:"seed"`
	Level       string                 `json:"level"`
	Coverage    map[string]interface{} `json:"coverage"`
	Assumptions []string               `json:"assumptions"`
	WallS       float64                `json:"wall_s"`
	Violations  int                    `json:"violations"`
}

func writeEvidence(dir, prop, tier string, seed int, results []*core.Result, known []string, selftest map[string]interface{}, wall float64) (violations []core.Ob, err error) {
	var obs []core.Ob
	rulesDesc := map[string]string{}
	var assumptions, tables, variants []string
	funcs := map[string]bool{}
	paths := 0
	seenA := map[string]bool{}
	for _, r := range results {
		obs = append(obs, r.Obs...)
		for k, v := range r.Rules {
			rulesDesc[k] = v
		}
		for _, a := range r.Assumptions {
			if !seenA[a] {
				seenA[a] = true
				assumptions = append(assumptions, a)
			}
		}
		for _, t := range r.TableNotes {
			if !seenA["T"+t] {
				seenA["T"+t] = true
				tables = append(tables, t)
			}
		}
		for f := range r.Analysed {
			funcs[f] = true
		}
		paths += r.PathsSeen
		variants = append(variants, r.P.Variant.Name)
	}
	discharged, nontrivial := 0, 0
	perRule := map[string][2]int{}
	distinct := map[string]bool{}
	isLookup := func(c string) bool {
		for _, pre := range []string{"writer-of-", "writers-of-", "store-", "written-after-init", "installs-default-via-", "withholds-", "declares-only-", "one-pool-per-level", "floor"} {
			if strings.HasPrefix(c, pre) {
				return true
			}
		}
		return false
	}
	for _, o := range obs {
		key := o.Rule + "|" + o.Func + "|" + o.Construct
		if !o.Trivial && !isLookup(o.Construct) && !distinct[key] {
			distinct[key] = true
			nontrivial++
		}
	}
	for _, o := range obs {
		pr := perRule[o.Rule]
		pr[0]++
		if o.OK || o.Known {
			discharged++
			pr[1]++
		} else {
			violations = append(violations, o)
		}
		perRule[o.Rule] = pr
	}
	var samples []interface{}
	seenRule := map[string]int{}
	for _, o := range obs {
		if seenRule[o.Rule] >= 2 || len(samples) >= 24 {
			continue
		}
		seenRule[o.Rule]++
		samples = append(samples, map[string]interface{}{"rule": o.Rule, "function": o.Func, "construct": o.Construct, "site": o.Pos,
			"verdict": map[bool]string{true: "discharged", false: "VIOLATED"}[o.OK], "reason": o.Reason})
	}
	var ruleList []string
	for k := range rulesDesc {
		ruleList = append(ruleList, k)
	}
	sort.Strings(ruleList)
	var expl []string
	ruleStats := map[string]interface{}{}
	for _, k := range ruleList {
		expl = append(expl, k+": "+rulesDesc[k])
		ruleStats[k] = map[string]int{"obligations": perRule[k][0], "discharged": perRule[k][1]}
	}
	var fl []string
	for f := range funcs {
		fl = append(fl, f)
	}
	sort.Strings(fl)
	var viol []string
	for _, o := range violations {
		viol = append(viol, o.Diag())
	}
	cov := map[string]interface{}{
		"explanation": "Static analysis of /repo's current working tree (go/packages type-check, go/ssa, in-package call resolution, " +
			"path enumeration with symbolic terms and mod-sets; no library code is executed). " + rules.Descr(prop) + " Rules: " + strings.Join(expl, " | "),
		"obligations":         len(obs),
		"discharged":          discharged,
		"evaluations":         len(obs),
		"distinct_nontrivial": nontrivial,
		"rule": "evaluations = obligations evaluated in this run (one per rule x function x construct x build variant; an obligation reached on several paths is merged, any failing path fails it); " +
			"distinct_nontrivial = distinct (rule, function, construct) triples, counted once across build variants, that were decided by a path / flow / table argument " +
			"(who-may-write and other plain store-site lookups are not counted)",
		"samples":            samples,
		"exhaustive":         len(violations) == 0,
		"paths_enumerated":   paths,
		"functions_analysed": fl,
		"build_variants":     variants,
		"per_rule":           ruleStats,
		"table_discharged":   tables,
		"known_findings":     known,
		"violations":         viol,
	}
	if selftest != nil {
		cov["selftest"] = selftest
	}
	ev := evidence{PropertyID: prop, Tier: tier, Seed: seed, Level: "other", Coverage: cov, Assumptions: assumptions, WallS: wall, Violations: len(violations)}
	if ev.Assumptions == nil {
		ev.Assumptions = []string{}
	}
	b, _ := json.MarshalIndent(ev, "", " ")
	if err := os.MkdirAll(dir, 0o755); err != nil {
		return violations, err
	}
	if err := os.WriteFile(filepath.Join(dir, prop+".json"), b, 0o644); err != nil {
		return violations, err
	}
	// replay file
	rp := filepath.Join(dir, prop+".violation.txt")
	if len(violations) > 0 {
		var sb strings.Builder
		fmt.Fprintf(&sb, "property %s: %d violated obligation(s)\n", prop, len(violations))
		for _, o := range violations {
			sb.WriteString(o.Diag() + "\n")
		}
		os.WriteFile(rp, []byte(sb.String()), 0o644)
	} else {
		os.Remove(rp)
	}
	return violations, nil
}
