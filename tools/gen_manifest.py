#!/usr/bin/env python3
"""Regenerates /verif/MANIFEST.json from the table below (kept valid at all times)."""
import json, os, subprocess

ROOT = os.path.dirname(os.path.dirname(os.path.abspath(__file__)))

# id -> (claim text, level note, technique, design ref); only properties with built rules are listed
CLAIMED = {}
def claim(pid, text, note, technique, ref):
    CLAIMED[pid] = (text, note, technique, ref)

NOTE = ("Trusted base: go/packages+go/types+go/ssa (x/tools v0.29.0), the checker's path enumerator, mod-sets and term simplifier; "
        "library behaviour enters only through the facts listed in the evidence 'assumptions'. Decides structural necessary conditions, not the behaviour itself.")

claim("C09", "Static proof obligations over every path of the two critical sections: each transport write is inside a section of the channel mutex, "
      "the sticky error is re-read inside the section before writing, a successful close-frame write records ErrCloseSent before the mutex is released, "
      "the compared opcode is the one put on the wire, and the sticky error is only ever set from nil to non-nil. Together these imply (under Go's "
      "happens-before) that nothing is written after a close frame in any interleaving. Level 'other': a necessary-and-nearly-sufficient structural argument, not an execution.",
      NOTE, "path-sensitive lock-protocol (typestate/ordering) analysis on go/ssa with mod-sets", "DESIGN.md §4 C09")
claim("C10", "Error-discipline and guard-coverage rules on every path: each fallible transport call in a critical section is tested and routed to writeFatal, no transport "
      "operation follows a failed one, every error on the write path reaches the API's error result, invalid requests are rejected by guards that dominate every effect, "
      "and the deadline handed to the transport is the configured one. Byte-level prefix validity after a fault is not decided.",
      NOTE, "path-sensitive error-propagation and guard-dominance analysis on go/ssa", "DESIGN.md §4 C10")

claim("C04", "Exhaustive static decision table of the header validator: for all 65536 values of the first two header bytes in all 8 protocol states, every path of advanceFrame "
      "compatible with a forbidden header ends in handleProtocolError before any payload read, unmasking, handler call or delivery (the validator's own branch terms are evaluated "
      "over the finite alphabet inside the analyser; nothing is executed). Plus: close-code table over all 16-bit codes, UTF-8/close-code guards dominate the close handler, "
      "negative 64-bit lengths are refused before any read, read errors are sticky on every path of NextReader/messageReader.Read, and the 1002 close is sent. "
      "Not decided: that earlier messages were delivered intact (value property).",
      NOTE, "path enumeration + finite-domain guard-table extraction on go/ssa; error-stickiness dataflow", "DESIGN.md §4 C04")

claim("C03", "Static rules over every accepted path of the frame parser and the message reader: conformant headers are never refused (exhaustive header x state table), extended lengths use the right width/decoder, "
      "mask key copy + position reset per masked frame, Read unmasks exactly the n bytes read at the carried position iff server, readFinal/readDecompress equal the FIN/RSV1 bit (evaluated over all 256 byte-0 values), "
      "reads bounded by and subtracted from the remaining count, EOF only at true end, NextReader returns readers only for data frames, pooled inflaters are forgotten when returned. "
      "Decoded-payload equality and flate behaviour are NOT decided.",
      NOTE, "path enumeration + finite-domain evaluation of stored flag terms; typestate for pooled inflaters", "DESIGN.md §4 C03")
claim("C05", "Provenance analysis of every error messageReader.Read, (*Conn).read, ReadJSON and the inflate wrapper can return: a value that may be io.EOF leaves the message reader only on paths carrying "
      "(remaining <= 0 and FIN) or (stale reader); header EOF is converted; errors are sticky on every path; bytes returned with an error are unmasked. Found and fixed defect F1. "
      "Not decided: that every fully arrived message is reported (liveness/value).",
      NOTE, "path-sensitive value-provenance (taint) analysis of error results on go/ssa", "DESIGN.md §4 C05")
claim("C06", "Placement/strictness/overflow rules of the limit check on every data-frame path of advanceFrame (sum += len; sum<0 refused; limit>0 && sum>limit refused with 1009), opcode evaluation showing only data frames are counted, "
      "abstract-state rule that the running sum is zero whenever a new message can start (found and fixed defect F2), sign of stored lengths, and a def-use rule that no allocation/peek size derives from a claimed length. Exact byte counts delivered are not decided.",
      NOTE, "path enumeration with interval facts; abstract memory state at call sites; SSA def-use for allocation sizes", "DESIGN.md §4 C06")
claim("C08", "Exactly-one-dispatch rule on every accepted control-frame path (opcode decided by evaluating the path's byte-0 literals), payload provenance and unmasking (key position 0, iff server), close code/reason decoding and CloseError contents, "
      "handler errors returned, default handlers' WriteControl arguments, accepted close-code table over all 16-bit codes. Wire-order beyond sequential parsing is not decided.",
      NOTE, "path enumeration + value provenance on go/ssa; finite-domain table for close codes", "DESIGN.md §4 C08")

claim("C16", "Ownership typestate over every path after each of the five connection acquisitions (dial, deadline wrapper, TLS wrapper, CONNECT dialer, Hijack): failing paths close the connection (directly, via the owning TLS/buffered wrapper, or via the deferred closure evaluated with the captured cell's value on that path), successful paths do not and return it; "
      "per-direction deadline state shows nothing armed by the library survives success; wrap-order and context-derivation rules show the handshake deadline is on the first-hop connection before CONNECT/TLS. Timing itself and SOCKS internals are not decided.",
      NOTE, "defer-aware resource-pairing (typestate) analysis by region path enumeration on go/ssa", "DESIGN.md §4 C16")
claim("C20", "Typestate Get -> hold -> Put of the pooled write buffer on every path: Get dominated by validation guards and [writeBuf == nil]; Put guarded by the first-call test, followed by forgetting the buffer; every endMessage argument non-nil; every error/final exit of flushFrame passes endMessage; "
      "every access to the buffer in the writer methods is preceded by evidence that the writer is alive; buffers are kept between messages only without a pool. The application's pool implementation is trusted.",
      NOTE, "path-sensitive typestate / guard-dominance analysis on go/ssa with mod-sets", "DESIGN.md §4 C20")

claim("C01", "Codec-agreement and cursor rules on every path: writer header (class thresholds, extension bytes, back-filled position, encoded length == bytes handed to write, masking of exactly the payload) against the reader's decoding of the same classes and its key/position threading; "
      "every write API advances the cursor by exactly what it copied (including data returned with an error), the unbuffered path is server-only, deflate tail constants agree, compressed messages are closed through flate. "
      "NOT decided: byte-identical payloads for all sizes/chunkings, compress/flate and encoding/json round trips (value properties; see DESIGN.md §6).",
      NOTE, "sibling/codec agreement via canonical symbolic terms on enumerated paths (go/ssa)", "DESIGN.md §4 C01")
claim("C02", "Every path of both frame builders: mask bit/key/masking iff client with one fresh crypto/rand key per frame (same key in header and masking call, position 0, exactly the payload range); minimal length class by the RFC thresholds with matching big-endian extension and header position; "
      "byte 0 evaluated for every opcode = opcode|FIN|RSV1 only; RSV1 only via NextWriter's negotiated/enabled/data guard with the compressing writer installed, cleared per frame; continuation opcode + cursor reset; control frames unfragmented <= 125. Decoded payload equality is not decided.",
      NOTE, "path enumeration with canonical symbolic terms + finite-domain evaluation of header bytes (go/ssa)", "DESIGN.md §4 C02")

claim("C12", "Guard coverage over every path of Upgrade to Hijack (six checks with exact constants and arguments; required reply status per failing check; no hijack after a refusal), accept-key provenance and digest construction (sha1(key||RFC GUID), base64 std; validated key is the one hashed), "
      "subprotocol chosen from offer ∩ supported (known finding K1 for the responseHeader arm), announce <=> enable for permessage-deflate, response skeleton, and a taint rule over every byte appended to the 101 (found and fixed defect F4), plus OWS/exact-token necessary conditions of the token-list matcher. "
      "The <= direction and the full header grammar are NOT decided.",
      NOTE, "guard-dominance + taint (value provenance) analysis on enumerated paths (go/ssa)", "DESIGN.md §4 C12")
claim("C13", "checkSameOrigin's result is the constant true only for an absent Origin and otherwise exactly equalASCIIFold(url.Parse(origin[0]).Host, r.Host) with the parse error refused; Upgrade falls back to it iff CheckOrigin is nil and answers 403; "
      "equalASCIIFold calls no Unicode-aware function and its extracted per-rune decision is evaluated over a finite rune domain (every rune < U+0180/U+0300 plus the Unicode runes that fold into ASCII) against A-Z-only folding. net/url's host extraction is trusted.",
      NOTE, "path enumeration + finite-domain evaluation of the extracted rune comparison (go/ssa)", "DESIGN.md §4 C13")

claim("C14", "Region path enumeration of DialContext: after http.ReadResponse every path returning a Conn carries the four reply checks, the Accept check being against computeAcceptKey(this activation's generateChallengeKey result); failed replies return ErrBadHandshake + response with <= 1024 body bytes via io.ReadFull; "
      "before the first network-related call every path carries scheme in {ws,wss} and User == nil; request fields/protocol headers/conditional offers are checked from the stores and map updates on each path; caller headers are copied only under literals excluding each protocol-owned canonical name; key generation is crypto/rand + base64 and stateless; digest construction shared with C12. net/http (de)serialisation is trusted.",
      NOTE, "region path enumeration with guard dominance and value provenance (go/ssa)", "DESIGN.md §4 C14")
claim("C15", "Both ends' compression decisions are tied to the same facts on every path: server announce <=> enable (EnableCompression and permessage-deflate offer), client adopt only with token + both parameters (partial reply refused), offer iff EnableCompression, functions stored in pairs, literals parse to what the peer tests, reader/writer RSV1 gates (shared with C04/C03/C02), compression level range tied to the pool array. inflate∘deflate = id is NOT decided.",
      NOTE, "sibling agreement by path enumeration + constant/literal parsing (go/ssa)", "DESIGN.md §4 C15")

claim("C17", "Reader-selection coverage: every path of Upgrade from Hijack to newConn either reuses the hijacked bufio.Reader, wraps the connection in brNetConn{hijacked reader, hijacked conn}, or carries Buffered() == 0; newConn keeps a given reader; brNetConn.Read is limited to Buffered() bytes, returns that read's result and detaches only after observing an empty buffer; "
      "the client parses the 101 from Conn.br of the Conn it returns and creates no other reader. 'For every split point' is a value property over bufio and is NOT decided.",
      NOTE, "region path enumeration with value identity (go/ssa)", "DESIGN.md §4 C17")

claim("C18", "The finite configuration matrix is decided by path predicates: every path of netDialFromURL/netDialFn/proxyFromURL yields the dial function the configuration calls for; in DialContext every path from the dial to req.Write with https+proxy creates tls.Client over the tunnel, handshakes it (doHandshake == nil), writes the request to it and verifies the backend URL's host; "
      "doHandshake succeeds only after HandshakeContext and (unless InsecureSkipVerify) VerifyHostname(cfg.ServerName); the CONNECT exchange (target/Host, Basic credentials iff password, 200 required) and default ports/scheme mapping are checked on every path. crypto/tls and x/net/proxy are trusted.",
      NOTE, "path-predicate enumeration of the dial configuration matrix with value provenance (go/ssa)", "DESIGN.md §4 C18")

claim("C19", "Sibling/key agreement: WritePreparedMessage's compress flag is true exactly under NextWriter's three conditions (evaluated per path), role/level are the live fields; effect analysis shows every Conn field read on WriteMessage's call-graph cone is key-determined or in a reviewed neutral list; the private Conn is configured from every key field and rendered by WriteMessage(pm.messageType, pm.data); "
      "NewPreparedMessage re-points data at its own rendered copy; the frame cache is accessed under the mutex and read only after once.Do; the cached frame goes through Conn.write (C09 protocol incl. close-sent recording). Decoded equality is NOT decided.",
      NOTE, "sibling-guard agreement by path enumeration + transitive field-effect (mod-set) analysis + lockset (go/ssa)", "DESIGN.md §4 C19")

claim("C11", "Static race freedom under the documented contract: the transitive field effects (mod/ref sets over the in-package call graph, dynamic calls resolved by store-sets) of reader-side, writer-side and any-goroutine functions conflict only on construction-only fields or on writeErr, whose every access is inside writeErrMu; package variables are init-only; "
      "each critical section of Conn.mu performs exactly one transport write covering the whole frame and sections never nest; nothing blocks under a sync.Mutex; every WriteControl path that gives up without the lock has touched nothing; Close touches only the transport; pooled objects are forgotten when returned; the PreparedMessage cache is mutex/once protected. "
      "Latency ('by that deadline'), fairness and races inside net.Conn implementations are NOT decided.",
      NOTE, "field-effect partition (mod/ref) + lockset + one-write-per-section ordering analysis (go/ssa)", "DESIGN.md §4 C11")

claim("C07", "Every index/slice/make/division/array-conversion/unchecked-assertion/explicit-panic site and every big-endian accessor call in the 71 functions reachable from network input is discharged on every enumerated path by an interval + relational prover (branch literals, counting-loop and counter-pair invariants, transitivity through recorded facts, listed library length facts); "
      "every loop gets a progress argument (counter towards an invariant bound, range, strictly shrinking string cursor through suffix summaries proved coinductively, or consumed input / guard already false); allocation sizes never derive from claimed lengths or decoded integers. Found and fixed defect F3. One site is discharged by a reviewed table entry (flate.Resetter assertion). Nil dereferences and callee internals are NOT decided.",
      NOTE, "path-sensitive interval/relational bounds analysis with loop invariants + termination (progress) analysis on go/ssa", "DESIGN.md §4 C07")

# additions after the seeding rounds (DESIGN.md 9.7-9.8): appended to the claim text of the property
EXTRA = {
 "C16": " No goroutine started during the client handshake sets a deadline; after the handshake deadline was armed only the zero time is set. The token-list test that decides 'malformed' matches whole tokens with ASCII folding on every header line (shared with C14).",
 "C13": " No package-level state is written after initialisation. Upgrade does not read the Origin header itself (every origin refusal is the policy's 403).",
 "C09": " The frame type WritePreparedMessage passes to write is the type the cached frame was rendered with. The control frame a WriteControl call writes is assembled in call-private memory.",
 "C01": " Also: class-invariant (assume/guarantee) bounds proof of the whole write path (14 <= w.pos <= len(writeBuf) established, preserved by every store, sufficient for every index/slice site; ncopy/flushFrame summaries are obligations; Write loops make progress); rules shared with C02/C03/C08/C17/C20 for whole frames, message boundaries, early bytes, readable control frames and exclusive buffers. No handshake deadline is left armed on a dialed connection; a WriteControl that timed out waiting for the connection records no write error. The connection keeps the reader it was built with (no Reset, no replacement). The reply's extension header is examined on every field line (compression agreed by both ends).",
 "C02": " Also: raw-pointer word store of maskBytes stays inside the slice on all four build variants; frames are whole (critical-section protocol, private control-frame buffer); prepared payload snapshot is cut from a single frame; every compression level goes through flate; pooled deflaters and buffers are exclusive. A failed transport write is always recorded (no frame follows a torn one); a server connection compresses only if its 101 response announced the extension. Every PreparedMessage variant is rendered by the package's own writer and its cached bytes are never modified afterwards.",
 "C03": " Also: every Read method layered over another reader returns the inner count and passes non-EOF errors on; early bytes buffered before the upgrade are replayed completely; control frames of every legal size are readable and dispatched. No protocol-error return of advanceFrame is compatible with a conformant non-close header (full paths, header alphabet); the end of one message is never reported as the end of a joined stream. Failed frame reads are final (no resynchronisation after a timeout); reader types deliver data through Read only (another exported data-pulling method is reported as undecided); the connection's reader is never reset or replaced. ReadJSON's outcome is the decoder's (nil after a successful Decode, the decoder's own error otherwise); a reader that reported io.EOF is dropped in the same call.",
 "C04": " Also: the 1002 close is sent with a deadline that is now + a positive constant; the violating frame's error reaches readers through every wrapper. A control write that merely timed out does not prevent the later 1002 close. No frame RFC 6455 allows is treated as a violation (full-path accept table).",
 "C05": " Also: reader wrappers (inflate source, JoinMessages, brNetConn) never turn a fault into a clean end or drop bytes delivered with it; default control handlers do not turn write faults into read errors. The read buffer holds a maximal control frame for every buffer configuration; the reader choice in Upgrade strands no buffered bytes. The connection's reader is never reset or replaced; reader types deliver data through Read only.",
 "C06": " Also: the running sum is written only by the frame parser and NextReader's reset; the 1009 close carries a constant reason of at most 123 bytes and a future deadline. Interleaved control frames of legal size never make an in-limit message unreadable (read buffer lower bound). No allocation anywhere in the package is sized from the claimed frame length. ErrReadLimit is produced only by the frame parser (the limit counts wire bytes; no second place re-decides it); a clamped SetReadLimit is accepted. The 1009 close frame is assembled in memory private to the WriteControl call (a concurrent control write cannot overwrite it).",
 "C07": " Also: destination-size preconditions of base64/hex codecs; candidate loop invariants for counters advanced by non-constant amounts are checked at every back edge. Functions in scope returning (value, error) never return a nil value with a possibly-nil error; the inflater of a message is closed before Conn.reader is cleared.",
 "C08": " Also: the pong/close reply is assembled in call-private memory, sent with a future deadline; every reader a Conn can get holds a maximal control frame. Errors raised under a compressed or joined message reach the application unwrapped; a timed-out control write leaves later replies sendable. Control frames arriving with the handshake reach their handlers: the connection keeps its reader. ReadJSON returns connection errors unwrapped.",
 "C10": " Also: the transport's write deadline is touched only while holding the write lock; a refused control frame leaves no open writer behind. The concurrent-write detector is released on every return of the function that set it. PreparedMessage variants are rendered by WriteMessage, so invalid requests are refused as for WriteMessage. Every error Conn.write returns is recorded as the sticky write error.",
 "C11": " Also: the transport's write deadline is touched only while holding the write lock. Each PreparedMessage variant is rendered in memory of its own; the concurrent-write detector is released on every return. Cached PreparedMessage bytes are immutable after once.Do.",
 "C12": " Also: the default origin policy (shared with C13), the application's Sec-Websocket-Protocol entry is never copied into the reply, quoted-pair handling of the extension parser (pairs of consecutive scanner iterations). No package-level state is written after initialisation (no cache carries one handshake into the next). Token lists are scanned on every field line of the header (never through Header.Get) and skipSpace skips SP and HTAB only.",
 "C14": " Also: the capture buffer holds exactly 1024 bytes; the challenge-key error is known nil before any network activity. The handshake request is serialised in origin form only (Request.Write, never WriteProxy). No package-level state is written after initialisation (keys, headers and TLS configurations are per call). Caller header entries are stored under their own keys. Token lists are scanned on every field line of the header and skipSpace skips SP and HTAB only.",
 "C15": " Also: prepared messages are compressed only for connections that negotiated compression; every compression level produces a deflate stream. The client's decision follows the reply alone (no silent skip under its own EnableCompression setting); caller-supplied extension offers are not copied; pooled deflaters are exclusive; extension headers spread over several lines are all parsed. Pooled inflaters are exclusive and a closed wrapper stays closed. A connection without compression is returned only on paths that consulted parseExtensions(resp.Header) (every header line). parseExtensions examines every field line (no Header.Get).",
 "C17": " Also: newConn calls nothing on a reader it is given. Conn.br is assigned only by newConn and bufio.Reader.Reset is never called on the connection's reader. Whichever reader the connection ends up with holds a maximal control frame.",
 "C18": " Also: the first-hop TLS config is a clone of the caller's; the package never fills the trusted NetDialTLSContext hook itself. Basic proxy credentials use the standard base64 alphabet. The CONNECT header carrying credentials is created per dial; the backend TLS configuration is the caller's Dialer.TLSClientConfig (never swapped in a local copy); no package-level state. The URL the Proxy function returned reaches netDialFn unchanged. Of crypto/tls.Config the library stores only ServerName (who-may-write rule; NextProtos is the one reviewed neutral field): no library-installed session cache, root set or verification switch.",
 "C19": " Also: the {server, uncompressed} rendering is a single frame; the private rendering Conn writes only into memory allocated for that rendering. Cached frame bytes are only returned, sliced, measured or passed to Conn.write; every call of write passes the frame type of the bytes it writes.",
 "C20": " Also: Get/Put on any value of the BufferPool type; functions that open a message for their own use end it on every path; beginMessage considers the previous writer on every return. The pool reaches the connection only through newConn's parameter, which Upgrade/DialContext fill from their configuration; a non-nil error of Write/WriteString/ReadFrom means the message has ended. Conn.writeBuf is assigned only by newConn, beginMessage and endMessage (the buffer taken is the buffer returned).",
}

REASON_NOT_BUILT = "rules for this property are not built yet in this revision (see DESIGN.md §4 for the planned static rules); nothing is claimed"

def main():
    props = [json.loads(l) for l in open(os.path.join(ROOT, "properties.jsonl"))]
    hooks_commits = []
    checks, na = [], []
    for p in props:
        pid = p["id"]
        if pid in CLAIMED:
            text, note, tech, ref = CLAIMED[pid]
            text += EXTRA.get(pid, "")
            checks.append({
                "property_id": pid,
                "quick_cmd": "./run.sh %s quick" % pid,
                "thorough_cmd": "./run.sh %s thorough" % pid,
                "evidence_file": "/verif/evidence/%s.json" % pid,
                "replay_cmd_template": "./run.sh %s quick   # static: re-analysis of the tree is the replay; diagnostics in {path}" % pid,
                "engine": "wsverif",
                "level_claimed": {"category": "other", "text": text, "design_ref": ref},
                "level_note": note,
                "technique": tech,
            })
        else:
            na.append({"property_id": pid, "reason": NA.get(pid, REASON_NOT_BUILT)})
    m = {
        "version": 1,
        "setup_cmd": "./run.sh build",
        "hooks": {
            "guard": "verif",
            "enable": "none needed: the analysis reads the unmodified source of /repo (no hooks, no instrumentation)",
            "baseline_off_cmd": "cd /repo && go build ./... && go test -vet=off -count=1 ./...",
            "source_commits": hooks_commits,
            "add_only": True,
        },
        "engines": [{"name": "wsverif", "path": "/verif/checker", "serves_properties": sorted(CLAIMED),
                     "kind_free_text": "repository-specific static analyser (go/packages + go/ssa): path enumeration with symbolic terms, mod-sets, lock/typestate ordering, guard dominance, constant-table agreement"}],
        "checks": checks,
        "not_applicable": na,
        "notes": "Technique family: static analysis only. Anchors (functions, fields) are re-bound after pure renames and method/function conversions by name-independent fingerprints; anything else that cannot be resolved or decided fails closed. Four genuine defects were repaired in /repo by separate 'fix:' commits (see known_findings.json); no hook commits exist.",
    }
    json.dump(m, open(os.path.join(ROOT, "MANIFEST.json"), "w"), indent=1)
    print("claimed:", sorted(CLAIMED), "not_applicable:", [x["property_id"] for x in na])

NA = {}
if __name__ == "__main__":
    main()
