#!/usr/bin/env python3
"""Confirms sub-agent produced seeded defects and files them under /verif/seeded/<id>-<k>/.
For each /tmp/seed/<id>/out/<k>/: scratch copy of /repo; demo passes on clean tree; patch applies and builds;
existing suite passes with patch (retried for the known proxy-test flake); demo fails with patch."""
import json, os, shutil, subprocess, sys, tempfile, glob

ENV = dict(os.environ, GOFLAGS="-mod=mod", GOPROXY="off", GOSUMDB="off", GOTOOLCHAIN="local", GOWORK="off")

def run(cmd, cwd, timeout=600):
    try:
        p = subprocess.run(cmd, cwd=cwd, env=ENV, shell=True, capture_output=True, text=True, errors="replace", timeout=timeout)
        return p.returncode, (p.stdout + p.stderr)[-3000:]
    except subprocess.TimeoutExpired:
        return 124, "timeout"

SRC = "/tmp/seed"
OFFSET = 0

def confirm(pid, k):
    src = "%s/%s/out/%s" % (SRC, pid, k)
    patch, demo = os.path.join(src, "patch.diff"), os.path.join(src, "demo_test.go")
    if not (os.path.exists(patch) and os.path.exists(demo)):
        return None
    d = tempfile.mkdtemp(prefix="wsseed-")
    try:
        subprocess.run(["rsync", "-a", "--exclude", ".git", "--exclude", "examples", "/repo/", d + "/"], check=True)
        shutil.copy(demo, os.path.join(d, "demo_test.go"))
        names = subprocess.run("grep -ho '^func Test[A-Za-z0-9_]*' demo_test.go | sed 's/func //' | paste -sd'|'", cwd=d, shell=True, capture_output=True, text=True).stdout.strip()
        runpat = "-run '^(%s)$'" % names if names else ""
        rc_clean, out_clean = run("go test -vet=off -count=1 %s . " % runpat, d)
        os.remove(os.path.join(d, "demo_test.go"))
        rc_apply, out_apply = run("patch -p1 -s --no-backup-if-mismatch < %s" % patch, d)
        if rc_apply != 0:
            return dict(ok=False, why="patch does not apply", detail=out_apply)
        rc_build, out_build = run("go build ./... && go vet ./... >/dev/null 2>&1; go build ./...", d)
        suite_ok, suite_runs = False, []
        for attempt in range(4):
            rc_s, out_s = run("go test -vet=off -count=1 . ", d)
            suite_runs.append(rc_s)
            if rc_s == 0:
                suite_ok = True
                break
            fails = set(l.split()[2] for l in out_s.splitlines() if l.startswith("--- FAIL:"))
            if not fails or any(not ("Proxy" in f or "TLSValidation" in f) for f in fails):
                break
            # only the load-sensitive proxy/TLS dial tests failed (they fail on the clean tree too when the machine is
            # loaded): rerun single-threaded, where they are stable
            rc_s, out_s = run("GOMAXPROCS=1 go test -vet=off -count=1 . ", d)
            suite_runs.append(rc_s)
            if rc_s == 0:
                suite_ok = True
                break
        shutil.copy(demo, os.path.join(d, "demo_test.go"))
        rc_demo, out_demo = run("go test -vet=off -count=1 %s . " % runpat, d)
        ok = rc_clean == 0 and rc_build == 0 and suite_ok and rc_demo != 0
        return dict(ok=ok, demo_on_clean_rc=rc_clean, build_rc=rc_build, suite_runs=suite_runs, demo_with_patch_rc=rc_demo,
                    demo_tests=names, demo_with_patch_tail=out_demo[-600:], demo_clean_tail=out_clean[-300:] if rc_clean else "")
    finally:
        shutil.rmtree(d, ignore_errors=True)

def main():
    props = {json.loads(l)["id"]: json.loads(l) for l in open("/verif/properties.jsonl")}
    global SRC, OFFSET
    argv = sys.argv[1:]
    if "--src" in argv:
        i = argv.index("--src"); SRC = argv[i + 1]; del argv[i:i + 2]
    if "--offset" in argv:
        i = argv.index("--offset"); OFFSET = int(argv[i + 1]); del argv[i:i + 2]
    only = argv
    for pid in sorted(props):
        if only and pid not in only:
            continue
        for k in ("1", "2", "3"):
            dst = "/verif/seeded/%s-%d" % (pid, int(k) + OFFSET)
            if os.path.exists(os.path.join(dst, "meta.json")):
                continue
            res = confirm(pid, k)
            if res is None:
                continue
            print(pid, k, "CONFIRMED" if res["ok"] else "REJECTED", json.dumps({a: b for a, b in res.items() if a.endswith("rc") or a == "suite_runs"}), flush=True)
            if not res["ok"]:
                os.makedirs(SRC + "/rejected", exist_ok=True)
                json.dump(res, open(SRC + "/rejected/%s-%s.json" % (pid, k), "w"), indent=1)
                continue
            os.makedirs(dst, exist_ok=True)
            src = "%s/%s/out/%s" % (SRC, pid, k)
            shutil.copy(os.path.join(src, "patch.diff"), dst)
            shutil.copy(os.path.join(src, "demo_test.go"), os.path.join(dst, "demo_test.go.txt"))
            notes = open(os.path.join(src, "notes.md")).read() if os.path.exists(os.path.join(src, "notes.md")) else ""
            open(os.path.join(dst, "notes.md"), "w").write(notes)
            meta = {"property": pid, "breaks": props[pid]["title"], "source": "independent sub-agent given only the property text and a scratch worktree",
                    "needs_to_manifest": "see notes.md (written by the sub-agent)", "base_commit": subprocess.run("git -C /repo rev-parse --short HEAD", shell=True, capture_output=True, text=True).stdout.strip(),
                    "confirmed_by_me": {"what_i_ran": "scratch copy of /repo (rsync, no .git); `go test -run <demo tests>` on the clean copy; `patch -p1 < patch.diff`; `go build ./...`; `go test -vet=off -count=1 .` (retried only for the known flaky proxy/TLS dial tests); `go test -run <demo tests>` with the patch",
                                        "demo_on_clean_tree": "pass", "builds_with_patch": True, "suite_with_patch": "pass", "suite_attempt_exit_codes": res["suite_runs"], "demo_with_patch": "FAIL (exit %d)" % res["demo_with_patch_rc"],
                                        "demo_tests": res["demo_tests"], "demo_failure_tail": res["demo_with_patch_tail"]},
                    "demo_file": "demo_test.go.txt (rename to demo_test.go in the package root to run)", "detected_by": []}
            json.dump(meta, open(os.path.join(dst, "meta.json"), "w"), indent=1)

if __name__ == "__main__":
    main()
