#!/usr/bin/env python3
"""mkmut.py NAME KIND PROPS RULE FILE OLD NEW [FILE OLD NEW ...]
Creates mutants/NAME.patch (diff against /repo's current tree) and registers it in mutants/index.json.
KIND: break (the listed properties' checks must fire, naming RULE) | keep (behaviour preserving: must stay silent)."""
import json, os, subprocess, sys, tempfile, shutil
name, kind, props, rule = sys.argv[1:5]
edits = sys.argv[5:]
root = os.path.dirname(os.path.dirname(os.path.abspath(__file__)))
d = tempfile.mkdtemp(prefix="wsmk-")
try:
    os.makedirs(d + "/a"); os.makedirs(d + "/b")
    files = sorted(set(edits[0::3]))
    for f in files:
        shutil.copy("/repo/" + f, d + "/a/" + f); shutil.copy("/repo/" + f, d + "/b/" + f)
    for i in range(0, len(edits), 3):
        f, old, new = edits[i:i+3]
        s = open(d + "/b/" + f).read()
        if s.count(old) != 1:
            sys.exit("pattern occurs %d times in %s: %r" % (s.count(old), f, old))
        open(d + "/b/" + f, "w").write(s.replace(old, new))
    p = subprocess.run(["diff", "-ru", "a", "b"], cwd=d, capture_output=True, text=True)
    open(os.path.join(root, "mutants", name + ".patch"), "w").write(p.stdout)
    # must compile
    b = tempfile.mkdtemp(prefix="wsmkb-")
    subprocess.run(["rsync", "-a", "--exclude", ".git", "--exclude", "examples", "/repo/", b + "/"], check=True)
    subprocess.run("patch -p1 -s < %s" % os.path.join(root, "mutants", name + ".patch"), cwd=b, shell=True, check=True)
    env = dict(os.environ, GOFLAGS="-mod=mod", GOPROXY="off", GOSUMDB="off", GOTOOLCHAIN="local", GOWORK="off")
    r = subprocess.run("go build ./... && go vet . 2>&1 | head -3", cwd=b, shell=True, env=env, capture_output=True, text=True)
    shutil.rmtree(b)
    if r.returncode != 0:
        os.remove(os.path.join(root, "mutants", name + ".patch"))
        sys.exit("mutant does not compile: " + r.stderr[-500:])
    idxp = os.path.join(root, "mutants", "index.json")
    idx = json.load(open(idxp)) if os.path.exists(idxp) else {}
    idx[name] = {"kind": kind, "props": props.split(","), "rule": rule}
    json.dump(idx, open(idxp, "w"), indent=1, sort_keys=True)
    print("ok", name)
finally:
    shutil.rmtree(d, ignore_errors=True)
