#!/bin/sh
# usage: mutcheck.sh <patch.diff> <prop>...   — applies the patch to a scratch copy of /repo's working tree
# and runs the given property checks against it (no evidence written). Prints which properties fire.
set -u
patch="$(realpath "$1")"; shift
export GOFLAGS=-mod=mod GOPROXY=off GOSUMDB=off GOTOOLCHAIN=local GOWORK=off CGO_ENABLED=0
scratch=$(mktemp -d /tmp/wsverif-mut.XXXXXX)
trap 'rm -rf "$scratch"' EXIT
rsync -a --exclude .git --exclude examples /repo/ "$scratch/"
if ! (cd "$scratch" && patch -p1 -s --no-backup-if-mismatch < "$patch" >/dev/null 2>&1); then
  echo "SKIP (patch does not apply): $patch"; exit 3
fi
rc=0
for p in "$@"; do
  out=$(/verif/bin/wsverif -repo "$scratch" -verif /verif -no-evidence -prop "$p" 2>&1)
  if echo "$out" | grep -q '^VIOLATION'; then
    echo "FIRES $p: $(echo "$out" | grep 'rule=' | head -3 | sed 's/^ *//' | tr '\n' ';')"
  else
    echo "silent $p"; rc=1
  fi
done
exit $rc
