#!/bin/sh
# usage: withpatch.sh <patch.diff> <wsverif args...>  — runs bin/wsverif against a scratch copy of /repo with the patch applied
set -u
patch="$(realpath "$1")"; shift
export GOFLAGS=-mod=mod GOPROXY=off GOSUMDB=off GOTOOLCHAIN=local GOWORK=off CGO_ENABLED=0
scratch=$(mktemp -d /tmp/wsverif-wp.XXXXXX)
trap 'rm -rf "$scratch"' EXIT
rsync -a --exclude .git --exclude examples /repo/ "$scratch/"
(cd "$scratch" && patch -p1 -s --no-backup-if-mismatch < "$patch") || { echo "patch does not apply"; exit 3; }
/verif/bin/wsverif -repo "$scratch" -verif /verif -no-evidence "$@"
