#!/usr/bin/env python3
"""Checker validation: applies every mutant of mutants/ (and every confirmed seeded defect of seeded/) to a scratch
copy of /repo's current tree and runs the property checks against it.  'break' mutants must be reported (naming the
expected rule), 'keep' mutants (behaviour-preserving rewrites) must stay silent.  Never prints a VIOLATION line: this
measures the checker, not the property.  usage: selftest.py [--evidence Cnn] [Cnn ...]"""
import time, json, os, subprocess, sys, tempfile, shutil, concurrent.futures
ROOT = os.path.dirname(os.path.dirname(os.path.abspath(__file__)))
ENV = dict(os.environ, GOFLAGS="-mod=mod", GOPROXY="off", GOSUMDB="off", GOTOOLCHAIN="local", GOWORK="off", CGO_ENABLED="0")

def run_one(name, patch, props):
    d = tempfile.mkdtemp(prefix="wsverif-st-")
    try:
        subprocess.run(["rsync", "-a", "--exclude", ".git", "--exclude", "examples", "/repo/", d + "/"], check=True)
        p = subprocess.run("patch -p1 -s --no-backup-if-mismatch < %s" % patch, cwd=d, shell=True, capture_output=True, text=True)
        if p.returncode != 0:
            return name, "skipped (patch does not apply to the current tree)", {}
        out = {}
        binp = os.environ.get("WSVERIF_BIN", os.path.join(ROOT, "bin/wsverif"))
        if len(props) >= 20:
            # one process for all properties (the program is loaded once); rules are attributed by their prefix
            r = subprocess.run([binp, "-repo", d, "-verif", ROOT, "-no-evidence", "-prop", "all"], env=ENV, capture_output=True, text=True)
            for prop in props:
                out[prop] = []
            for l in r.stdout.splitlines():
                if "rule=" in l:
                    rule = l.split("rule=")[1].split()[0]
                    if rule.endswith(".registered"):
                        continue
                    pr = rule.split(".")[0]
                    if pr in out and rule not in out[pr]:
                        out[pr].append(rule)
            for prop in props:
                out[prop].sort()
            if r.returncode not in (0, 1):
                out[props[0]].append("CHECKER-CRASH")
        else:
            for prop in props:
                r = subprocess.run([binp, "-repo", d, "-verif", ROOT, "-no-evidence", "-prop", prop],
                                   env=ENV, capture_output=True, text=True)
                rules = sorted(set(l.split("rule=")[1].split()[0] for l in r.stdout.splitlines() if "rule=" in l))
                rules = [x for x in rules if not x.endswith(".registered")]
                out[prop] = rules
        return name, "ran", out
    finally:
        shutil.rmtree(d, ignore_errors=True)

def main():
    args = [a for a in sys.argv[1:] if not a.startswith("--")]
    ev_prop = None
    if "--evidence" in sys.argv:
        ev_prop = sys.argv[sys.argv.index("--evidence") + 1]
        args = [ev_prop]
    idx = json.load(open(os.path.join(ROOT, "mutants/index.json"))) if os.path.exists(os.path.join(ROOT, "mutants/index.json")) else {}
    jobs = []
    for name, m in sorted(idx.items()):
        mp = m["props"]
        if mp == ["all"]:
            mp = ["C%02d" % i for i in range(1, 21)]
        props = [p for p in mp if not args or p in args]
        if props:
            jobs.append((name, os.path.join(ROOT, "mutants", name + ".patch"), props, m))
    sd = os.path.join(ROOT, "seeded")
    if os.path.isdir(sd):
        for s in sorted(os.listdir(sd)):
            mp = os.path.join(sd, s, "meta.json")
            if not os.path.exists(mp):
                continue
            meta = json.load(open(mp))
            props = [meta["property"]] + [p for p in meta.get("also_check", [])]
            props = [p for p in props if not args or p in args]
            if props:
                jobs.append(("seeded/" + s, os.path.join(sd, s, "patch.diff"), props, {"kind": "break", "props": props, "rule": ""}))
    results = []
    # as part of a property's thorough tier (--evidence) the run is bounded: break variants and seeded defects first,
    # behaviour-preserving variants after them, and whatever has not started when the budget is used up is reported as skipped
    deadline = None
    if ev_prop:
        jobs.sort(key=lambda j: (j[3]["kind"] != "break", j[0]))
        deadline = time.time() + float(os.environ.get("VERIF_SELFTEST_BUDGET", "420"))
    def guarded(n, p, props):
        if deadline is not None and time.time() > deadline:
            return n, "skipped (time budget of the thorough tier; ./run.sh selftest runs everything)", {}
        return run_one(n, p, props)
    with concurrent.futures.ThreadPoolExecutor(max_workers=12) as ex:
        futs = {ex.submit(guarded, n, p, props): (n, m) for n, p, props, m in jobs}
        for f in concurrent.futures.as_completed(futs):
            n, m = futs[f]
            name, status, out = f.result()
            results.append((name, m, status, out))
    results.sort()
    detected = missed = falsealarm = quiet = skipped = 0
    lines = []
    for name, m, status, out in results:
        if status != "ran":
            skipped += 1
            lines.append("%-44s %s" % (name, status)); continue
        fired = {p: r for p, r in out.items() if r}
        if m["kind"] == "break":
            good = all(out.get(p_) for p_ in out)
            if m["rule"]:
                owner = m["rule"].split(".")[0]
                if owner in out:
                    good = good and m["rule"] in out[owner]
            if good: detected += 1
            else: missed += 1
            lines.append("%-44s %s  %s" % (name, "DETECTED" if good else "MISSED  ", json.dumps(fired)))
        else:
            if fired: falsealarm += 1
            else: quiet += 1
            lines.append("%-44s %s  %s" % (name, "FALSE-ALARM" if fired else "silent (ok)", json.dumps(fired)))
    print("\n".join(lines))
    print("selftest: %d break-mutants detected, %d missed; %d behaviour-preserving rewrites silent, %d false alarms; %d skipped" % (detected, missed, quiet, falsealarm, skipped))
    if ev_prop:
        evp = os.path.join(ROOT, "evidence", ev_prop + ".json")
        if os.path.exists(evp):
            e = json.load(open(evp))
            e["coverage"]["selftest"] = {"break_mutants_detected": detected, "break_mutants_missed": missed, "preserving_rewrites_silent": quiet,
                                         "preserving_rewrites_false_alarm": falsealarm, "skipped": skipped, "details": lines}
            json.dump(e, open(evp, "w"), indent=1)
    return 0

if __name__ == "__main__":
    sys.exit(main())
