#!/usr/bin/env python3
"""Runs every registered property check against every confirmed seeded defect (and every mutant of mutants/),
records which rules fire where: seeded/MATRIX.md, and 'detected_by' in each seeded/<id>/meta.json."""
import json, os, subprocess, sys, tempfile, shutil, concurrent.futures
ROOT = os.path.dirname(os.path.dirname(os.path.abspath(__file__)))
ENV = dict(os.environ, GOFLAGS="-mod=mod", GOPROXY="off", GOSUMDB="off", GOTOOLCHAIN="local", GOWORK="off", CGO_ENABLED="0")
PROPS = ["C%02d" % i for i in range(1, 21)]

def run(name, patch):
    d = tempfile.mkdtemp(prefix="wsverif-mx-")
    try:
        subprocess.run(["rsync", "-a", "--exclude", ".git", "--exclude", "examples", "/repo/", d + "/"], check=True)
        p = subprocess.run("patch -p1 -s --no-backup-if-mismatch < %s" % patch, cwd=d, shell=True, capture_output=True, text=True)
        if p.returncode != 0:
            return name, None
        r = subprocess.run([os.path.join(ROOT, "bin/wsverif"), "-repo", d, "-verif", ROOT, "-no-evidence", "-prop", "all"], env=ENV, capture_output=True, text=True)
        fired = {}
        for l in r.stdout.splitlines():
            if "rule=" in l:
                rule = l.split("rule=")[1].split()[0]
                fired.setdefault(rule.split(".")[0], set()).add(rule)
        return name, {k: sorted(v) for k, v in fired.items()}
    finally:
        shutil.rmtree(d, ignore_errors=True)

def main():
    jobs = []
    sd = os.path.join(ROOT, "seeded")
    for s in sorted(os.listdir(sd)):
        if os.path.exists(os.path.join(sd, s, "meta.json")):
            jobs.append(("seeded/" + s, os.path.join(sd, s, "patch.diff")))
    res = {}
    with concurrent.futures.ThreadPoolExecutor(max_workers=6) as ex:
        for name, fired in ex.map(lambda j: run(*j), jobs):
            res[name] = fired
            print(name, fired, flush=True)
    lines = ["# Seeded defects x property checks", "",
             "Each row: a confirmed seeded defect (sub-agent produced, given only the property text); columns: the rules of each property check that report it.",
             "`own` = the property the defect was written against.", "", "| defect | own property: rules firing | other properties firing |", "|---|---|---|"]
    for name in sorted(res):
        fired = res[name]
        own = name.split("/")[1].split("-")[0]
        if fired is None:
            lines.append("| %s | patch does not apply | |" % name); continue
        o = ", ".join(fired.get(own, [])) or "**MISSED**"
        others = "; ".join("%s: %s" % (k, ", ".join(v)) for k, v in sorted(fired.items()) if k != own)
        lines.append("| %s | %s | %s |" % (name, o, others))
        mp = os.path.join(ROOT, name, "meta.json")
        meta = json.load(open(mp))
        meta["detected_by"] = [r for k in sorted(fired) for r in fired[k]]
        json.dump(meta, open(mp, "w"), indent=1)
    open(os.path.join(sd, "MATRIX.md"), "w").write("\n".join(lines) + "\n")

if __name__ == "__main__":
    main()
