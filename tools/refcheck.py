#!/usr/bin/env python3
"""Runs every property check against behaviour-preserving refactorings (dirs given as args, each with patch.diff) and lists false alarms."""
import os, subprocess, sys, tempfile, shutil, concurrent.futures
ROOT = os.path.dirname(os.path.dirname(os.path.abspath(__file__)))
ENV = dict(os.environ, GOFLAGS="-mod=mod", GOPROXY="off", GOSUMDB="off", GOTOOLCHAIN="local", GOWORK="off", CGO_ENABLED="0")
def run(path):
    d = tempfile.mkdtemp(prefix="wsverif-rf-")
    try:
        subprocess.run(["rsync", "-a", "--exclude", ".git", "--exclude", "examples", "/repo/", d + "/"], check=True)
        p = subprocess.run("patch -p1 -s --no-backup-if-mismatch < %s" % path, cwd=d, shell=True, capture_output=True, text=True)
        if p.returncode != 0:
            return path, ["PATCH-DOES-NOT-APPLY"]
        b = subprocess.run("go build ./...", cwd=d, shell=True, env=ENV, capture_output=True, text=True)
        if b.returncode != 0:
            return path, ["DOES-NOT-BUILD"]
        r = subprocess.run([os.path.join(ROOT, "bin/wsverif"), "-repo", d, "-verif", ROOT, "-no-evidence", "-prop", "all"], env=ENV, capture_output=True, text=True)
        return path, [l.strip()[:260] for l in r.stdout.splitlines() if "rule=" in l] + ([] if r.returncode in (0, 1) else ["CHECKER-CRASH " + r.stderr[-300:]])
    finally:
        shutil.rmtree(d, ignore_errors=True)
paths = sys.argv[1:]
alarms = 0
with concurrent.futures.ThreadPoolExecutor(max_workers=6) as ex:
    for path, lines in ex.map(run, paths):
        if lines:
            alarms += 1
            print("FALSE-ALARM", path)
            for l in lines[:6]:
                print("    ", l)
        else:
            print("silent     ", path)
print("%d of %d refactorings raise an alarm" % (alarms, len(paths)))
