#!/bin/sh
# Entry point of every MANIFEST command.
#   ./run.sh build                 build the checker (offline)
#   ./run.sh Cnn quick|thorough    decide property Cnn on /repo's current working tree
#   ./run.sh selftest [Cnn]        run the checker-validation mutants (never prints VIOLATION)
set -u
cd "$(dirname "$0")"
export GOFLAGS=-mod=mod GOPROXY=off GOSUMDB=off GOTOOLCHAIN=local GOWORK=off CGO_ENABLED=0
unset GOARCH GOOS 2>/dev/null || true
build() {
  mkdir -p bin
  (cd checker && go build -o ../bin/wsverif .) || { echo "build of the checker failed" >&2; exit 2; }
}
case "${1:-}" in
  build) build ;;
  selftest) build; shift; exec python3 tools/selftest.py "$@" ;;
  C[0-9][0-9])
    build
    tier="${2:-${VERIF_TIER:-quick}}"
    bin/wsverif -repo "${WSVERIF_REPO:-/repo}" -verif "$(pwd)" -prop "$1" -tier "$tier"
    rc=$?
    if [ "$tier" = thorough ] && [ -f tools/selftest.py ]; then
      python3 tools/selftest.py --evidence "$1" || true
    fi
    exit $rc ;;
  *) echo "usage: $0 build | Cnn quick|thorough | selftest [Cnn]" >&2; exit 2 ;;
esac
