package probe2

import (
	"bufio"
	"bytes"
	"crypto/sha1"
	"encoding/base64"
	"fmt"
	"io"
	"net"
	"net/http"
	"net/http/httptest"
	"net/url"
	"strings"
	"testing"
	"time"

	"github.com/gorilla/websocket"
)

// scripted conn: answers handshake, then serves `stream`, returning the last chunk together with io.EOF
type sconn struct {
	net.Conn
	wbuf   bytes.Buffer
	rd     []byte
	stream []byte
	hs     bool
}

func (c *sconn) Write(p []byte) (int, error) {
	c.wbuf.Write(p)
	if !c.hs && bytes.Contains(c.wbuf.Bytes(), []byte("\r\n\r\n")) {
		req, _ := http.ReadRequest(bufio.NewReader(bytes.NewReader(c.wbuf.Bytes())))
		h := sha1.New()
		h.Write([]byte(req.Header.Get("Sec-Websocket-Key") + "258EAFA5-E914-47DA-95CA-C5AB0DC85B11"))
		c.rd = []byte("HTTP/1.1 101 Switching Protocols\r\nUpgrade: websocket\r\nConnection: Upgrade\r\nSec-WebSocket-Accept: " + base64.StdEncoding.EncodeToString(h.Sum(nil)) + "\r\n\r\n")
		c.hs = true
	}
	return len(p), nil
}
func (c *sconn) Read(p []byte) (int, error) {
	if len(c.rd) > 0 {
		n := copy(p, c.rd)
		c.rd = c.rd[n:]
		return n, nil
	}
	if len(c.stream) == 0 {
		return 0, io.EOF
	}
	n := copy(p, c.stream)
	c.stream = c.stream[n:]
	if len(c.stream) == 0 {
		return n, io.EOF // legal io.Reader behaviour
	}
	return n, nil
}
func (c *sconn) Close() error                       { return nil }
func (c *sconn) SetDeadline(t time.Time) error      { return nil }
func (c *sconn) SetReadDeadline(t time.Time) error  { return nil }
func (c *sconn) SetWriteDeadline(t time.Time) error { return nil }

func TestC05(t *testing.T) {
	// server->client: non-final text frame with 200 bytes payload, then stream ends (EOF with last bytes).
	payload := bytes.Repeat([]byte("x"), 424)
	frame := append([]byte{0x01, 126, 1, 168}, payload...)
	sc := &sconn{stream: frame}
	d := websocket.Dialer{ReadBufferSize: 128, NetDial: func(n, a string) (net.Conn, error) { return sc, nil }}
	c, _, err := d.Dial("ws://example.com/", nil)
	if err != nil {
		t.Fatal(err)
	}
	mt, p, err := c.ReadMessage()
	fmt.Printf("C05: mt=%d len=%d err=%v\n", mt, len(p), err)
	if err == nil {
		t.Errorf("partial (non-final) message reported complete")
	}
}

func TestProxyPanic(t *testing.T) {
	sc := &pconn{rd: []byte("HTTP/1.1 407\r\n\r\n")}
	pu, _ := url.Parse("http://proxy.example:8080")
	d := websocket.Dialer{Proxy: http.ProxyURL(pu), NetDial: func(n, a string) (net.Conn, error) { return sc, nil }}
	defer func() {
		if r := recover(); r != nil {
			t.Errorf("panic: %v", r)
		}
	}()
	_, _, err := d.Dial("ws://example.com/", nil)
	fmt.Println("proxy:", err)
}

type pconn struct {
	net.Conn
	rd []byte
}

func (c *pconn) Write(p []byte) (int, error) { return len(p), nil }
func (c *pconn) Read(p []byte) (int, error) {
	if len(c.rd) == 0 {
		return 0, io.EOF
	}
	n := copy(p, c.rd)
	c.rd = c.rd[n:]
	return n, nil
}
func (c *pconn) Close() error                       { return nil }
func (c *pconn) SetDeadline(t time.Time) error      { return nil }

func TestInject(t *testing.T) {
	u := websocket.Upgrader{}
	s := httptest.NewServer(http.HandlerFunc(func(w http.ResponseWriter, r *http.Request) {
		c, err := u.Upgrade(w, r, http.Header{"Sec-Websocket-Protocol": {"a\r\nX-Injected: 1"}})
		if err == nil {
			c.Close()
		}
	}))
	defer s.Close()
	nc, _ := net.Dial("tcp", strings.TrimPrefix(s.URL, "http://"))
	fmt.Fprintf(nc, "GET / HTTP/1.1\r\nHost: x\r\nUpgrade: websocket\r\nConnection: Upgrade\r\nSec-WebSocket-Version: 13\r\nSec-WebSocket-Key: AAAAAAAAAAAAAAAAAAAAAA==\r\n\r\n")
	b, _ := io.ReadAll(nc)
	fmt.Printf("%q\n", b)
	if bytes.Contains(b, []byte("\r\nX-Injected: 1\r\n")) {
		t.Errorf("header injection through responseHeader Sec-Websocket-Protocol value")
	}
}
