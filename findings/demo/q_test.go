package probe2

import (
	"bytes"
	"fmt"
	"net"
	"testing"

	"github.com/gorilla/websocket"
)

func TestC06History(t *testing.T) {
	const L = 10
	var s []byte
	// message A: text frame 1 byte (non-final) + continuation L-1 bytes (final): total L, within limit
	s = append(s, 0x01, 1, 'a')
	s = append(s, 0x80, L-1)
	s = append(s, bytes.Repeat([]byte("b"), L-1)...)
	// message G: single final binary frame of exactly L bytes
	s = append(s, 0x82, L)
	s = append(s, bytes.Repeat([]byte("g"), L)...)
	s = append(s, 0x88, 0) // close
	sc := &sconn{stream: s}
	d := websocket.Dialer{NetDial: func(n, a string) (net.Conn, error) { return sc, nil }}
	c, _, err := d.Dial("ws://example.com/", nil)
	if err != nil {
		t.Fatal(err)
	}
	c.SetReadLimit(L)
	if _, _, err := c.NextReader(); err != nil { // message A, abandoned unread
		t.Fatal(err)
	}
	mt, p, err := c.ReadMessage()
	fmt.Printf("C06: mt=%d p=%q err=%v\n", mt, p, err)
	if err != nil {
		t.Errorf("message of exactly L bytes refused after an abandoned in-limit message: %v", err)
	}
}
